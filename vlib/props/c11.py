"""C11 - macro, repetition and inclusion constructs are transparent.

(A) Props/C11.lean (token layer: C11_tokens & co).
(B) token stream: every delivered body line of generated single macros (comment lines, so the text is free) as the real
    asl writes it to the -P output vs Model/MacroCall.lean `macroLineFull`, byte for byte.
(C) token stream: the same real line vs SPEC `substWhole`; construct stream: the code file of a generated construct
    program vs the code file of its hand expansion (Lean SPEC `MacroSpec.expand`, independent of asl), both assembled
    by the real asl and compared record by record; additionally the real -P output vs the expansion text.
    INCLUDE/BINCLUDE/WHILE: hand expansion done by the harness itself (outside the Lean spec).
Processor layer (tag machine of as.c, Model/Tags.lean, Props/C11_Tags.lean): see c11_tags.py - the construct stream's
programs also go through the model (driver `c11tag`) and are compared with the real -P output and the SPEC's expansion.
Long delivered lines (c11_long.py): construct programs whose expanded lines sweep across the sizes of asl's line buffer (every physical
line short), through the same pipeline as the construct stream, plus long comment-line bodies through the token model.
Bookkeeping of expansions (c11_nest.py, Spec/Model MacroNest.lean, Props/C11_Nest.lean): many calls of macros with every control
parameter, call chains, recursion around NESTMAX, empty bodies - the recursion counter and the local-symbol handles.
Context of an expansion (c11_ctx.py, Spec/MacroCtx.lean, Model/TagsCtx.lean, Props/C11_Ctx.lean): programs spread over several directories
with same-named files everywhere, INCLUDE/BINCLUDE issued from macro and loop bodies and followed by further relative INCLUDE/BINCLUDE
statements - the hand expansion inlines the file the manual's search rule names; labels on / in front of the lines that open a construct at
odd addresses on targets that insert pad bytes - the hand expansion has the label in front of the first expanded statement.
Argument collection (c11_args.py, Spec/Model ArgFold.lean, Props/C11_Args.lean): the TEXT of macro call arguments, IRP / IRPN lists, IRPC strings,
default values and arguments passed on to nested constructs, with character / string constants that contain lower-case letters, escapes, the other
kind of quotation mark - in case-insensitive mode the conversion to upper case must not reach into a constant, with -U nothing is converted.
"""
import json
import os
import re
import sys
import time

from .. import common
from ..common import log
from . import c11_tags
from . import c11_long
from . import c11_nest
from . import c11_ctx
from . import c11_labels
from . import c11_args

INC = os.path.join(common.REPO, "include")


def hx(b):
    if isinstance(b, str):
        b = b.encode("latin-1")
    return b.hex() if b else "-"


def unhx(s):
    return b"" if s == "-" else bytes.fromhex(s)


def upstring(s):
    """asmsub.c UpString: upper-case outside '..' and ".." (harness plumbing for case-insensitive runs)"""
    out = []
    q = 0
    lastbk = False
    for ch in s:
        thisbk = False
        if ch == "\\":
            thisbk = True
        elif ch == "'":
            if not (q & 2) and not lastbk:
                q ^= 1
        elif ch == '"':
            if not (q & 1) and not lastbk:
                q ^= 2
        elif not q:
            ch = ch.upper()
        out.append(ch)
        lastbk = thisbk
    return "".join(out)


# --------------------------------------------------------------------------
# token stream

NAME_POOL = ["a", "b", "ab", "abc", "x", "x9", "p1", "p2", "reg", "Reg2", "op", "q", "cnt", "n", "dst", "src", "v", "w7", "lo", "hi",
             "k", "kk", "t0", "t1", "m", "z", "y", "u", "r", "s", "e", "f", "g", "h"]
PUNCT = ["+", "-", "*", "/", "(", ")", ",", " ", "  ", "\t", "$", ".", "_", "#", "<", ">", ":", "'", '"', "&", "|", "!", "[", "]", "%"]


def tok_case(rng, cs, force_np=None):
    np_ = force_np if force_np is not None else rng.choice([0, 1, 1, 2, 2, 3, 4, 5, 8, 9, 10, 12, 13, 14, 16, 17, 20, 24])
    names = []
    pool = list(NAME_POOL)
    rng.shuffle(pool)
    for i in range(np_):
        nm = pool[i] if i < len(pool) and rng.random() < 0.6 else "p%d" % (i + 1)
        if nm.upper() in [x.upper() for x in names]:
            nm = "p%dq" % (i + 1)
        names.append(nm)
    nbody = rng.choice([1, 2, 3, 4])
    body = []
    uses_bs = False
    for _ in range(nbody):
        parts = [";"]
        for _ in range(rng.randrange(1, 12)):
            r = rng.random()
            if names and r < 0.32:
                nm = rng.choice(names)
                if not cs and rng.random() < 0.5:
                    nm = rng.choice([nm.upper(), nm.lower(), nm.capitalize()])
                parts.append(nm)
            elif names and r < 0.47:
                nm = rng.choice(names)
                parts.append(rng.choice([nm + "x", "x" + nm, nm + "1", "d" + nm, nm + "_" + rng.choice(names), nm + "." + nm, "_" + nm, nm + nm]))
            elif names and r < 0.51:
                nm = rng.choice(names)
                form = rng.choice(["\\%s\\", "\\%s\\x", "x\\%s\\", "\\%s", "\\%s\\\\%s\\" % ("%s", rng.choice(names))])
                if len(names) >= 16 and form.count("%s") == 1 and "\\\\" in form:
                    pass
                parts.append(form % nm)
                uses_bs = True
            elif r < 0.64:
                parts.append(rng.choice(["ALLARGS", "ARGCOUNT", "allargs", "ArgCount", "ALLARGSx", "xARGCOUNT"]) if not cs else
                             rng.choice(["ALLARGS", "ARGCOUNT", "ALLARGSx", "xARGCOUNT"]))
            elif r < 0.72:
                parts.append(str(rng.randrange(0, 300)))
            else:
                parts.append(rng.choice(PUNCT))
            if rng.random() < 0.5:
                parts.append(rng.choice(PUNCT))
        line = "".join(parts)
        if line.endswith("\\"):
            line += "."
        body.append(line)
    # call arguments
    r = rng.random()
    if r < 0.55:
        na = np_
    elif r < 0.75:
        na = np_ + rng.randrange(1, 4)
    else:
        na = rng.randrange(0, np_ + 1)
    args = []
    for i in range(na):
        r = rng.random()
        if r < 0.12:
            a = ""
        elif r < 0.3 and names:
            a = rng.choice(names)          # an argument that is another parameter's name
            if not cs:
                a = a.upper()
        elif r < 0.45:
            a = "'%s'" % "".join(rng.choice("abXY 1") for _ in range(rng.randrange(0, 4)))
        elif r < 0.6:
            a = "%d" % rng.randrange(0, 100000)
        else:
            alpha = "ABCXYZ019+-*/$._#" if not cs else "abcXYZ019+-*/$._#"  # no brackets/quotes: they change how asl splits arguments
            a = "".join(rng.choice(alpha) for _ in range(rng.randrange(1, 7)))
        args.append(a)
    if na and args[-1] == "" and na == 1:
        args[-1] = "0"
    return dict(names=names, body=body, args=args, uses_bs=uses_bs)


def tok_source(cases, cs):
    lines = ["\tcpu z80", "\torg 0"]
    for i, c in enumerate(cases):
        lines.append("tm%d\tmacro %s" % (i, ",".join(c["names"])))
        lines += c["body"]
        lines.append("\tendm")
        lines.append(";#C%d" % i)
        lines.append("\ttm%d %s" % (i, ",".join(c["args"])))
    lines.append(";#END")
    return "\n".join(lines) + "\n"


def parse_i(data):
    """-P output -> {case index: [lines]}"""
    out = {}
    cur = None
    for ln in data.split(b"\n"):
        m = re.match(rb";#C(\d+)$", ln)
        if m:
            cur = int(m.group(1))
            out[cur] = []
            continue
        if ln == b";#END":
            cur = None
            continue
        if cur is not None and ln != b"":
            out[cur].append(ln)
    return out


def tok_requests(c, cs, argc_written=True):
    """driver requests for the body lines of one case (argc_written: the probed behaviour of ARGCOUNT, see c11_tags.probe_quirks)"""
    names = c["names"]
    args = c["args"]
    np_ = len(names)
    given = [a if cs else upstring(a) for a in args]
    # ExpandMacro: formal parameters filled up with empty strings (no defaults in this stream), excess appended
    bound = []
    for i in range(np_):
        bound.append(given[i] if i < len(given) else "")
    bound += given[np_:]
    # a single empty argument is no argument at all (ArgCnt = 0)
    nargs = len(args)
    allargs = ",".join(args)
    spec_cnt = len(bound)
    reqs = []
    nm = [n if cs else n.upper() for n in names]
    for raw in c["body"]:
        reqs.append(" ".join([("1" if cs else "0"), str(np_), str(len(bound))] + [hx(n) for n in nm] + [hx(a) for a in bound] +
                             [hx(str(nargs if argc_written else spec_cnt)), hx(allargs), hx(str(spec_cnt)), hx(raw)]))
    return reqs, nargs < np_


# --------------------------------------------------------------------------
# construct stream

class Gen:
    def __init__(self, rng, cs):
        self.rng = rng
        self.cs = cs
        self.nid = 0
        self.nlab = 0
        self.macros = []      # (name, params, defaults, locals, body(list of nodes), gs)
        self.enclosing = []   # upper-cased iteration variable names of the enclosing constructs (never reused inside)
        self.ctrl = False     # this program has string / character constants with control characters (TAB, 01h..1Fh) in its bodies
        self.mdepth = 0       # number of macro bodies we are in
        self.labmode = False  # label-heavy program: many private labels, deep nests, references from inner bodies to labels further out
        self.visible = []     # per lexically enclosing body (outermost first): the labels defined in it BEFORE the construct we are in
        self.global_labels = set()   # labels of GLOBALSYMBOLS constructs (they are global symbols)
        self.all_labels = []
        self.stats = dict(rept=0, irp=0, irpn=0, irpc=0, call=0, exitm=0, line=0, labels=0, globalsymbols=0, keyword=0, default=0,
                          excess=0, empty_arg=0, zero_iter=0, ragged=0, allargs=0, argcount=0, maxdepth=0, substr_names=0, arg_is_param_name=0,
                          ctrl_in_string=0, outer_ref=0, outer_ref_1=0, outer_ref_2=0, outer_ref_3plus=0, global_namesake=0,
                          global_namesake_ref=0)

    def fresh(self):
        self.nid += 1
        return self.nid

    def var_names(self, k, avoid):
        pool = ["v", "w", "p", "q", "r", "s", "t", "u", "va", "vb", "pa", "pb", "x1", "x2", "k", "kk", "ab", "a", "b"]
        self.rng.shuffle(pool)
        out = []
        for n in pool:
            if len(out) < k:
                if n.upper() in avoid or n.upper() in self.enclosing:
                    n = "%s%d" % (n, self.nid)
                out.append(n)
                self.enclosing.append(n.upper())
        return out

    def num_arg(self):
        r = self.rng.random()
        if r < 0.7:
            return str(self.rng.randrange(0, 100))
        if r < 0.85:
            return "(%d+%d)" % (self.rng.randrange(0, 50), self.rng.randrange(0, 50))
        return "0%02XH" % self.rng.randrange(0, 100)   # upper case: arguments are upper-cased outside quotes in case-insensitive mode

    def body_lines(self, scope_vars, depth, locals_out, allow_exitm, in_macro=None):
        """list of nodes; scope_vars: names visible for substitution (all hold numeric text)"""
        rng = self.rng
        nodes = []
        n = rng.randrange(1, 5)
        for _ in range(n):
            r = rng.random()
            maxd = 4 if self.labmode else 3          # label-heavy programs: up to 4 bodies inside each other (counts are small there)
            if self.labmode and depth < maxd and r < 0.5 and rng.random() < 0.45:
                r = 0.9           # ... and they nest more often
            if r < 0.5 or depth >= maxd:
                nodes.append(("L", self.data_line(scope_vars, locals_out, in_macro)))
                self.stats["line"] += 1
            elif r < 0.58 and allow_exitm:
                nodes.append(("X",))
                self.stats["exitm"] += 1
                nodes.append(("L", self.data_line(scope_vars, locals_out, in_macro)))
            else:
                # the nested body may refer to the labels this body has defined so far (and to those of the bodies further out):
                # "labels defined in macros are local" - to the expansion, and its nested repetition bodies are part of its text
                self.visible.append(list(locals_out) if locals_out is not None else [])
                try:
                    nodes.append(self.construct(scope_vars, depth + 1))
                finally:
                    self.visible.pop()
        return nodes

    def data_line(self, scope_vars, locals_out, in_macro):
        rng = self.rng
        r = rng.random()
        vs = list(scope_vars)
        if self.labmode and r >= 0.40:
            r = rng.random() * 0.40          # label-heavy programs: mostly label definitions and references
        if (r < 0.15 or (self.labmode and r < 0.20 and not locals_out)) and locals_out is not None:
            self.nlab += 1
            lab = "LQ%d" % self.nlab
            locals_out.append(lab)
            self.all_labels.append(lab)
            self.stats["labels"] += 1
            return "%s: db (%s-$)&255,(%s>>8)&255" % (lab, lab, lab)
        outer = [(len(self.visible) - i, lab) for i, ls in enumerate(self.visible) for lab in ls]
        if outer and rng.random() < (0.5 if self.labmode else 0.12):
            # reference to a label defined 1, 2, 3 ... bodies further out (defined before the construct we are in)
            far = max(d for d, _ in outer)
            cand = [x for x in outer if x[0] == far] if rng.random() < 0.5 else outer
            d, lab = rng.choice(cand)
            self.stats["outer_ref"] += 1
            self.stats["outer_ref_%s" % (d if d < 3 else "3plus")] += 1
            return rng.choice([" db %s&255", " db (%s>>8)&255,%s&255", " db 0+(%s&255),7"]).replace("%s", lab)
        if r < 0.25 and locals_out:
            lab = rng.choice(locals_out)
            return " db %s&255" % lab
        if r < 0.33 and in_macro and in_macro.get("numeric_all"):
            in_macro["uses_all"] = True
            self.stats["allargs"] += 1
            return " db 200,ALLARGS"
        if r < 0.40 and in_macro:
            in_macro["uses_cnt"] = True
            self.stats["argcount"] += 1
            return " db 201,ARGCOUNT"
        items = []
        for _ in range(rng.randrange(1, 4)):
            r2 = rng.random()
            if self.ctrl and rng.random() < 0.35:
                # a string / character constant with a TAB or another control character in it (KillCtrl rewrites stored body lines)
                c = chr(rng.choice([9, 9, 9, 9, 1, 2, 3, 5, 8, 11, 12, 16, 27, 31]))
                items.append(rng.choice(['"a%sb"', '"%s"', "'%s'", '"%sq"', '"x%s%sy"', '"k %s"']).replace("%s", c))
                self.stats["ctrl_in_string"] += 1
                continue
            if vs and r2 < 0.6:
                v = rng.choice(vs)
                if not self.cs and rng.random() < 0.3:
                    v = v.upper()
                items.append(rng.choice(["%s", "%s+1", "(%s*2)&255", "%s|128", "0+%s"]) % v)
            elif vs and r2 < 0.75:
                v = rng.choice(vs)
                self.stats["substr_names"] += 1
                # the name inside a longer identifier / next to '_' : must NOT resp. must be substituted
                items.append(rng.choice(["'%sz'", "'z%s'", "'%s9'"]) % v)
            else:
                items.append(str(rng.randrange(0, 256)))
        return " db " + ",".join(items)

    def construct(self, scope_vars, depth):
        rng = self.rng
        self.stats["maxdepth"] = max(self.stats["maxdepth"], depth)
        avoid = {v.upper() for v in scope_vars} | {"A", "B"}
        kind = rng.choice(["R", "R", "I", "I", "N", "C", "M", "M", "M"])
        if self.labmode and (self.mdepth >= 1 or depth > 1) and kind == "M":
            kind = rng.choice(["R", "I", "N", "C"])     # label-heavy programs: macros are called from the top level only (size)
        cid = self.fresh()
        gs = rng.random() < 0.25 and depth == 1     # GLOBALSYMBOLS only where the construct is expanded exactly once
        mark = len(self.enclosing)
        try:
            return self.construct2(kind, cid, gs, scope_vars, depth, avoid)
        finally:
            del self.enclosing[mark:]

    def construct2(self, kind, cid, gs, scope_vars, depth, avoid):
        rng = self.rng
        if kind == "R":
            n = rng.choice([0, 1, 1, 2, 3, 5, 40]) if depth <= 1 and not self.labmode else rng.choice([0, 1, 2, 3])
            if gs:
                n = 1
            locs = []
            body = self.body_lines(scope_vars, depth, None if gs and False else locs, True)
            self.stats["rept"] += 1
            self.stats["zero_iter"] += int(n == 0)
            return self.finish_gs(("R", cid, n, locs, body, gs))
        if kind == "I":
            (var,) = self.var_names(1, avoid)
            na = (rng.choice([1, 1, 2, 3, 4, 7]) if not self.labmode else rng.choice([1, 2, 3])) if not gs else 1
            args = [self.arg_for(scope_vars) for _ in range(na)]
            locs = []
            # no EXITM directly inside IRP/IRPN: known finding exitm-in-irp-crash (probed separately)
            body = self.body_lines(scope_vars + [var], depth, locs, False)
            self.stats["irp"] += 1
            return self.finish_gs(("I", cid, var, args, locs, body, gs))
        if kind == "N":
            k = rng.choice([1, 2, 2, 3, 4])
            vars_ = self.var_names(k, avoid)
            na = (rng.randrange(k, 3 * k + 2) if not self.labmode else rng.randrange(k, 2 * k + 1)) if not gs else k
            args = [self.arg_for(scope_vars) for _ in range(na)]
            if na % k:
                self.stats["ragged"] += 1
            locs = []
            # ragged tail: the padding arguments are empty, so every use is of the form 0+v / "v"
            body = self.body_lines(scope_vars, depth, locs, False)
            body.append(("L", " db " + ",".join('"<%s>"' % v for v in vars_)))
            self.stats["irpn"] += 1
            return self.finish_gs(("N", cid, vars_, args, locs, body, gs))
        if kind == "C":
            (var,) = self.var_names(1, avoid)
            # first character a digit: the string can never be an enclosing variable's name (strings are not protected)
            chars = rng.choice("0189") + "".join(rng.choice("abcXYZ0189") for _ in range(rng.randrange(0, 3 if self.labmode else 5) if not gs else 0))
            locs = []
            body = [("L", " db '%s',\"<%s>\"" % (var, var))]
            body += self.body_lines(scope_vars, depth, locs, True)
            self.stats["irpc"] += 1
            return self.finish_gs(("C", cid, var, chars, locs, body, gs))
        # macro: defined at top level (fresh scope), called here
        np_ = rng.choice([0, 1, 2, 2, 3, 4, 6, 9, 10, 13, 17, 20])
        params = ["m%dp%d" % (cid, i + 1) if rng.random() < 0.5 else "q%d%s" % (cid, "abcdefghijklmnopqrstuvwxyz"[i]) for i in range(np_)]
        defaults = [(str(rng.randrange(0, 200)) if rng.random() < 0.35 else "0") for _ in range(np_)]
        info = dict(numeric_all=True, uses_all=False, uses_cnt=False)
        locs = []
        saved, self.enclosing = self.enclosing, []
        saved_vis, self.visible = self.visible, []      # a macro body is text of its own: the caller's labels are not referred to
        self.mdepth += 1
        body = self.body_lines(params, 1 if depth < 3 else 3, locs, True, in_macro=info)
        self.mdepth -= 1
        self.enclosing = saved
        self.visible = saved_vis
        # arguments of this call
        call = []
        npos = rng.randrange(0, np_ + 1) if rng.random() < 0.5 else np_
        for i in range(npos):
            if rng.random() < 0.15:
                call.append((None, ""))
                self.stats["empty_arg"] += 1
                self.stats["default"] += 1
            else:
                call.append((None, self.arg_for(scope_vars)))
        if npos == np_ and rng.random() < 0.25 and not info["uses_all"] is None:
            for _ in range(rng.randrange(1, 3)):
                call.append((None, self.arg_for(scope_vars)))
                self.stats["excess"] += 1
        elif npos < np_:
            rest = list(range(npos, np_))
            rng.shuffle(rest)
            for i in rest[:rng.randrange(0, len(rest) + 1)]:
                k = params[i]
                if not self.cs and rng.random() < 0.3:
                    k = k.upper()
                call.append((k, self.arg_for(scope_vars)))
                self.stats["keyword"] += 1
            if len(call) < np_:
                self.stats["default"] += 1
        if call and call[-1] == (None, "") and len(call) == 1:
            call = []
        if info["uses_all"] and (any(k is not None or v == "" for k, v in call) or not call):
            # ALLARGS inside `db` needs a plain non-empty numeric list
            call = [(None, self.arg_for(scope_vars)) for _ in range(max(1, np_))]
        if info["uses_cnt"] and len(call) < np_:
            # keep ARGCOUNT out of the known finding's way (fewer arguments than parameters) in the main stream
            call = [(None, self.arg_for(scope_vars)) for _ in range(np_)]
        name = "mac%d" % cid
        self.macros.append((name, params, defaults, body, gs))
        self.stats["call"] += 1
        self.stats["globalsymbols"] += int(gs)
        if gs:
            self.global_labels.update(locs)
        return ("M", cid, name, params, defaults, [] if gs else locs, body, call, gs)

    def finish_gs(self, node):
        if node[-1]:
            self.stats["globalsymbols"] += 1
            self.global_labels.update(node[3] if node[0] == "R" else node[-3])
            # with GLOBALSYMBOLS the labels keep their names: the locals list of the spec is empty
            node = node[:-3] + ([], node[-2], True) if node[0] != "R" else ("R", node[1], node[2], [], node[4], True)
        return node

    def arg_for(self, scope_vars):
        if scope_vars and self.rng.random() < 0.3:
            self.stats["arg_is_param_name"] += 1
            return self.rng.choice(scope_vars)
        return self.num_arg()


def render(nodes, out, ind=" "):
    for nd in nodes:
        k = nd[0]
        if k == "L":
            out.append(nd[1])
        elif k == "X":
            out += [" if 1", " exitm", " endif"]
        elif k == "R":
            out.append(" rept %d%s" % (nd[2], ",{GLOBALSYMBOLS}" if nd[5] else ""))
            render(nd[4], out)
            out.append(" endm")
        elif k == "I":
            out.append(" irp %s,%s%s" % (nd[2], ",".join(nd[3]), ",{GLOBALSYMBOLS}" if nd[6] else ""))
            render(nd[5], out)
            out.append(" endm")
        elif k == "N":
            out.append(" irpn %d,%s,%s%s" % (len(nd[2]), ",".join(nd[2]), ",".join(nd[3]), ",{GLOBALSYMBOLS}" if nd[6] else ""))
            render(nd[5], out)
            out.append(" endm")
        elif k == "C":
            out.append(" irpc %s,\"%s\"%s" % (nd[2], nd[3], ",{GLOBALSYMBOLS}" if nd[6] else ""))
            render(nd[5], out)
            out.append(" endm")
        elif k == "M":
            out.append(" %s %s" % (nd[2], ",".join((("%s=%s" % (kk, v)) if kk is not None else v) for kk, v in nd[7])))


def encode(nodes, out):
    for nd in nodes:
        k = nd[0]
        if k == "L":
            out += ["L", hx(nd[1])]
        elif k == "X":
            out.append("X")
        elif k == "R":
            out += ["R", str(nd[1]), str(nd[2]), str(len(nd[3]))] + [hx(x) for x in nd[3]]
            encode(nd[4], out)
            out.append("E")
        elif k == "I":
            out += ["I", str(nd[1]), hx(nd[2]), str(len(nd[3]))] + [hx(x) for x in nd[3]] + [str(len(nd[4]))] + [hx(x) for x in nd[4]]
            encode(nd[5], out)
            out.append("E")
        elif k == "N":
            out += ["N", str(nd[1]), str(len(nd[2]))] + [hx(x) for x in nd[2]] + [str(len(nd[3]))] + [hx(x) for x in nd[3]] + [str(len(nd[4]))] + [hx(x) for x in nd[4]]
            encode(nd[5], out)
            out.append("E")
        elif k == "C":
            out += ["C", str(nd[1]), hx(nd[2]), hx(nd[3]), str(len(nd[4]))] + [hx(x) for x in nd[4]]
            encode(nd[5], out)
            out.append("E")
        elif k == "M":
            _, cid, name, params, defaults, locs, body, call, gs = nd
            out += ["M", str(cid), str(len(params))]
            for p, d in zip(params, defaults):
                out += [hx(p), hx(d)]
            out += [str(len(locs))] + [hx(x) for x in locs] + [str(len(call))]
            for kk, v in call:
                out += ["~" if kk is None else hx(kk), hx(v)]
            encode(body, out)
            out.append("E")


def build_program(top, macros, cs, rng):
    """source text + driver encoding of a construct tree (macro definitions first, then the top-level nodes)"""
    hdr = [" cpu z80", " org 100h"]
    src = list(hdr)
    for name, params, defaults, body, gs in macros:
        src.append("%s macro %s%s" % (name, ",".join("%s=%s" % (p, d) if d != "0" or rng.random() < 0.5 else p + "=0" for p, d in zip(params, defaults)),
                                      ("," if params else "") + "{GLOBALSYMBOLS}" if gs else ""))
        render(body, src)
        src.append(" endm")
    render(top, src)
    src.append(" db 255")
    enc = ["1" if cs else "0"]
    encode(top, enc)
    enc += ["L", hx(" db 255")]
    return "\n".join(src) + "\n", " ".join(enc), hdr


def gen_program(rng, cs):
    g = Gen(rng, cs)
    g.ctrl = rng.random() < 0.06
    g.labmode = rng.random() < 0.12
    top = []
    for _ in range(rng.randrange(1, 5)):
        if rng.random() < 0.25:
            top.append(("L", " db %d" % rng.randrange(256)))
        else:
            top.append(g.construct([], 1))
    # global symbols with the names of private labels (defined in front of or behind the constructs, referenced outside of them): inside
    # an expansion the name means the expansion's label, outside it means the global symbol
    priv = [l for l in g.all_labels if l not in g.global_labels]
    if priv and rng.random() < (0.6 if g.labmode else 0.2):
        rng.shuffle(priv)
        for lab in priv[:rng.randrange(1, 4)]:
            how = rng.randrange(3)
            d = "%s equ %d" % (lab, rng.randrange(1, 250)) if how == 0 else "%s: db %d" % (lab, rng.randrange(256))
            if how == 2:
                top.append(("L", d))
            else:
                top.insert(0, ("L", d))
            g.stats["global_namesake"] += 1
            if rng.random() < 0.7:
                top.append(("L", " db %s&255" % lab))
                g.stats["global_namesake_ref"] += 1
    # a global label defined inside a GLOBALSYMBOLS construct is referenced from outside
    src, enc, hdr = build_program(top, g.macros, cs, rng)
    return src, enc, hdr, g.stats


def canon_p(data):
    it = common.parse_pfile_py(data)
    if it is None:
        return None
    # merge adjacent data records (record boundaries are C04's subject): compare cells
    cells = []
    for x in it:
        if x[0] == "D" and len(x[5]):
            if cells and cells[-1][:3] == (x[1], x[2], x[3]) and cells[-1][3] + len(cells[-1][4]) // max(1, x[3]) == x[4]:
                cells[-1] = cells[-1][:4] + (cells[-1][4] + bytes(x[5]),)
            else:
                cells.append((x[1], x[2], x[3], x[4], bytes(x[5])))
    return cells


def strip_sfx(line):
    return re.sub(rb"(LQ\d+)(?:X\d+Y\d+)+", rb"\1", line)


SIG_TAB = "tab-inside-string-expanded-in-stored-body"


def squash_ctrl(line):
    """every run of blanks and control characters -> one blank"""
    return re.sub(rb"[\x00-\x20]+", b" ", line)


def norm_i(lines):
    out = []
    for ln in lines:
        t = ln.strip()
        if not t:
            continue
        op = t.split()[0].lower()
        if op in (b"if", b"endif", b"exitm", b"cpu", b"org"):
            continue
        out.append(b" ".join(ln.split()).upper())
    return out


# --------------------------------------------------------------------------
# harness-side hand expansion: INCLUDE, BINCLUDE, WHILE

def misc_programs(rng, wd, idx):
    progs = []
    # INCLUDE (nested once)
    inner = [" db %d" % rng.randrange(256) for _ in range(rng.randrange(0, 4))]
    outer = [" db 1", ' include "inc%d_b.inc"' % idx, " db 2"]
    open(os.path.join(wd, "inc%d_a.inc" % idx), "w").write("\n".join(outer) + "\n")
    open(os.path.join(wd, "inc%d_b.inc" % idx), "w").write("\n".join(inner) + ("\n" if inner else ""))
    a = [" cpu z80", " org 0", " db 9", ' include "inc%d_a.inc"' % idx, " db 8"]
    b = [" cpu z80", " org 0", " db 9", " db 1"] + inner + [" db 2", " db 8"]
    progs.append(("include", "\n".join(a) + "\n", "\n".join(b) + "\n"))
    # BINCLUDE with offset/length
    blob = bytes(rng.randrange(256) for _ in range(rng.choice([0, 1, 5, 300])))
    open(os.path.join(wd, "bin%d.bin" % idx), "wb").write(blob)
    off = rng.randrange(0, len(blob) + 1)
    ln = rng.randrange(0, len(blob) - off + 1)
    form = rng.choice([0, 1, 2])
    if form == 0:
        stmt, part = ' binclude "bin%d.bin"' % idx, blob
    elif form == 1:
        stmt, part = ' binclude "bin%d.bin",%d' % (idx, off), blob[off:]
    else:
        stmt, part = ' binclude "bin%d.bin",%d,%d' % (idx, off, ln), blob[off:off + ln]
    a = [" cpu z80", " org 0", " db 7", stmt, " db 6"]
    b = [" cpu z80", " org 0", " db 7"] + [" db " + ",".join(str(x) for x in part[i:i + 16]) for i in range(0, len(part), 16)] + [" db 6"]
    progs.append(("binclude", "\n".join(a) + "\n", "\n".join(b) + "\n"))
    # WHILE with a counter
    n = rng.choice([0, 1, 3, 40])
    a = [" cpu z80", " org 0", "cnt set 0", " while cnt<%d" % n, " db cnt,cnt*2&255", "cnt set cnt+1", " endm", " db 5"]
    b = [" cpu z80", " org 0"] + [" db %d,%d" % (i, (i * 2) & 255) for i in range(n)] + [" db 5"]
    progs.append(("while", "\n".join(a) + "\n", "\n".join(b) + "\n"))
    # WHILE with an arithmetic condition ("until the expression becomes logically false" = zero): counters that start
    # negative or positive and run towards zero with various steps, differences of two symbols, nested loops
    start = rng.choice([-5, -3, -1, 0, 1, 4, -40])
    step = (1 if start < 0 else -1) * rng.choice([1, 1, 2]) if start else 1
    vals = []
    v = start
    while v != 0 and len(vals) < 60 and (v < 0) == (start < 0):
        vals.append(v)
        v += step
    if vals and v != 0:
        # the step jumps over zero: make the condition a difference that hits zero exactly
        step = 1 if start < 0 else -1
        vals = list(range(start, 0, step))
    a = [" cpu z80", " org 0", "k set %d" % start, " while k", " db k&255", "k set k%+d" % step, " endm", " db 5"]
    b = [" cpu z80", " org 0"] + [" db %d" % (x & 255) for x in vals] + [" db 5"]
    progs.append(("while", "\n".join(a) + "\n", "\n".join(b) + "\n"))
    p_, q_ = rng.randrange(0, 6), rng.randrange(0, 6)
    lo, hi = min(p_, q_), max(p_, q_)
    a = [" cpu z80", " org 0", "p set %d" % lo, "q set %d" % hi, " while p-q", " db q-p", "p set p+1", " endm", " db 6",
         "i set 0", " while i<2", "j set -2", " while j", " db i,j&255", "j set j+1", " endm", "i set i+1", " endm", " db 7"]
    b = [" cpu z80", " org 0"] + [" db %d" % (hi - x) for x in range(lo, hi)] + [" db 6"] + \
        [" db %d,%d" % (i, j & 255) for i in range(2) for j in (-2, -1)] + [" db 7"]
    progs.append(("while", "\n".join(a) + "\n", "\n".join(b) + "\n"))
    # macro parameters with defaults: omitted, given empty by position (default applies), given empty by KEYWORD (the manual: "keyword
    # arguments allow to assign an empty string to a parameter with a non-empty default"), given by keyword; the parameters stand inside
    # strings, so every text is legal
    # upper-case / digit texts only: arguments are upper-cased in case-insensitive mode, default values are not
    d1, d2 = rng.choice(["AB", "7", "XYZ"]), rng.choice(["Q", "12", "RS"])
    g = rng.choice(["U", "55", "LMN"])
    calls = [("km", d1, d2), ("km %s" % g, g, d2), ("km ,%s" % g, d1, g), ("km ka=", "", d2), ("km kb=,ka=%s" % g, g, ""),
             ("km ka=,kb=", "", ""), ("km %s,kb=" % g, g, ""), ("km kb=%s" % g, d1, g)]
    rng.shuffle(calls)
    calls = calls[:rng.randrange(3, len(calls) + 1)]
    a = [" cpu z80", " org 0", "km macro ka=%s,kb=%s" % (d1, d2), ' db "<ka|kb>"', " endm"] + [" " + c for c, _, _ in calls] + [" db 4"]
    b = [" cpu z80", " org 0"] + [' db "<%s|%s>"' % (x, y) for _, x, y in calls] + [" db 4"]
    progs.append(("keyword-empty", "\n".join(a) + "\n", "\n".join(b) + "\n"))
    return progs


def first_cell_diff(c1, c2):
    """short description of the first difference of two canonical code files"""
    for a, b in zip(c1, c2):
        if a != b:
            if a[:4] != b[:4]:
                return a[:4], b[:4]
            da, db_ = a[4], b[4]
            j = next((t for t in range(min(len(da), len(db_))) if da[t] != db_[t]), min(len(da), len(db_)))
            return ("at %s+%d: %s (%d bytes)" % (a[3], j, da[max(0, j - 2):j + 6].hex(), len(da)),
                    "at %s+%d: %s (%d bytes)" % (b[3], j, db_[max(0, j - 2):j + 6].hex(), len(db_)))
    return "%d cells" % len(c1), "%d cells" % len(c2)


# --------------------------------------------------------------------------
# long delivered lines (generators in c11_long.py)

def tok_long_case(rng, cs, L):
    """one macro whose body is a comment line (free text); the DELIVERED line has exactly L characters, every physical line is short"""
    np_ = rng.choice([1, 2, 3, 5, 9])
    names = ["p%d" % (i + 1) if rng.random() < 0.5 else NAME_POOL[i] for i in range(np_)]
    main = names[0]
    m = rng.choice([2, 3, 4, 6])
    parts = [main] * m + [rng.choice(names) for _ in range(rng.randrange(0, 4))] + [rng.choice(["x" + main, main + "9", "ALLARGSx", str(rng.randrange(1000))])
                                                                                   for _ in range(rng.randrange(0, 4))]
    rng.shuffle(parts)
    raw = ";" + "".join(p_ + rng.choice(["+", "-", " ", ",", ".", "|", "<", ")", "  "]) for p_ in parts) + main
    alpha = "ABCXYZ019+-*/$._#" if not cs else "abcXYZ019+-*/$._#"
    short = ["".join(rng.choice(alpha) for _ in range(rng.randrange(0, 6))) for _ in range(np_ - 1)]
    if short and short[-1] == "":
        short[-1] = "0"
    # length of the delivered line as a function of len(arg 1): solve by the harness's own count of whole-name occurrences
    segs = re.findall(r"[A-Za-z0-9]+|[^A-Za-z0-9]", raw)
    up = (lambda x: x) if cs else (lambda x: x.upper())
    nm = [up(n) for n in names]
    fixed, uses = 0, 0
    for sg in segs:
        if up(sg) in nm:
            k = nm.index(up(sg))
            if k == 0:
                uses += 1
            else:
                fixed += len(short[k - 1])
        else:
            fixed += len(sg)
    room = L - fixed
    if uses == 0 or room < uses:
        return None
    a, rest = divmod(room, uses)
    if rest:
        raw += "".join(rng.choice("xyz+-. ") for _ in range(rest - 1)) + "."
        if re.search(r"[A-Za-z0-9]$", raw[:-rest]) and re.match(r"[A-Za-z0-9]", raw[-rest:]):
            return None         # the filler would glue onto the last name
    arg = "".join(rng.choice(alpha) for _ in range(a))
    return dict(names=names, body=[raw], args=[arg] + short, uses_bs=False)


def long_stream(args, tree_stream, asl, bdir, wd, drv_ok, qdict, spec_fail, corr_fail, proof_problems, samples, distinct):
    d = dict(per_length_programs=0, kinds={}, lengths_hit={}, off_target=0, grow_on_store=0, ascending=0, ascending_lines=0, history_programs=0,
             tok_cases=0, tok_evaluations=0, longest_delivered=0, longest_physical_nonhistory=0)
    quick = args.tier == "quick"
    rng = common.rng_for(args.seed, "C11/long")
    progs = []

    def add(r, cs, what, want=None):
        if r is None:
            return
        top, macros = r
        src, enc, hdr = build_program(top, macros, cs, rng)
        phys = max(len(x) for x in src.split("\n") if not x.startswith(";"))
        d["longest_physical_nonhistory"] = max(d["longest_physical_nonhistory"], phys)

        def seen(exp_lines, want=want):
            mx = max(len(x) for x in exp_lines if not x.startswith(b";"))
            d["longest_delivered"] = max(d["longest_delivered"], mx)
            if want is not None:
                if mx == want:
                    d["lengths_hit"][want] = d["lengths_hit"].get(want, 0) + 1
                else:
                    d["off_target"] += 1
        progs.append((src, enc, hdr, dict(what=what, on_expansion=seen), cs))

    # one program per target length; zone 1: nothing long seen before; zone 2: a physical line of P characters was read before
    per_len = 2 if quick else 12
    for zone, hist in ((c11_long.ZONE1, False), (c11_long.ZONE2, True)):
        for L in zone:
            for _ in range(per_len):
                kind = rng.choice(c11_long.KINDS)
                cs = rng.random() < 0.5
                P = rng.randrange(1023, 1150) if hist else None
                add(c11_long.gen_long(rng, cs, L, kind, P), cs, "long %s L=%d history=%s" % (kind, L, P), L)
                d["per_length_programs"] += 1
                d["history_programs"] += int(hist)
                d["kinds"][kind] = d["kinds"].get(kind, 0) + 1
    # random lengths after random histories (the buffer size in force is whatever the history made it)
    for _ in range(6 if quick else 300):
        P = rng.choice([None, rng.randrange(1000, 1700)])
        L = rng.randrange(1000, 1800)
        kind = rng.choice(c11_long.KINDS)
        cs = rng.random() < 0.5
        add(c11_long.gen_long(rng, cs, L, kind, P), cs, "long %s L=%d history=%s" % (kind, L, P), L)
        d["kinds"][kind] = d["kinds"].get(kind, 0) + 1
    # body lines that grow when they are stored (one-letter names, two-byte tokens)
    for _ in range(10 if quick else 200):
        L = rng.randrange(1016, 1040)
        cs = rng.random() < 0.5
        add(c11_long.gen_grow_on_store(rng, cs, L), cs, "stored line grows to %d" % L)
        d["grow_on_store"] += 1
    # ascending sweeps inside one run
    for _ in range(1 if quick else 8):
        lo = rng.randrange(1000, 1020)
        hi = lo + (170 if quick else rng.randrange(150, 420))
        cs = rng.random() < 0.5
        add(c11_long.gen_ascending(rng, cs, lo, hi, rng.choice(["irp", "macro"])), cs, "ascending sweep %d..%d in one run" % (lo, hi))
        d["ascending"] += 1
        d["ascending_lines"] += hi - lo + 1
    tree_stream(progs, "long")

    # comment-line bodies (free text) through the token layer model, one assembler run per length
    cases = []
    for zone in (c11_long.ZONE1,):
        for L in zone:
            for _ in range(1 if quick else 6):
                cs = rng.random() < 0.5
                c = tok_long_case(rng, cs, L)
                if c is not None:
                    cases.append((c, cs, L))
    reqs = []
    for c, cs, L in cases:
        rq, fewer = tok_requests(c, cs, qdict["argCountWritten"])
        reqs.append(rq[0])
    answers = common.driver("c11tok", reqs, timeout=600) if drv_ok else []
    for (c, cs, L), ans in zip(cases, answers):
        kv = dict(x.split("=", 1) for x in ans.split() if "=" in x)
        if "model" not in kv:
            proof_problems.append("driver c11tok (long): " + ans[:100])
            continue
        model, spec = unhx(kv["model"]), unhx(kv["spec"])
        src = tok_source([c], cs)
        rc, msg, p, i = asl(bdir, wd, "tl", src, flags=(["-U"] if cs else []), want_i=True)
        got = (parse_i(i).get(0) or [None])[0] if i is not None else None
        d["tok_cases"] += 1
        d["tok_evaluations"] += 1
        d["longest_delivered"] = max(d["longest_delivered"], len(spec))
        if len(spec) == L:
            d["lengths_hit"][L] = d["lengths_hit"].get(L, 0) + 1
        else:
            d["off_target"] += 1
        distinct.add(("long-tok", c["body"][0], tuple(c["args"])))
        info = dict(tag="tok long L=%d cs=%d" % (L, cs), source=src, asflags="-U" if cs else "", real_tail=repr(got[-60:] if got else got),
                    model_tail=repr(model[-60:]), spec_tail=repr(spec[-60:]), lengths="real %s model %d spec %d" % (len(got) if got else None, len(model), len(spec)))
        if rc != 0 or got != spec:
            info["why"] = "delivered macro line (%s characters) differs from whole-name substitution (SPEC substWhole, %d characters) rc=%s" % (
                len(got) if got else None, len(spec), rc)
            spec_fail.append(info)
        elif got != model:
            info["why"] = "delivered macro line differs from the model of CompressLine/ExpandLine (Model/MacroCall.lean)"
            corr_fail.append(info)
    return d


# --------------------------------------------------------------------------
# known findings (replayed every run) and probes of the shapes excluded by C11_tokens

FINDING_PROBES = [
    ("adjacent-tokens-misaligned-match",
     "fm macro " + ",".join("p%d" % i for i in range(1, 18)) + "\n; \\p16\\\\p17\\.\n endm\n;#C0\n fm " + ",".join(str(i % 10) for i in range(1, 18)) + "\n;#END\n",
     b"; 67."),
    ("shift-leaves-last-parameter-token",
     "fs macro a,b\n shift\n; <a|b>\n endm\n;#C0\n fs 1,2\n;#END\n",
     b"; <2|>"),
    ("argcount-below-formal-count",
     "fa macro a,b,c\n; ARGCOUNT\n endm\n;#C0\n fa 1\n;#END\n",
     b"; 3"),
]

PROGRAM_PROBES = [
    (SIG_TAB, " cpu z80\n org 0\nm macro\n db \"a\tb\"\n endm\n m\n db 255\n", " cpu z80\n org 0\n db \"a\tb\"\n db 255\n"),
    (SIG_TAB, " cpu z80\n org 0\n irp x,1\n db \"a\x05b\",'\x1b'\n endm\n irpc y,\"1\"\n db \"\tq\"\n endm\n db 255\n",
     " cpu z80\n org 0\n db \"a\x05b\",'\x1b'\n db \"\tq\"\n db 255\n"),
    ("irpc-empty-string-iterates-once", " cpu z80\n org 0\n irpc c,\"\"\n db 1,\"<c>\"\n endm\n db 255\n", " cpu z80\n org 0\n db 255\n"),
    ("exitm-in-irp-crash", " cpu z80\n org 0\n irp t,1,2\n db t\n if 1\n exitm\n endif\n db 9\n endm\n db 255\n", " cpu z80\n org 0\n db 1\n db 255\n"),
    ("exitm-in-irp-crash", " cpu z80\n org 0\n irpn 2,t,u,1,2,3\n db t\n if 1\n exitm\n endif\n db 9\n endm\n db 255\n", " cpu z80\n org 0\n db 1\n db 255\n"),
]

EDGE_PROBES = [
    ("name-with-underscore", "e1 macro a_b\n; a_b\n endm\n e1 1\n"),
    ("name-with-dot", "e2 macro a.b\n; a.b\n endm\n e2 1\n"),
    ("name-starting-with-digit", "e3 macro 1a\n; 1a\n endm\n e3 1\n"),
]


def asl(bdir, wd, name, src, flags=(), want_i=False, timeout=60):
    f = os.path.join(wd, name + ".asm")
    with open(f, "wb") as fh:
        fh.write(src if isinstance(src, bytes) else src.encode("latin-1"))
    pf = os.path.join(wd, name + ".p")
    for x in (pf, os.path.join(wd, name + ".i")):
        if os.path.exists(x):
            os.unlink(x)
    rc, so, se = common.run_tool(bdir, "asl", ["-q", "-i", INC] + list(flags) + (["-P"] if want_i else []) + [f, "-o", pf], wd, timeout=timeout)
    p = open(pf, "rb").read() if os.path.exists(pf) else None
    i = None
    ifile = os.path.join(wd, name + ".i")
    if want_i and os.path.exists(ifile):
        i = open(ifile, "rb").read()
    return rc, (so + se).decode(errors="replace"), p, i


def run(args):
    res = common.Result("C11", args.tier, args.seed, "proof")
    bdir, audit, proof_problems = common.standard_setup(res, "C11", ["MacroConsts"])
    if bdir is None:
        return res.finish()
    drv_ok = not any(p.startswith("driver does not build") for p in proof_problems)
    spec_fail, corr_fail, samples = [], [], []
    dist = dict(tok_cases=0, tok_lines=0, tok_lines_spec_applicable=0, tok_backslash_lines=0, tok_np_hist={}, tok_ctrl_token_params=0,
                programs=0, programs_cs=0, program_lines_expanded=0, i_compared=0)
    dist["misc"] = {"include": 0, "binclude": 0, "while": 0, "keyword-empty": 0}
    distinct = set()
    evaluations = 0
    ntok = {"quick": 1600, "thorough": 30000}[args.tier]
    nprog = {"quick": 500, "thorough": 12000}[args.tier]
    with common.Workdir("c11") as wd:
        # ---------------- known findings + excluded shapes
        for sig, body, expect in FINDING_PROBES:
            rc, msg, p, i = asl(bdir, wd, "kf", " cpu z80\n org 0\n" + body, want_i=True)
            got = parse_i(i).get(0) if i is not None else None
            if got is None or got[:1] != [expect]:
                spec_fail.append(dict(sig=sig, tag="probe:" + sig, source=body,
                                      why="hand expansion by the manual gives %r, asl delivers %r (rc=%s %s)" % (expect, got, rc, msg[-200:])))
        for sig, a, b in PROGRAM_PROBES:
            rc1, m1, p1, _ = asl(bdir, wd, "pa", a)
            rc2, m2, p2, _ = asl(bdir, wd, "pb", b)
            if rc1 != 0 or p1 is None or p2 is None or canon_p(p1) != canon_p(p2):
                spec_fail.append(dict(sig=sig, tag="probe:" + sig, source=a, hand_expansion=b,
                                      why="construct program: rc=%s (negative = killed by signal) %s; its hand expansion assembles (rc=%s)" % (rc1, m1[-200:], rc2)))
        edge = {}
        for tag, body in EDGE_PROBES:
            rc, msg, p, i = asl(bdir, wd, "edge", " cpu z80\n org 0\n" + body, want_i=True)
            edge[tag] = "rejected (rc=%s)" % rc if rc != 0 else "accepted"
        res.notes.append("parameter-name shapes excluded by C11_tokens (NameOK), probed on the real assembler: %s" % edge)
        qflags, qdict = c11_tags.probe_quirks(asl, bdir, wd)
        # does KillCtrl rewrite control characters inside string constants (known finding tab-inside-string-expanded-in-stored-body)?  Model/Macro.lean
        # killCtrl transcribes that behaviour; once it is repaired the text comparisons of the programs with such constants are skipped until
        # the model is re-transcribed (the SPEC comparison - code of the construct program = code of its hand expansion - stays in force)
        _, _, pk1, _ = asl(bdir, wd, "q6a", ' cpu z80\n org 0\nqk macro\n db "a\tb"\n endm\n qk\n')
        _, _, pk2, _ = asl(bdir, wd, "q6b", ' cpu z80\n org 0\n db "a\tb"\n')
        kill_in_strings = pk1 is None or pk2 is None or canon_p(pk1) != canon_p(pk2)
        qdict = dict(qdict, killCtrlInStrings=kill_in_strings)
        res.notes.append("quirk flags of the tag machine model, calibrated on the real assembler: %s" % qdict)

        # ---------------- token stream
        for cs in (False, True):
            rng = common.rng_for(args.seed, "C11/tok/%d" % cs)
            cases = [tok_case(rng, cs) for _ in range(ntok // 2)]
            for np_ in (8, 9, 10, 12, 13, 16, 17, 20, 24, 40):
                cases.append(tok_case(rng, cs, force_np=np_))
            rc, msg, p, i = asl(bdir, wd, "tok%d" % cs, tok_source(cases, cs), flags=(["-U"] if cs else []), want_i=True, timeout=300)
            if rc != 0 or i is None:
                spec_fail.append(dict(tag="tok-stream cs=%d" % cs, why="asl rejected macros whose bodies are comment lines: rc=%s %s" % (rc, msg[-600:]),
                                      source=tok_source(cases, cs)[:20000]))
                continue
            real = parse_i(i)
            reqs, metas = [], []
            for ci, c in enumerate(cases):
                rq, fewer = tok_requests(c, cs, qdict["argCountWritten"])
                for li, r in enumerate(rq):
                    reqs.append(r)
                    metas.append((ci, li, fewer))
            answers = common.driver("c11tok", reqs, timeout=1800) if drv_ok else []
            for (ci, li, fewer), ans in zip(metas, answers):
                c = cases[ci]
                kv = dict(x.split("=", 1) for x in ans.split() if "=" in x)
                if "model" not in kv:
                    proof_problems.append("driver c11tok: " + ans[:100])
                    continue
                raw = c["body"][li]
                got = real.get(ci, [])
                got = got[li] if li < len(got) else None
                model = unhx(kv["model"])
                spec = unhx(kv["spec"])
                evaluations += 1
                dist["tok_lines"] += 1
                np_ = len(c["names"])
                dist["tok_np_hist"][np_] = dist["tok_np_hist"].get(np_, 0) + 1
                dist["tok_ctrl_token_params"] += int(np_ >= 12)
                applicable = "\\" not in raw
                dist["tok_backslash_lines"] += int(not applicable)
                src = "tm macro %s\n%s\n endm\n tm %s\n" % (",".join(c["names"]), raw, ",".join(c["args"]))
                distinct.add((np_, raw, tuple(c["args"])))
                info = dict(tag="tok cs=%d case=%d line=%d" % (cs, ci, li), source=src, asflags="-U" if cs else "", real=repr(got), model=repr(model), spec=repr(spec))
                if applicable:
                    dist["tok_lines_spec_applicable"] += 1
                    if got != spec:
                        if fewer and re.search("ARGCOUNT", raw, re.I) and got == model:
                            info["sig"] = "argcount-below-formal-count"
                        info["why"] = "delivered macro line differs from whole-name substitution (SPEC substWhole)"
                        spec_fail.append(info)
                        continue
                if got != model:
                    info["why"] = "delivered macro line differs from the model of CompressLine/ExpandLine (Model/MacroCall.lean)"
                    corr_fail.append(info)
                elif len(samples) < 3 and np_ >= 2 and got != raw.encode("latin-1"):
                    samples.append(dict(kind="token", params=c["names"], args=c["args"], body_line=raw, delivered=got.decode("latin-1")))
            dist["tok_cases"] += len(cases)

        # ---------------- construct stream
        dist["tag_tree_programs"] = 0
        dist["tag_tree_model_eq_spec"] = 0
        agg = {}

        def tree_stream(progs, label):
            """construct trees: SPEC expansion (c11exp), tag machine model (c11tag), real asl -P, real asl on the hand expansion"""
            nonlocal evaluations
            answers = common.driver("c11exp", [p[1] for p in progs], timeout=1800) if drv_ok else []
            tag_answers = common.driver("c11tag", [c11_tags.tree_request(p[1], qflags) for p in progs], timeout=1800) if drv_ok else []
            for k, ((src, enc, hdr, st, cs), ans) in enumerate(zip(progs, answers)):
                if not ans.startswith("ok"):
                    proof_problems.append("driver c11exp: %s on %s %d" % (ans[:60], label, k))
                    continue
                exp_lines = [unhx(x) for x in ans.split()[1:]]
                hand = ("\n".join(hdr) + "\n").encode() + b"".join(l + b"\n" for l in exp_lines)
                flags = ["-U"] if cs else []
                rc1, m1, p1, i1 = asl(bdir, wd, "c%d" % k, src, flags=flags, want_i=True)
                rc2, m2, p2, _ = asl(bdir, wd, "h%d" % k, hand, flags=flags)
                evaluations += 1
                dist["programs"] += 1
                dist["programs_cs"] += int(cs)
                dist["program_lines_expanded"] += len(exp_lines)
                for kk, v in st.items():
                    if isinstance(v, int):
                        agg[kk] = max(agg.get(kk, 0), v) if kk == "maxdepth" else agg.get(kk, 0) + v
                if "on_expansion" in st:
                    st["on_expansion"](exp_lines)
                distinct.add(enc)
                info = dict(tag="%s %d" % (label, k), source=src, hand_expansion=hand.decode("latin-1"), asflags=" ".join(flags))
                if "what" in st:
                    info["class"] = st["what"]
                c1 = canon_p(p1) if p1 is not None else None
                c2 = canon_p(p2) if p2 is not None else None
                if rc2 != 0 or c2 is None:
                    info["why"] = "the hand expansion does not assemble (generator/spec problem?): rc=%s %s" % (rc2, m2[-400:])
                    if rc1 != 0:
                        info["why"] += " | construct program: rc=%s %s" % (rc1, m1[-400:])
                    spec_fail.append(info)
                    continue
                if rc1 != 0 or c1 is None:
                    info["why"] = "construct program rejected although its hand expansion assembles: rc=%s %s" % (rc1, m1[-400:])
                    spec_fail.append(info)
                    continue
                if c1 != c2:
                    info["why"] = "code file of the construct program differs from the code file of its hand expansion: %r vs %r" % (
                        first_cell_diff(c1, c2))
                    if st.get("ctrl_in_string") and i1 is not None:
                        # exactly the class of the known finding: the lines asl delivers are the hand expansion's lines except that control
                        # characters (inside the string / character constants - the generator puts them nowhere else) have become blanks
                        a = [squash_ctrl(x) for x in norm_i(i1.split(b"\n"))]
                        b = [squash_ctrl(x) for x in norm_i([strip_sfx(x) for x in exp_lines])]
                        if a == b:
                            info["sig"] = SIG_TAB
                            dist["ctrl_string_finding_programs"] = dist.get("ctrl_string_finding_programs", 0) + 1
                    spec_fail.append(info)
                    continue
                if st.get("ctrl_in_string") and not kill_in_strings:
                    dist["ctrl_string_text_compare_skipped"] = dist.get("ctrl_string_text_compare_skipped", 0) + 1
                    continue
                if i1 is not None:
                    a = norm_i(i1.split(b"\n"))
                    b = norm_i([strip_sfx(x) for x in exp_lines])
                    dist["i_compared"] += 1
                    if a != b:
                        info["why"] = "-P macro processor output differs from the expansion text (code files agree)"
                        d = [j for j in range(min(len(a), len(b))) if a[j] != b[j]][:1]
                        info["first_diff"] = repr((a[d[0]][-80:], b[d[0]][-80:])) if d else "lengths %d/%d" % (len(a), len(b))
                        corr_fail.append(info)
                        continue
                    # processor layer: the tag machine model on the same program
                    ta = c11_tags.parse_answer(tag_answers[k]) if k < len(tag_answers) else None
                    if ta is None:
                        proof_problems.append("driver c11tag: %s on %s %d" % ((tag_answers[k] if k < len(tag_answers) else "no answer")[:60], label, k))
                        continue
                    m = norm_i(ta["lines"])
                    dist["tag_tree_programs"] += 1
                    dist["tag_tree_model_eq_spec"] += int(m == b)
                    if ta["crashed"] or ta["stack"] != 0 or ta["coll"] or m != a:
                        info["why"] = "tag machine model (Model/Tags.lean) and asl -P output differ (crashed=%s stack=%s coll=%s)" % (
                            ta["crashed"], ta["stack"], ta["coll"])
                        d = [j for j in range(min(len(a), len(m))) if a[j] != m[j]][:1]
                        info["first_diff"] = repr((a[d[0]][-80:], m[d[0]][-80:])) if d else "lengths %d/%d" % (len(a), len(m))
                        corr_fail.append(info)
                        continue
                if len(samples) < 6 and st.get("maxdepth", 0) >= 2 and len(exp_lines) > 6:
                    samples.append(dict(kind="program", source=src[:900], expansion_lines=len(exp_lines), code_bytes=sum(len(x[4]) for x in c1)))

        rng = common.rng_for(args.seed, "C11/prog")
        progs = []
        for k in range(nprog):
            cs = (k % 5 == 4)
            src, enc, hdr, st = gen_program(rng, cs)
            progs.append((src, enc, hdr, st, cs))
        tree_stream(progs, "prog")
        dist["constructs"] = agg

        # ---------------- long delivered lines (buffer sizes of the line buffer and the lines seen before must not matter)
        t0 = time.time()
        dist["long"] = long_stream(args, tree_stream, asl, bdir, wd, drv_ok, qdict, spec_fail, corr_fail, proof_problems, samples, distinct)
        dist["long"]["wall_s"] = round(time.time() - t0, 1)
        evaluations += dist["long"]["tok_evaluations"]

        # ---------------- INCLUDE / BINCLUDE / WHILE (hand expansion by the harness)
        rng = common.rng_for(args.seed, "C11/misc")
        for k in range({"quick": 12, "thorough": 150}[args.tier]):
            for kind, a, b in misc_programs(rng, wd, k):
                rc1, m1, p1, _ = asl(bdir, wd, "ma", a)
                rc2, m2, p2, _ = asl(bdir, wd, "mb", b)
                evaluations += 1
                dist["misc"][kind] += 1
                c1 = canon_p(p1) if p1 else None
                c2 = canon_p(p2) if p2 else None
                if rc1 != 0 or rc2 != 0 or c1 is None or c1 != c2:
                    spec_fail.append(dict(tag="misc:" + kind, source=a, hand_expansion=b,
                                          why="%s: code files differ or rejected: rc=%s/%s %s %s" % (kind, rc1, rc2, m1[-200:], m2[-200:])))

        # ---------------- processor layer: flat stream (SHIFT, EXITM, parameters in headers), SHIFT vs the manual, quirk programs
        ev2, distinct2 = c11_tags.run_streams(args, asl, bdir, wd, drv_ok, qflags, dist, spec_fail, corr_fail, proof_problems, samples)
        evaluations += ev2
        distinct |= distinct2

        # ---------------- bookkeeping of expansions: recursion counter, local-symbol handles (many calls, control parameters, chains, recursion)
        t0 = time.time()
        ev3, distinct3 = c11_nest.run_stream(args, asl, canon_p, bdir, wd, drv_ok, dist, spec_fail, corr_fail, proof_problems, samples)
        evaluations += ev3
        distinct |= distinct3
        if "nest" in dist:
            dist["nest"]["wall_s"] = round(time.time() - t0, 1)

        # ---------------- context of an expansion: the file an INCLUDE/BINCLUDE names, the label in front of a construct (c11_ctx.py)
        ev4, distinct4 = c11_ctx.run_stream(args, canon_p, bdir, wd, drv_ok, dist, spec_fail, corr_fail, proof_problems, samples)
        evaluations += ev4
        distinct |= distinct4

        # ---------------- labels of enclosing expansions seen from bodies nested 1..5 levels further in (c11_labels.py)
        t0 = time.time()
        ev5, distinct5 = c11_labels.run_stream(args, asl, canon_p, bdir, wd, drv_ok, dist, spec_fail, corr_fail, proof_problems, samples)
        evaluations += ev5
        distinct |= distinct5
        if "labels" in dist:
            dist["labels"]["wall_s"] = round(time.time() - t0, 1)

        # ---------------- argument collection: the case folding of argument texts never reaches into quoted constants (c11_args.py)
        t0 = time.time()
        ev6, distinct6 = c11_args.run_stream(args, sys.modules[__name__], bdir, wd, drv_ok, dist, spec_fail, corr_fail, proof_problems, samples,
                                             tree_stream)
        evaluations += ev6
        distinct |= distinct6
        if "args" in dist:
            dist["args"]["wall_s"] = round(time.time() - t0, 1)

    res.coverage = common.proof_coverage(audit, "C11", [
        "translate/tables.py MacroConsts (ArgCntMax, implicit parameter names via compiled dumper over asmdef.h)",
        "correspondence: real asl -P output vs Model/MacroCall.lean on generated macro bodies (differential test)",
        "construct layer: SPEC expand is executable and run against the real asl; the tag machine (Model/Tags.lean) is proved to refine it "
        "(Props/C11_Tags.lean: C11_tags_refine, hypotheses WFB) and is run against the real asl -P output (driver c11tag)",
        "quirk flags of the tag machine model (IRPC \"\" once, EXITM-in-IRP crash, ARGCOUNT = written arguments, SHIFT leaves the last token, ALLARGS after SHIFT skips empty arguments) are probed on the real binary each run",
        "bookkeeping of expansions (Model/MacroNest.lean: UseCounter vs NESTMAX, local-symbol handles, pass loop; Props/C11_Nest.lean): the model is run "
        "against the real asl (driver c11nest), the quirk flag emptyPops (the Restorer pops a handle the tag never pushed) is probed on the real binary; "
        "SPEC Spec/MacroNest.lean is executable and judges the real output; the refinement model = spec is proved for all programs "
        "(C11_nest_pass_refines / C11_nest_run_refines / C11_nest_refines: every pass of the machine is the SPEC's structural expansion, for every "
        "fuel >= the computable cost; hypotheses: the Restorer pops only what the tag pushed (the probed quirk value of the repaired tree), at most "
        "NESTMAX+1 open expansions, no label twice in one scope, Stable - without Stable model and real assembler differ from the SPEC: known "
        "finding forward-reference-to-local-label-takes-outer-label; C11_nest_refuses_partial: more than NESTMAX+1 open expansions in an expansion "
        "that ends => a call is refused; C11_nest_pass_ends_iff / C11_nest_unbounded_recursion: enough fuel exists iff the expansion is finite; "
        "also: counter = open expansions in every reachable state, refusal iff above NESTMAX, handle stack balanced without the quirk)",
        "context of an expansion (Model/TagsCtx.lean: CurrFileName saved/restored by the INCLUDE tags, FSearch by path components, Produce_Code's label "
        "memory with InsertPadding/LabelModify; Props/C11_Ctx.lean: C11_ctx_refines - the tag machine delivers the SPEC's hand expansion for every program "
        "and file system for which it exists -, C11_ctx_include_restores, C11_ctx_curr_inv, C11_ctx_label_construct_independent, C11_ctx_transparent): the "
        "model's code image is compared with the real code file (driver c11ctx), the SPEC's hand expansion is assembled by the real asl; the quirk flag "
        "inclResetsLabel is probed on the real binary",
        "labels of enclosing expansions (Model/MacroLabels.lean: handle stack, FindLocNode over the whole chain, local before global, two passes; "
        "Props/C11_Labels.lean: C11_labels_found_at_any_depth, C11_labels_local_before_global, C11_labels_nested_sees_outer, C11_labels_stack_restored; "
        "C11_labels_refines: for EVERY program tree with NoDoubleDef and NoEarlyBind the model's bytes are the bytes of the SPEC's hand expansion, "
        "C11_labels_refines_extra_pass / _second_pass: without NoEarlyBind whenever a second pass is made; both hypotheses decidable, evaluated by the "
        "driver on every generated program and shown necessary: C11_labels_refines_hypothesis_needed = the known finding "
        "forward-ref-in-macro-body-binds-outer-symbol-when-no-second-pass): "
        "the model's code image is compared with the real code (driver c11lab); SPEC Spec/MacroLabels.lean (hand expansion with renamed labels) is "
        "executable and judges the real code, its expansion is also assembled by the real asl; a program for which the theorems' hypotheses hold and "
        "model and spec differ is reported as a proof problem",
        "argument collection (Model/ArgFold.lean: asmsub.c UpString with hypquot / LastBk and its call sites in ExpandMacro, ProcessIRPArgs, "
        "ProcessIRPNArgs; Props/C11_Args.lean: C11_args_fold_refines - for every tame argument text the stored text is the SPEC's (upper case outside "
        "quoted constants only) -, C11_args_quoted_untouched - no character of a constant is ever changed -, C11_args_outside_upper, C11_args_length, "
        "C11_args_case_sensitive, C11_args_prog_refines / C11_args_expansion for every construct tree; `tame` (no backslash outside a constant, no "
        "escaped backslash inside one) is decidable, evaluated by the driver on every generated text and needed: C11_finding_escaped_backslash = known "
        "finding escaped-backslash-before-closing-quote-ends-case-protection-late): the text the real asl inserts is compared with the model and judged "
        "by the SPEC (driver c11arg), the SPEC's hand expansion is assembled by the real asl, the -P output is compared case exact with the model's expansion",
        "the line buffer (as_dynstr, ReplaceToken's growth rule) is not modelled: the token layer model works on unbounded lists, which is what the "
        "real code does on the unchanged tree for every length the long-line stream generates"])
    res.coverage.update(
        evaluations=evaluations, distinct_nontrivial=len(distinct),
        rule="token stream: one delivered body line per evaluation (0..40 parameters, names that are substrings of identifiers, \\name\\ forms, arguments that are "
             "other parameters' names, empty/excess/missing arguments, ALLARGS/ARGCOUNT, both case modes), distinct by (parameter count, body line, arguments); "
             "construct stream: one program per evaluation (MACRO positional/keyword/default/excess, REPT 0..40, IRP, IRPN 1..4 ragged, IRPC, EXITM, nesting <= 3, "
             "private labels vs GLOBALSYMBOLS; in 6 % of the programs string / character constants with a TAB or another control character 01h..1Fh "
             "in the bodies), distinct by construct tree - every such program also through the tag machine model; "
             "tags flat stream: one generated source per evaluation (SHIFT, EXITM, parameters in nested headers, macro calls in bodies, "
             "macros defined in a repetition), distinct by source; SHIFT cases vs the manual's rule; misc: INCLUDE/BINCLUDE/WHILE programs; "
             "long stream: one construct program per evaluation whose delivered line has a chosen length (sweeps 1016..1032 with nothing long seen before, "
             "1144..1160 after a physical line of 1023..1149 characters, random lengths/histories, stored lines that grow by one-letter names, ascending "
             "sweeps in one run; MACRO positional/keyword/default/ALLARGS, IRP, IRPN, REPT/IRP/IRPC/MACRO inside a macro), distinct by construct tree; "
             "long comment-line bodies through the token model; nest stream: one program per evaluation (1..620 calls of macros with every control "
             "parameter, one and two passes, call chains up to depth 300, bounded recursion around NESTMAX, unbounded recursion, empty bodies), distinct by source; "
             "ctx stream: one multi-file program per evaluation (2..6 directories with same-named text and binary files, -i list, main file in or below the "
             "working directory; INCLUDE/BINCLUDE with bare / relative / .. / absolute names at file level and inside MACRO/REPT/IRP/IRPN/IRPC/WHILE bodies, "
             "nested, in included files; labels on the opening line of every construct kind or alone on the line before, at odd and even addresses, 68000 / "
             "MSP430 / TMS9900 / 6809 / H8/300 / Z80 with PADDING default, ON, OFF, first body statement word, instruction or byte, label referenced "
             "afterwards), distinct by the program's encoding; "
             "construct stream, label-heavy programs (12 %): nests up to 4 bodies deep whose lines refer to labels defined 1, 2, 3 bodies further out, global "
             "symbols with the names of private labels in front of / behind the constructs; labels stream: one program per evaluation (one-byte label / "
             "reference statements in MACRO/REPT/IRP/IRPN/IRPC/WHILE bodies nested 1..5 deep, 0..3 iterations, GLOBALSYMBOLS, macros called twice, references "
             "to labels 0..4 bodies further out in front of and behind the reference, names defined again in between, global namesakes, names only a sibling "
             "body defines, undefined names), distinct by the program's encoding; "
             "args stream: one argument text per evaluation (character / string constants with lower-case letters, escapes, the other quotation mark, "
             "\\{..}, text in front of / between / behind constants, backslashes outside constants, constants ending in an escaped backslash; collected "
             "by MACRO, IRP, IRPN with groups of 1 and 2; both case modes), distinct by (construct, mode, text), and one construct program per evaluation "
             "(macro calls positional / keyword / default / excess / ALLARGS / ARGCOUNT, IRP, IRPN groups 1..4 with ragged tails, IRPC, parameters passed "
             "on to a nested IRP / IRPN / IRPC / macro call, constructs inside REPT, 25 % with -U), distinct by the program's encoding",
        samples=samples, distribution=dist)
    res.assumptions = ["the hand expansion of private labels renames them with a suffix per expansion instance (construct id, iteration)",
                       "in case-insensitive mode the harness upper-cases arguments outside quotes before handing them to the token / tag machine models (UpString "
                       "itself is modelled and proved in Model/ArgFold.lean / Props/C11_Args.lean and run against the real asl by the args stream)",
                       "args stream: ALLARGS is put together from the arguments as written, before they are folded (the model folds first); programs that use "
                       "ALLARGS are compared with the -P output case-blind outside constants; letters outside ASCII are not generated (UpCaseTable depends on "
                       "the code page)",
                       "INCLUDE/BINCLUDE/WHILE hand expansions are produced by the harness, not by the Lean spec",
                       "tag machine model: a source line is already split into statement kind and text fields; the token layer is applied per field "
                       "(a substitution that changes the statement kind or the argument count of a line is outside the model); conditional assembly, "
                       "local-symbol handles, WHILE and INCLUDE nesting are outside the model",
                       "nest stream: programs are reduced to lines that emit a byte, define/use a label, call a macro with one numeric argument, or repeat a body "
                       "(Spec/MacroNest.lean BLine); the rendering to source text (control parameters, INTLABEL/__LABEL__, IF arg>0 for bounded recursion, "
                       "REPT/IRP/IRPC headers) is done by the harness; the spec looks labels up along the chain of open expansions (the manual does not say "
                       "whether a called macro sees its caller's private labels; the generated programs never depend on it)",
                       "ctx stream: a statement is reduced to its bytes and its alignment wish, a body to the number of its deliveries (Spec/MacroCtx.lean Item); the "
                       "rendering to source text per target (data pseudo-ops, IRP/IRPN/IRPC argument lists, WHILE counters, macro definitions in the main file or in an "
                       "included definitions file) and the renaming of private labels per instance in the hand expansion are done by the harness; the order in which "
                       "several -i directories are searched is taken as written (the manual does not say); a file named with a path specification that only the -i list "
                       "or the working directory would find has no hand expansion by the manual's rule - only model and real are compared there",
                       "labels stream: a statement is reduced to one byte that defines a label or lays down the value of a name (Spec/MacroLabels.lean Item); the "
                       "rendering to source text (construct headers, WHILE counters, macro definitions in front) is done by the harness; a reference inside a macro "
                       "body to a label of the body the macro was called from is not generated (the manual leaves it open)",
                       "nest stream: an error message whose position prefix fills asl's 1024-byte buffer loses its text; such a line is counted as the refusal "
                       "(the only error that happens that deep in the generated programs)"]
    return common.conclude(res, proof_problems, spec_fail, corr_fail, evaluations)


def replay(args):
    d = json.load(open(args.replay))
    print(json.dumps({k: (v if len(str(v)) < 3000 else str(v)[:3000] + "...") for k, v in d.items()}, indent=1))
    if "files" in d and "source" in d:
        bdir = common.repo_build("hooks")
        with common.Workdir("c11r") as wd:
            c11_ctx.replay(d, bdir, wd, canon_p)
        return 0
    if "source" in d:
        bdir = common.repo_build("hooks")
        with common.Workdir("c11r") as wd:
            src = d["source"]
            if "cpu" not in src:
                src = " cpu z80\n org 0\n" + src
            flags = d.get("asflags", "").split()
            rc, msg, p, i = asl(bdir, wd, "r", src, flags=flags, want_i=True)
            print("asl rc =", rc, msg[-500:])
            print("-P output:", i)
            print("code:", canon_p(p) if p else None)
            if "hand_expansion" in d:
                rc, msg, p, _ = asl(bdir, wd, "rh", d["hand_expansion"], flags=flags)
                print("hand expansion: rc =", rc, msg[-300:], canon_p(p) if p else None)
    return 0
