"""C09, two further streams (called from c09.run()):

(D) the DATA statement of the word-organised targets (fourpseudo.c DecodeDATA, reached from the TMS3201x,
    TMS3202x/5x (tipseudo.c DecodeDATA_TI), MIL-STD-1750, PIC 17C4x/16C8x, 4004 and MELPS-4500 code generators):
    a slot = optional CHARSET statements, 1..2 DATA statements of 1..6 arguments (double-quoted strings of length
    0..7, integers at and beyond the limits of the word width, single-quoted character constants, now and then a
    float) and a sentinel DATA statement.  The code file is read back per slot as (byte offset, byte) cells;
    driver mode `c09d` compares them with Model/DataWord.lean (B) and, regrouped into address units, with
    Spec/DataWord.lean (C).  Word width / packing rule per target come from the manual's DATA paragraph (table DT),
    granularity and TurnWords from Generated/ListParams.lean.

(S) data statements behind CPU switches inside one assembler run: a slot = 2..5 segments `CPU t / ORG a /
    1..2 statements (BYT/FCB, ADR/FDB, DB/DW on the 68xx generators, FCC, DFS/RMB; BYTE/WORD/BLOCK on ST6) /
    sentinel`, the targets drawn from both byte-order groups of the families that share motpseudo.c.  Some
    batches are split into two source files that one asl invocation assembles one after the other.  Driver mode
    `c09s` threads the static flag `M16Turn` through all earlier segments of the run (Model/DataSwitch.lean) and
    judges every segment by the byte order of ITS target (Spec/DataSwitch.lean).
"""
import os
import re
from collections import Counter

from .. import common
from . import c09_ext

SEG_CODE = 1
SEG_DATA = 2

# ------------------------------------------------------------------ (D) DATA

# bits / pack: the manual's DATA paragraph ("characters occupy one word" = 1, "two characters fit into one word
# (LSB first)" = 2, "characters occupy two memory locations" = n); typ: the IntType the code generator hands to
# DecodeDATA for that segment (transcribed from code3201x.c, tipseudo.c, code1750.c, code17c4x.c, code16c8x.c,
# code4004.c, code4500.c); sizes in address units
DT = [
    dict(name="32010", cpu="32010", key="32010", seg=SEG_CODE, typ="Int16", bits=16, pack="2", gran=2, syn="intel", pre=[],
         base=0x40, slot=0x40, nslot=40, weight=20),
    dict(name="32010-data", cpu="32010", key="32010", seg=SEG_DATA, typ="Int16", bits=16, pack="2", gran=2, syn="intel",
         pre=["\tsegment data"], base=0, slot=0x30, nslot=3, weight=2),
    dict(name="320C25", cpu="320C25", key="320C25", seg=SEG_CODE, typ="Int16", bits=16, pack="2", gran=2, syn="intel", pre=[],
         base=0x40, slot=0x40, nslot=40, weight=18),
    dict(name="320C25-data", cpu="320C25", key="320C25", seg=SEG_DATA, typ="Int16", bits=16, pack="2", gran=2, syn="intel",
         pre=["\tsegment data"], base=0x40, slot=0x40, nslot=40, weight=5),
    dict(name="320C50", cpu="320C50", key="320C50", seg=SEG_CODE, typ="Int16", bits=16, pack="2", gran=2, syn="intel", pre=[],
         base=0x40, slot=0x40, nslot=40, weight=18),
    dict(name="1750", cpu="1750", key="1750", seg=SEG_CODE, typ="UInt16", bits=16, pack="2", gran=2, syn="intel", pre=[],
         base=0x40, slot=0x40, nslot=40, weight=16),
    dict(name="17C42", cpu="17C42", key="17C42", seg=SEG_CODE, typ="Int16", bits=16, pack="2", gran=2, syn="moto", pre=[],
         base=0x40, slot=0x40, nslot=40, weight=8),
    dict(name="17C42-data", cpu="17C42", key="17C42", seg=SEG_DATA, typ="Int8", bits=8, pack="1", gran=1, syn="moto",
         pre=["\tsegment data"], base=0x10, slot=0x30, nslot=4, weight=2),
    dict(name="16C84", cpu="16C84", key="16C84", seg=SEG_CODE, typ="Int14", bits=14, pack="1", gran=2, syn="moto", pre=[],
         base=0x10, slot=0x40, nslot=14, weight=4),
    dict(name="4004", cpu="4004", key="4004", seg=SEG_CODE, typ="Int8", bits=8, pack="1", gran=1, syn="intel", pre=[],
         base=0x40, slot=0x40, nslot=40, weight=3),
    dict(name="4004-data", cpu="4004", key="4004", seg=SEG_DATA, typ="Int4", bits=4, pack="n", gran=1, syn="intel",
         pre=["\tsegment data"], base=0, slot=0x40, nslot=4, weight=2),
    dict(name="MELPS4500", cpu="MELPS4500", key="MELPS4500", seg=SEG_CODE, typ="Int10", bits=10, pack="1", gran=2, syn="moto", pre=[],
         base=0x40, slot=0x40, nslot=20, weight=2),
]
UNSIGNED_TYPES = ("UInt16",)

ALPHA = c09_ext.ALPHA
LETTERS = c09_ext.LETTERS


def ser_warg(a):
    t = a[0]
    if t == "i":
        return "i%d" % a[1]
    if t in ("s", "c"):
        return t + (a[1].hex() if a[1] else "-")
    return "f%016x" % a[1]


def src_warg(c09, rng, a, syn):
    t = a[0]
    if t == "i":
        return c09_ext.src_int(rng, a[1], syn)
    if t == "s":
        return '"%s"' % a[1].decode("ascii")
    if t == "c":
        return "'%s'" % a[1].decode("ascii")
    return c09.src_float(a[1])


def d_string(rng, stats):
    n = rng.choice([0, 1, 1, 2, 3, 3, 4, 5, 5, 6, 7])
    stats["d:str_len_%s" % ("odd" if n % 2 else "even")] += 1
    pool = LETTERS[:12] if rng.random() < 0.6 else ALPHA
    return ("s", bytes(rng.choice(pool) for _ in range(n)))


def d_chr(rng, bits, stats):
    """single-quoted constant; lengths between floor and ceil of bits/8 are left out (the manual's "operand size" of a
    word that is not a whole number of bytes is not defined), so is the empty constant"""
    lo, hi = bits // 8, (bits + 7) // 8
    lens = [n for n in (1, 1, 2, 2, 3, lo, lo + 1, hi + 1, 4) if n >= 1 and not (lo < n <= hi)]
    n = rng.choice(lens)
    stats["d:chr_%s" % ("int" if n <= lo else "string")] += 1
    return ("c", bytes(rng.choice(LETTERS[:12]) for _ in range(n)))


def d_arg(c09, rng, tgt, stats, bad):
    r = rng.random()
    if r < 0.46:
        return d_string(rng, stats)
    if r < 0.62:
        return d_chr(rng, tgt["bits"], stats)
    if r < 0.635:
        stats["d:float"] += 1
        return ("f", rng.choice([c09.dbits(1.5), c09.dbits(0.0), c09.dbits(-2.0), c09.dbits(1e10)]))
    isbad = bad and rng.random() < 0.5
    if isbad:
        stats["d:int_out_of_range"] += 1
    stats["d:int"] += 1
    v = c09.int_pool(rng, tgt["bits"], isbad)
    if v < 0 and not isbad and tgt["typ"] in UNSIGNED_TYPES and rng.random() < 0.85:
        v = -v - 1          # a target that refuses negative values (recorded finding): keep most of its slots assembling
    return ("i", v)


def d_boundary(rng, tgt):
    """a value at the limits of the word width (negative ones only where the target's type is signed)"""
    w = tgt["bits"]
    lo, hi = -(1 << (w - 1)), (1 << w) - 1
    pool = [hi, hi - 1, (1 << (w - 1)) - 1, 1 << (w - 1), 0]
    if tgt["typ"] not in UNSIGNED_TYPES:
        pool += [lo, lo, -1, -1, lo + 1, -2]
    return rng.choice(pool)


def d_stmt(c09, rng, tgt, stats):
    n = rng.choice([1, 2, 2, 3, 3, 4, 5, 6])
    bad = rng.random() < 0.08
    args = [d_arg(c09, rng, tgt, stats, bad) for _ in range(n)]
    if not bad and rng.random() < 0.2:
        # lane sweep: a boundary value at a chosen argument position (behind / in front of strings of odd and even length,
        # first / last word of the statement), the neighbours stay random
        p = rng.randrange(n)
        args[p] = ("i", d_boundary(rng, tgt))
        stats["d:sweep_%s_at_%s" % ("neg" if args[p][1] < 0 else "nonneg", "first" if p == 0 else "last" if p == n - 1 else "inner")] += 1
    strs = [a for a in args if a[0] in ("s", "c")]
    if len(strs) >= 2:
        stats["d:stmt_several_strings"] += 1
    stats["d:args_%d" % n] += 1
    return args


def d_units(tgt, args):
    """upper bound of the address units a statement occupies"""
    per = {"1": 1, "2": 1, "n": 2}[tgt["pack"]]
    return sum((max(1, len(a[1])) * per) if a[0] in ("s", "c") else 1 for a in args)


def d_sentinel(tgt):
    return [("i", 5 if tgt["bits"] < 8 else 0xa5)]


def d_case(c09, rng, tgt, stats, tries=0):
    ops = c09_ext.gen_charset(rng, stats) if rng.random() < 0.2 else []
    stmts = [d_stmt(c09, rng, tgt, stats)]
    if rng.random() < 0.3:
        stmts.append(d_stmt(c09, rng, tgt, stats))
    stmts.append(d_sentinel(tgt))
    pc0 = rng.choice([0, 0, 1, 2])
    if pc0 + sum(d_units(tgt, s) for s in stmts) > tgt["slot"] - 2:
        if tries > 30:
            stmts = [[("s", b"abc"), ("i", 1), ("s", b"de")], d_sentinel(tgt)]
        else:
            return d_case(c09, rng, tgt, stats, tries + 1)
    frame = "codepage" if (ops and rng.random() < 0.4) else "charset"
    return dict(tgt=tgt, pc0=pc0, stmts=stmts, csops=ops, frame=frame)


def d_hand_cases():
    T = {t["name"]: t for t in DT}
    out = []

    def add(tn, stmts, csops=(), pc0=0):
        out.append(dict(tgt=T[tn], pc0=pc0, stmts=stmts + [d_sentinel(T[tn])], csops=list(csops), frame="charset", hand=True))
    S = lambda x: ("s", x)
    for tn in ("32010", "320C25", "320C50", "17C42"):
        add(tn, [[S(b"abc"), ("i", 1), S(b"de")]])
        add(tn, [[S(b"xyz"), S(b"uvw"), ("i", 4660), S(b"q"), S(b"rs")]])
        add(tn, [[S(b"xyz")], [S(b"uvw"), ("i", 4660)]])
        add(tn, [[("c", b"a"), ("c", b"ab"), ("c", b"abc"), S(b"a"), S(b"")]])
        add(tn, [[("i", -32768), ("i", 65535), ("i", -1)]])
        add(tn, [[("i", 65536)]])
        add(tn, [[("i", -32769)]])
        add(tn, [[S(b"ab"), ("f", 0x3ff8000000000000)]])
    add("1750", [[S(b"abc"), ("i", 1), S(b"de"), ("i", 65535)]])
    add("1750", [[("i", 65536)]])
    add("320C25", [[S(b"abc"), S(b"abc")]], csops=[("range", 97, 121, 98)])
    add("17C42-data", [[S(b"abc"), ("i", -128), ("i", 255), ("c", b"a")]])
    add("16C84", [[S(b"abc"), ("i", 16383), ("i", -8192), ("c", b"a")]])
    add("4004", [[S(b"abc"), ("i", -1), ("c", b"a")]])
    add("4004-data", [[S(b"abc"), ("i", 15), ("i", -8)]])
    add("MELPS4500", [[S(b"abc"), ("i", 1023), ("i", -512)]])
    return out


def d_build_source(c09, rng, tgt, cases, skip=()):
    lines = ["\tcpu %s" % tgt["cpu"]] + list(tgt["pre"])
    line_case = {}
    for idx, c in enumerate(cases):
        if idx in skip:
            continue
        if "srcs" not in c:
            c["srcs"] = ["\tdata %s" % ",".join(src_warg(c09, rng, a, tgt["syn"]) for a in st) for st in c["stmts"]]
            c["cs_srcs"] = [c09_ext.src_csop(o) for o in c["csops"]]
            c["cs_end"] = []
            if c["csops"]:
                if c["frame"] == "codepage":
                    c["cs_srcs"] = ["\tcodepage cpd%d,standard" % rng.randrange(1 << 30)] + c["cs_srcs"]
                    c["cs_end"] = ["\tcodepage standard"]
                else:
                    c["cs_end"] = ["\tcharset"]
        for l in c["cs_srcs"]:
            lines.append(l)
            line_case[len(lines)] = ("frame", idx)
        lines.append("\torg %d" % (tgt["base"] + idx * tgt["slot"] + c["pc0"]))
        for l in c["srcs"]:
            lines.append(l)
            line_case[len(lines)] = ("stmt", idx)
        for l in c["cs_end"]:
            lines.append(l)
            line_case[len(lines)] = ("frame", idx)
    return "\n".join(lines) + "\n", line_case


def d_case_source(tgt, c, idx):
    return "\tcpu %s\n%s%s\torg %d\n%s\n" % (tgt["cpu"], "".join(p + "\n" for p in tgt["pre"]), "".join(l + "\n" for l in c.get("cs_srcs", [])),
                                           tgt["base"] + idx * tgt["slot"] + c["pc0"], "\n".join(c.get("srcs", [])))


def d_run_batch(c09, bdir, wd, rng, tgt, cases, tag):
    problems = []
    src, line_case = d_build_source(c09, rng, tgt, cases)
    rc, out, data = c09.assemble(bdir, wd, tag, src)
    bad = set()
    for m in c09.ERR_RE.finditer(out):
        if m.group(2) != b"warning":
            what = line_case.get(int(m.group(1)))
            if what and what[0] == "stmt":
                bad.add(what[1])
            else:
                problems.append("error outside a test statement: line %s of %s: %s" % (m.group(1).decode(), tag, out.decode(errors="replace")[-300:]))
    if rc not in (0, 2) or (rc == 2 and not bad):
        problems.append("asl rc=%s on batch %s: %s" % (rc, tag, out.decode(errors="replace")[-600:]))
    if bad:
        src2, _ = d_build_source(c09, rng, tgt, cases, skip=bad)
        rc2, out2, data = c09.assemble(bdir, wd, tag + "b", src2)
        if rc2 != 0 or data is None:
            problems.append("second pass of batch %s still fails rc=%s: %s" % (tag, rc2, out2.decode(errors="replace")[-600:]))
            data = None
    for idx, c in enumerate(cases):
        c["real"] = "ERR" if idx in bad else None
        c["source"] = d_case_source(tgt, c, idx)
    if data is not None:
        recs = c09_ext.parse_records(data)
        if recs is None:
            problems.append("code file of batch %s does not parse" % tag)
            recs = []
        per = {}
        for seg, gran, start, bs in recs:
            if not bs:
                continue
            if seg != tgt["seg"] or gran != tgt["gran"]:
                problems.append("record in segment %d / granularity %d (expected %d / %d) in batch %s" % (seg, gran, tgt["seg"], tgt["gran"], tag))
                continue
            idx = (start - tgt["base"]) // tgt["slot"]
            per.setdefault(idx, []).append(((start - (tgt["base"] + idx * tgt["slot"])) * gran, bs))
        for idx, c in enumerate(cases):
            if c["real"] == "ERR":
                continue
            merged = []
            for off, bs in sorted(per.get(idx, [])):
                if merged and merged[-1][0] + len(merged[-1][1]) == off:
                    merged[-1] = (merged[-1][0], merged[-1][1] + bs)
                else:
                    merged.append((off, bs))
            c["real"] = merged
    else:
        for c in cases:
            if c["real"] is None:
                c["real"] = "LOST"
    return problems


def d_request(c):
    t = c["tgt"]
    toks = [t["key"], str(t["seg"]), t["typ"], str(t["bits"]), t["pack"], str(c["pc0"]), str(len(c["csops"]))]
    for o in c["csops"]:
        toks += c09_ext.ser_csop(o)
    toks.append(str(len(c["stmts"])))
    for st in c["stmts"]:
        toks.append(str(len(st)))
        toks += [ser_warg(a) for a in st]
    if c["real"] == "ERR":
        toks.append("ERR")
    else:
        toks.append("OK")
        for off, bs in c["real"]:
            toks.append("%d:%s" % (off, bs.hex()))
    return " ".join(toks)


def d_classify(c):
    """signature of the input class of a spec failure"""
    t = c["tgt"]
    if t["typ"] in UNSIGNED_TYPES and c["real"] == "ERR":
        w = t["bits"]
        neg = [a for st in c["stmts"] for a in st if a[0] == "i" and -(1 << (w - 1)) <= a[1] < 0]
        if neg:
            return "data-1750-negative-integer-refused"
    return None


# ------------------------------------------------------------------ (S) CPU switches

# turn: the argument of DecodeMotoPseudo(Turn) in the generator's MakeCode (code65.c, code7700.c: False; code68.c, code6804.c,
# code6805.c, code6809.c, code6812.c, code6816.c, code68rs08.c, codes12z.c, codest7.c, codexgate.c: True); via = 0: the generator
# never calls DecodeMotoPseudo (codest6.c); sbig: byte order of the target's 16-bit constants according to the documentation
# (65xx / MELPS: low byte first, Motorola 68xx and descendants: high byte first; ST6: the manual is silent, low byte first is
# what the target lays when it is the only one of the run); dbw: the generator's own table has DB/DW = DecodeMotoBYT/ADR
M8 = dict(byt=["byt", "fcb", "byte"], adr=["adr", "fdb"], fcc=["fcc"], dfs=["dfs", "rmb"])
M8D = dict(byt=["byt", "fcb", "db"], adr=["adr", "fdb", "dw", "dw"], fcc=["fcc"], dfs=["dfs", "rmb"])
ST6OPS = dict(byt=["byte"], adr=["word", "word"], fcc=[], dfs=["block"])
SW = [
    dict(cpu="6502", key="6502", turn=0, via=1, sbig=0, syn="moto", ops=M8),
    dict(cpu="65c02", key="65C02", turn=0, via=1, sbig=0, syn="moto", ops=M8),
    dict(cpu="melps740", key="MELPS740", turn=0, via=1, sbig=0, syn="moto", ops=M8),
    dict(cpu="huc6280", key="HUC6280", turn=0, via=1, sbig=0, syn="moto", ops=M8),
    dict(cpu="65816", key="65816", turn=0, via=1, sbig=0, syn="moto", ops=M8),
    dict(cpu="melps7700", key="MELPS7700", turn=0, via=1, sbig=0, syn="moto", ops=M8),
    dict(cpu="6800", key="6800", turn=1, via=1, sbig=1, syn="moto", ops=M8D),
    dict(cpu="6811", key="6811", turn=1, via=1, sbig=1, syn="moto", ops=M8D),
    dict(cpu="6805", key="6805", turn=1, via=1, sbig=1, syn="moto", ops=M8D),
    dict(cpu="68hc08", key="68HC08", turn=1, via=1, sbig=1, syn="moto", ops=M8D),
    dict(cpu="6809", key="6809", turn=1, via=1, sbig=1, syn="moto", ops=M8D),
    dict(cpu="68hc12", key="68HC12", turn=1, via=1, sbig=1, syn="moto", ops=M8D),
    dict(cpu="68hc16", key="68HC16", turn=1, via=1, sbig=1, syn="moto", ops=M8D),
    dict(cpu="68rs08", key="68RS08", turn=1, via=1, sbig=1, syn="moto", ops=M8D),
    dict(cpu="s912zvc19f0mkh", key="S912ZVC19F0MKH", turn=1, via=1, sbig=1, syn="moto", ops=M8D),
    dict(cpu="6804", key="6804", turn=1, via=1, sbig=1, syn="moto", ops=M8D),
    dict(cpu="st7", key="ST7", turn=1, via=1, sbig=1, syn="moto", ops=M8),
    dict(cpu="xgate", key="XGATE", turn=1, via=1, sbig=1, syn="moto", ops=M8),
    dict(cpu="st6210", key="ST6210", turn=0, via=0, sbig=0, syn="intel", ops=ST6OPS),
]
SW_LITTLE = [t for t in SW if t["via"] and not t["turn"]]
SW_BIG = [t for t in SW if t["via"] and t["turn"]]
SW_ST6 = [t for t in SW if not t["via"]]
SEGSZ = 0x20
SW_NSEG = 5
SW_SLOT = SEGSZ * SW_NSEG
SW_BASE = 0x100
SW_NSLOT = 22
FILE_RE = re.compile(rb"^> > > ?([^(\s]+)\((\d+)\)[^:\n]*(?::\d+)?: (error|fatal|warning)", re.M)


def s_stmt(c09, rng, tgt, stats):
    """one statement in the AST of driver mode c09 (k = BYT/ADR/FCC/DFS) + the mnemonic"""
    ops = tgt["ops"]
    r = rng.random()
    if r < 0.58 or (r >= 0.8 and not ops["fcc"] and r < 0.92):
        k, w = "ADR", 2
    elif r < 0.8:
        k, w = "BYT", 1
    elif r < 0.92:
        stats["s:fcc"] += 1
        a = ("s", c09.rand_string(rng, 6))
        if rng.random() < 0.3:
            a = ("r", rng.choice([0, 1, 2]), a)
        return dict(k="FCC", op="fcc", args=[a])
    else:
        stats["s:dfs"] += 1
        return dict(k="DFS", op=rng.choice(ops["dfs"]), n=rng.choice([1, 2, 3, 7]))
    st = dict(k=k, op=rng.choice(ops["adr" if k == "ADR" else "byt"]), args=[])
    stats["s:" + st["op"]] += 1
    if rng.random() < 0.05:
        for _ in range(rng.choice([1, 2])):
            st["args"].append(("r", rng.choice([0, 1, 2]), ("q",)) if rng.random() < 0.5 else ("q",))
        return st
    bad = rng.random() < 0.05
    for _ in range(rng.choice([1, 1, 2, 3])):
        r2 = rng.random()
        if r2 < 0.12:
            a = ("s", c09.rand_string(rng, 3))
        else:
            a = ("i", c09.int_pool(rng, 8 * w, bad and rng.random() < 0.5))
        if rng.random() < 0.2:
            a = ("r", rng.choice([0, 1, 2, 3]), a)
        st["args"].append(a)
    return st


def s_sentinel(tgt):
    return dict(k="BYT", op=tgt["ops"]["byt"][0], args=[("i", 0xa5)])


def s_pick_cpus(rng, stats):
    """2..5 targets, both byte-order groups present (in either order); now and then ST6 among them"""
    n = rng.choice([2, 2, 3, 3, 4, 5])
    while True:
        cpus = []
        for _ in range(n):
            r = rng.random()
            cpus.append(rng.choice(SW_ST6) if r < 0.08 else rng.choice(SW_LITTLE) if r < 0.54 else rng.choice(SW_BIG))
        turns = set(t["turn"] for t in cpus if t["via"])
        if len(turns) == 2 or rng.random() < 0.1:
            break
    stats["s:segments_%d" % n] += 1
    stats["s:first_%s" % ("st6" if not cpus[0]["via"] else "big" if cpus[0]["turn"] else "little")] += 1
    return cpus


def s_case(c09, rng, stats):
    segs = []
    for t in s_pick_cpus(rng, stats):
        while True:
            stmts = [s_stmt(c09, rng, t, stats)]
            if rng.random() < 0.3:
                stmts.append(s_stmt(c09, rng, t, stats))
            stmts.append(s_sentinel(t))
            if sum(c09.est_size(s) for s in stmts) <= SEGSZ - 4:
                break
        segs.append(dict(tgt=t, stmts=stmts))
    return dict(segs=segs)


def s_hand_cases():
    T = {t["cpu"]: t for t in SW}
    out = []

    def add(*segs):
        out.append(dict(segs=[dict(tgt=T[c], stmts=sts + [s_sentinel(T[c])]) for c, sts in segs], hand=True))
    A = lambda op, *v: dict(k="ADR", op=op, args=[("i", x) for x in v])
    add(("6502", [A("adr", 0x1234)]), ("6800", [A("adr", 0x1234), A("dw", 0x2345)]), ("6811", [A("fdb", 0x9abc)]),
        ("6809", [dict(k="ADR", op="fdb", args=[("r", 2, ("i", 0x0102))])]), ("melps7700", [A("adr", 0x1234)]))
    add(("6800", [A("fdb", 0x1234)]), ("65c02", [A("adr", 0x1234, 0x5678)]), ("6805", [A("fdb", 0x1234)]))
    add(("68hc12", [A("dw", 0x1234)]), ("6502", [A("fdb", -2)]))
    add(("6502", [A("adr", 0x1234)]), ("xgate", [A("adr", 0x1234)]), ("st7", [A("fdb", 0x1234)]))
    add(("st6210", [A("word", 0x1234)]), ("6502", [A("adr", 0x1234)]), ("st6210", [A("word", 0x1234)]))
    add(("6800", [A("adr", 0x1234)]), ("st6210", [A("word", 0x1234)]))
    return out


def s_int(rng, v, syn):
    if syn == "intel":
        return c09_ext.src_int(rng, v, "intel")
    return c09_ext.src_int(rng, v, "moto")


def s_src_arg(c09, rng, a, syn):
    t = a[0]
    if t == "i":
        return s_int(rng, a[1], syn)
    if t == "s":
        return '"%s"' % a[1].decode("ascii")
    if t == "q":
        return "?"
    return "[%d]%s" % (a[1], s_src_arg(c09, rng, a[2], syn))


def s_src_stmt(c09, rng, st, syn):
    if st["k"] == "DFS":
        return "\t%s %d" % (st["op"], st["n"])
    return "\t%s %s" % (st["op"], ",".join(s_src_arg(c09, rng, a, syn) for a in st["args"]))


def s_build_sources(c09, rng, cases, split, skip=()):
    """one or two source texts; line_case[(file index, line)] = slot"""
    files = [[], []]
    line_case = {}
    order = []
    for idx, c in enumerate(cases):
        if idx in skip:
            continue
        fi = 1 if (split is not None and idx >= split) else 0
        lines = files[fi]
        order.append(idx)
        for j, sg in enumerate(c["segs"]):
            t = sg["tgt"]
            if "srcs" not in sg:
                sg["srcs"] = [s_src_stmt(c09, rng, st, t["syn"]) for st in sg["stmts"]]
            lines.append("\tcpu %s" % t["cpu"])
            lines.append("\torg %d" % (SW_BASE + idx * SW_SLOT + j * SEGSZ))
            for l in sg["srcs"]:
                lines.append(l)
                line_case[(fi, len(lines))] = idx
    return ["\n".join(f) + "\n" for f in files if f], line_case, order


def s_assemble(bdir, wd, tag, srcs):
    names = []
    for i, s in enumerate(srcs):
        n = "%s_%d" % (tag, i)
        open(os.path.join(wd, n + ".asm"), "w").write(s)
        p = os.path.join(wd, n + ".p")
        if os.path.exists(p):
            os.unlink(p)
        names.append(n)
    rc, so, se = common.run_tool(bdir, "asl", ["-q"] + [n + ".asm" for n in names], wd, timeout=120)
    datas = []
    for n in names:
        p = os.path.join(wd, n + ".p")
        datas.append(open(p, "rb").read() if os.path.exists(p) else None)
    return rc, so + se, datas, names


def s_errors(out, names, line_case, problems, tag):
    bad = set()
    for m in FILE_RE.finditer(out):
        if m.group(3) == b"warning":
            continue
        fn = os.path.basename(m.group(1).decode(errors="replace"))
        fi = next((i for i, n in enumerate(names) if fn == n + ".asm"), None)
        idx = line_case.get((fi, int(m.group(2))))
        if idx is None:
            problems.append("error outside a test statement: %s line %s of %s: %s" % (fn, m.group(2).decode(), tag, out.decode(errors="replace")[-300:]))
        else:
            bad.add(idx)
    return bad


def s_run_batch(c09, bdir, wd, rng, cases, split, tag):
    problems = []
    srcs, line_case, order = s_build_sources(c09, rng, cases, split)
    rc, out, datas, names = s_assemble(bdir, wd, tag, srcs)
    bad = s_errors(out, names, line_case, problems, tag)
    if rc not in (0, 2) or (rc == 2 and not bad):
        problems.append("asl rc=%s on batch %s: %s" % (rc, tag, out.decode(errors="replace")[-600:]))
    if bad:
        srcs, line_case, order = s_build_sources(c09, rng, cases, split, skip=bad)
        rc2, out2, datas, names = s_assemble(bdir, wd, tag + "b", srcs)
        if rc2 != 0 or any(d is None for d in datas):
            problems.append("second pass of batch %s still fails rc=%s: %s" % (tag, rc2, out2.decode(errors="replace")[-600:]))
            datas = None
    elif any(d is None for d in datas):
        datas = None
    # history of a slot = the targets of all earlier segments of the run whose byte image is used
    hist = []
    for idx in order:
        cases[idx]["hist"] = list(hist)
        for sg in cases[idx]["segs"]:
            hist.append(sg["tgt"])
    for idx, c in enumerate(cases):
        c["real"] = "ERR" if idx in bad else None
        c.setdefault("hist", [])
        # a replay needs the history: the source texts of the run up to and including this slot
        if idx in bad:
            full, _, _ = s_build_sources(c09, rng, cases[:idx + 1], split if (split is not None and split <= idx) else None)
        else:
            full, _, _ = s_build_sources(c09, rng, cases[:idx + 1], split if (split is not None and split <= idx) else None, skip=bad)
        c["sources"] = full
        c["source"] = full[-1] if len(full) == 1 else "".join("; ---- source file %d of one asl invocation\n%s" % (i + 1, s) for i, s in enumerate(full))
    if datas is not None:
        per = {}
        for data in datas:
            recs = c09_ext.parse_records(data)
            if recs is None:
                problems.append("code file of batch %s does not parse" % tag)
                continue
            for seg, gran, start, bs in recs:
                if not bs:
                    continue
                if seg != SEG_CODE or gran != 1:
                    problems.append("record in segment %d / granularity %d in batch %s" % (seg, gran, tag))
                    continue
                idx = (start - SW_BASE) // SW_SLOT
                per.setdefault(idx, []).append((start - (SW_BASE + idx * SW_SLOT), bs))
        for idx, c in enumerate(cases):
            if c["real"] == "ERR":
                continue
            merged = []
            for off, bs in sorted(per.get(idx, [])):
                if merged and merged[-1][0] + len(merged[-1][1]) == off:
                    merged[-1] = (merged[-1][0], merged[-1][1] + bs)
                else:
                    merged.append((off, bs))
            c["real"] = merged
    else:
        for c in cases:
            if c["real"] is None:
                c["real"] = "LOST"
    return problems


def s_cpu_tok(t):
    return "%s:%d:%d:%d" % (t["key"], t["turn"], t["via"], t["sbig"])


def s_request(c09, c):
    toks = [str(len(c["hist"]))] + [s_cpu_tok(t) for t in c["hist"]]
    toks.append(str(len(c["segs"])))
    for j, sg in enumerate(c["segs"]):
        toks += [s_cpu_tok(sg["tgt"]), str(j * SEGSZ), str(len(sg["stmts"]))]
        for st in sg["stmts"]:
            toks += c09.ser_stmt(st)
    if c["real"] == "ERR":
        toks.append("ERR")
    else:
        toks.append("OK")
        for off, bs in c["real"]:
            toks.append("%d:%s" % (off, bs.hex()))
    return " ".join(toks)


def s_classify(c, flag0):
    """ST6 `WORD` laid in the byte order that the last statement of another family left behind"""
    flag = flag0
    for sg in c["segs"]:
        t = sg["tgt"]
        if t["via"]:
            flag = t["turn"]
        elif flag != t["sbig"] and any(st["k"] == "ADR" and any(a[0] != "q" and not (a[0] == "r" and a[2][0] == "q") for a in st["args"]) for st in sg["stmts"]):
            return "st6-word-byte-order-left-by-previous-cpu-family"
    return None


# ------------------------------------------------------------------ self-calibration

def probe_1750(c09, bdir, wd):
    """does DATA on the 1750 accept negative values (its generator passes Int16) or not (UInt16)?"""
    rc, out, data = c09.assemble(bdir, wd, "probe_1750", "\tcpu 1750\n\torg 16\n\tdata -1\n")
    if rc == 0 and data is not None:
        for seg, gran, start, bs in c09_ext.parse_records(data) or []:
            if start == 16 and bs == b"\xff\xff":
                return "Int16"
        return None
    if rc == 2 and b"error" in out:
        return "UInt16"
    return None


def probe_st6(c09, bdir, wd):
    """ST6 WORD: byte order at the start of a run and after a 68xx statement -> (via, turn) of the model's table"""
    def order(pre):
        rc, out, data = c09.assemble(bdir, wd, "probe_st6", pre + "\tcpu st6210\n\torg 256\n\tword 1234h\n")
        if rc != 0 or data is None:
            return None
        for seg, gran, start, bs in c09_ext.parse_records(data) or []:
            if start == 256 and bs in (b"\x34\x12", b"\x12\x34"):
                return 1 if bs == b"\x12\x34" else 0
        return None
    alone, after68, after65 = order(""), order("\tcpu 6800\n\torg 16\n\tfdb 1\n"), order("\tcpu 6800\n\torg 16\n\tfdb 1\n\tcpu 6502\n\torg 32\n\tfdb 1\n")
    if None in (alone, after68, after65):
        return None
    if alone == after68 == after65:
        return dict(via=1, turn=alone)          # history independent: behaves like a generator that sets the flag itself
    if (alone, after68, after65) == (0, 1, 0):
        return dict(via=0, turn=0)              # follows the flag left by the previous family
    return None


# ------------------------------------------------------------------ the part

def run_part(c09, args, bdir, wd, ok, probes):
    thorough = args.tier != "quick"
    stats, dist = Counter(), Counter()
    spec_fail, corr_fail, samples, problems = [], [], [], []
    distinct = set()
    known_hits = Counter()
    evaluations = 0
    xprobes = dict(data1750=probe_1750(c09, bdir, wd), st6word=probe_st6(c09, bdir, wd))
    if xprobes["data1750"] is None:
        problems.append("self-calibration probe data1750 failed (`data -1` on the 1750 neither assembles to FFFF nor is refused)")
    else:
        for t in DT:
            if t["name"] == "1750":
                t["typ"] = xprobes["data1750"]
    if xprobes["st6word"] is None:
        problems.append("self-calibration probe st6word failed (ST6 `word 1234h` is neither history independent nor following the 65xx/68xx flag)")
    else:
        for t in SW:
            if t["cpu"] == "st6210":
                t.update(xprobes["st6word"])

    # ---- (D)
    rng = common.rng_for(args.seed, "C09D")
    n_cases = 24000 if thorough else 1500
    by_t = {}
    for c in d_hand_cases():
        by_t.setdefault(c["tgt"]["name"], []).append(c)
    weights = [t["weight"] for t in DT]
    for _ in range(n_cases):
        tgt = rng.choices(DT, weights)[0]
        by_t.setdefault(tgt["name"], []).append(d_case(c09, rng, tgt, stats))
    all_cases = []
    bno = 0
    for tn, cs in by_t.items():
        tgt = next(t for t in DT if t["name"] == tn)
        for i in range(0, len(cs), tgt["nslot"]):
            batch = cs[i:i + tgt["nslot"]]
            for p in d_run_batch(c09, bdir, wd, rng, tgt, batch, "d%d" % bno):
                corr_fail.append(dict(tag="harness", why=p))
            bno += 1
            all_cases += batch
    reqs, metas = [], []
    for c in all_cases:
        if c["real"] == "LOST":
            continue
        reqs.append(d_request(c))
        metas.append(c)
    answers = common.driver("c09d", reqs, timeout=3600) if ok and reqs else []
    n = 0
    for c, rq, ans in zip(metas, reqs, answers):
        kv = dict(x.split("=", 1) for x in ans.split() if "=" in x)
        n += 1
        t = c["tgt"]
        dist["d-target:" + t["name"]] += 1
        dist["d-outcome:" + ("error" if c["real"] == "ERR" else "bytes")] += 1
        dist["d-charset:" + ("active" if [o for o in c["csops"] if o[0] != "reset"] else "identity")] += 1
        nstr = max(len([a for a in st if a[0] in ("s", "c")]) for st in c["stmts"])
        dist["d-strings-in-one-statement:%s" % (nstr if nstr < 3 else "3+")] += 1
        odd_then_more = any(any(a[0] == "s" and len(a[1]) % 2 == 1 and any(bb[0] == "s" and bb[1] for bb in st[i + 1:]) for i, a in enumerate(st)) for st in c["stmts"])
        if odd_then_more:
            dist["d-odd-string-followed-by-string"] += 1
        key = " ".join(rq.split()[:-1]) if c["real"] == "ERR" else rq
        if kv.get("mres") not in (None, "1", "2") or c["real"] == "ERR":
            distinct.add("d " + key)
        if len(samples) < 3 and (n % 211 == 9 or (c.get("hand") and len(samples) < 1)):
            samples.append(dict(target=t["name"], source=c["source"], real=(c["real"] if isinstance(c["real"], str) else [(o, bb.hex()) for o, bb in c["real"]]),
                                verdict=ans[:200]))
        if "model" not in kv:
            problems.append("driver rejected a request: %s / %s" % (ans, rq[:300]))
            continue
        realtxt = c["real"] if isinstance(c["real"], str) else [(o, bb.hex()) for o, bb in c["real"]]
        # hypothesis of the whole-slot theorems C09_data_slot(_bytes)_model_eq_spec evaluated by the driver on this case
        dist["d-theorem-hypothesis:" + ("met" if kv.get("pre") == "1" else "not-met")] += 1
        if kv.get("thm") != "ok":
            problems.append("C09_data_slot_model_eq_spec contradicted by the executable definitions: %s / %s" % (ans[:200], rq[:300]))
        if kv["spec"] != "ok":
            sig = d_classify(c) if kv["model"] == "eq" else None
            known_hits[str(sig)] += 1
            spec_fail.append(dict(sig=sig, target=t["name"], source=c["source"], request=rq, mode="c09d",
                                  why="real output differs from the specification of DATA: real=%s spec(units)=%s" % (realtxt, kv.get("sout", "?"))))
        if kv["model"] != "eq":
            corr_fail.append(dict(tag="DATA", target=t["name"], source=c["source"], request=rq, mode="c09d",
                                  why="real output differs from the Lean model: real=%s model=%s" % (realtxt, kv.get("mout", "?"))))
    evaluations += len(answers)

    # ---- (S)
    rng = common.rng_for(args.seed, "C09S")
    n_cases = 9000 if thorough else 640
    cases = s_hand_cases() + [s_case(c09, rng, stats) for _ in range(n_cases)]
    all_cases = []
    bno = 0
    for i in range(0, len(cases), SW_NSLOT):
        batch = cases[i:i + SW_NSLOT]
        split = rng.randrange(1, len(batch)) if (len(batch) > 1 and rng.random() < 0.3) else None
        if split is not None:
            stats["s:batches_of_two_source_files"] += 1
        else:
            stats["s:batches_of_one_source_file"] += 1
        for p in s_run_batch(c09, bdir, wd, rng, batch, split, "s%d" % bno):
            corr_fail.append(dict(tag="harness", why=p))
        bno += 1
        all_cases += batch
    reqs, metas = [], []
    for c in all_cases:
        if c["real"] == "LOST":
            continue
        reqs.append(s_request(c09, c))
        metas.append(c)
    answers = common.driver("c09s", reqs, timeout=3600) if ok and reqs else []
    n = 0
    for c, rq, ans in zip(metas, reqs, answers):
        kv = dict(x.split("=", 1) for x in ans.split() if "=" in x)
        n += 1
        dist["s-outcome:" + ("error" if c["real"] == "ERR" else "bytes")] += 1
        dist["s-flag-at-slot-start:" + kv.get("flag", "?")] += 1
        for sg in c["segs"]:
            dist["s-target:" + sg["tgt"]["cpu"]] += 1
        body = rq.split()
        key = " ".join(body[1 + len(c["hist"]):-1] if c["real"] == "ERR" else body[1 + len(c["hist"]):])
        distinct.add("s %s %s" % (kv.get("flag", "?"), key))
        if len(samples) < 5 and (n % 173 == 11):
            samples.append(dict(target="+".join(sg["tgt"]["cpu"] for sg in c["segs"]), source=c["source"][-1500:],
                                real=(c["real"] if isinstance(c["real"], str) else [(o, bb.hex()) for o, bb in c["real"]]), verdict=ans[:200]))
        if "model" not in kv:
            problems.append("driver rejected a request: %s / %s" % (ans, rq[:300]))
            continue
        realtxt = c["real"] if isinstance(c["real"], str) else [(o, bb.hex()) for o, bb in c["real"]]
        tgts = "+".join(sg["tgt"]["cpu"] for sg in c["segs"])
        if kv["spec"] != "ok":
            sig = s_classify(c, int(kv.get("flag", "0"))) if kv["model"] == "eq" else None
            known_hits[str(sig)] += 1
            spec_fail.append(dict(sig=sig, target=tgts, source=c["source"], sources=c["sources"], request=rq, mode="c09s",
                                  why="16-bit constants not in the byte order of the target active at the statement: real=%s spec=%s" % (realtxt, kv.get("sout", "?"))))
        if kv["model"] != "eq":
            corr_fail.append(dict(tag="CPU-switch", target=tgts, source=c["source"], sources=c["sources"], request=rq, mode="c09s",
                                  why="real output differs from the Lean model: real=%s model=%s" % (realtxt, kv.get("mout", "?"))))
    evaluations += len(answers)
    return dict(spec_fail=spec_fail, corr_fail=corr_fail, evaluations=evaluations, distinct=distinct, dist=dist, stats=stats,
                samples=samples, problems=problems, known_hits=known_hits, probes=xprobes)
