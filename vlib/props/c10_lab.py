"""C10, label part: what labels read when pad bytes, constructs and Motorola-style reservations are involved.

Called from c10.run().  Two program families, one driver mode (`c10l`, lean/Driver/C10L.lean):

 * construct programs (`ConGen`): on targets with automatic word alignment (68000 - PADDING ON by default -, MSP430, TMS9900, AVR with
   an 8-bit code segment) labels stand on the line that opens a construct (macro call, REPT, IRP, IRPN, IRPC, WHILE) or alone on
   the line(s) before it or before a plain statement, mostly at odd addresses; the first statement of the body is word-sized
   (instruction, 16-bit data object), byte-sized, an instruction that places nothing, or another construct (nested up to depth 3,
   labels inside bodies that are expanded once); PADDING ON / OFF, PHASE / DEPHASE blocks, ORG to odd addresses in between.
 * reservation programs (`MotoGen`): on 6809, 6800/6801/68HC11, 6805/68HC08, 68HC12, 6502/65C02 and 68000: BYT/FCB/BYTE/DB,
   ADR/FDB/DW, DC.B/W/L, DS.B/W/L, DFS/RMB statements whose operands are SEVERAL `?` / `[n]?` placeholders (and constants as
   markers, and mixtures that must be refused), labelled, interleaved with label-only lines and ORG, inside and outside
   STRUCT / UNION bodies, with PADDING ON where the target has it.

Observed at the end of the program (a MESSAGE after every statement would clear the assembler's memory of the last label):
every symbol (labels, structure fields, structure lengths), the program counter, the lines with errors, the code file.

Oracles:
 (B) Model/AddrLab.lean: Produce_Code's label part incl. the ResetLastLabel rule of the construct-opening lines, LabelHandle /
     LabelModify / LabelReset, InsertPadding, the C09 transcription of the Motorola pseudo-ops (CodeLen of the reservation branches),
 (C) Spec/AddrLab.lean: the manual (PADDING: the label of the line and of the line immediately before point behind the pad byte;
     a construct is replaced by its expansion; DC/BYT/ADR: operands x repeat factor x element size).
Nothing in this file computes an expected value: the parity the generators keep only steers the programs to odd addresses and
away from what the manual leaves open.  The encodings of the handful of machine instructions used as word-sized objects are read
from the binary under test once per run (`calibrate`) - encodings are C14's business, not this check's.
"""
import os
import re
from collections import Counter

from .. import common
from .c09_ext import ser_arg

# ------------------------------------------------------------------------------------------------ targets
# byte / word: data statements (value -> text); insns: machine instructions of 2 bytes; wordobj: is the 16-bit data statement an
# aligned object (manual, PADDING: "a data object of 16 bits or more")?  On the AVR only instructions are aligned in byte mode
# (processor-specific hints: "care has to be taken that instructions do not start on an odd address").
CT = [
    dict(name="68000", cpu="68000", key="68000", big=1, mturn=1, pc="*", hdr="-", moto=True, insns=["nop", "rts", "rte", "trapv"],
         lim=0xffffff, weight=40),
    dict(name="msp430", cpu="msp430", key="MSP430", big=0, mturn=0, pc="$", hdr="-", moto=False, byte="byte", word="word", wordobj=True,
         insns=["nop", "ret", "reti"], lim=0xffff, weight=22),
    dict(name="tms9900", cpu="tms9900", key="TMS9900", big=1, mturn=0, pc="$", hdr="-", moto=False, byte="byte", word="word", wordobj=True,
         insns=["rtwp", "idle", "rset"], lim=0xffff, weight=20),
    dict(name="avr8", cpu="atmega8:codesegsize=0", key="ATMEGA8", big=0, mturn=0, pc="*", hdr="61", moto=False, byte="db", word="dw",
         wordobj=False, insns=["nop", "ret", "sei"], lim=0x1fff, weight=18),
]

MT = [
    dict(name="6809", cpu="6809", key="6809", big=1, mturn=1, pc="*", m8=["fcb", "byt", "byte", "db"], m16=["fdb", "adr", "dw"], dc=True,
         res=["rmb", "dfs"], padding=True, weight=30),
    dict(name="6800", cpu="6800", key="6800", big=1, mturn=1, pc="*", m8=["fcb", "byt", "db"], m16=["fdb", "adr", "dw"], dc=True,
         res=["rmb", "dfs"], padding=True, weight=10),
    dict(name="68hc11", cpu="6811", key="6811", big=1, mturn=1, pc="*", m8=["fcb", "byt", "db"], m16=["fdb", "adr", "dw"], dc=True,
         res=["rmb", "dfs"], padding=True, weight=8),
    dict(name="68hc08", cpu="68hc08", key="68HC08", big=1, mturn=1, pc="*", m8=["fcb", "byt", "db"], m16=["fdb", "adr", "dw"], dc=True,
         res=["rmb", "dfs"], padding=True, weight=8),
    dict(name="68hc12", cpu="68hc12", key="68HC12", big=1, mturn=1, pc="*", m8=["fcb", "byt", "db"], m16=["fdb", "adr", "dw"], dc=True,
         res=["rmb", "dfs"], padding=True, weight=8),
    dict(name="6502", cpu="6502", key="6502", big=0, mturn=0, pc="*", m8=["fcb", "byt", "byte"], m16=["fdb", "adr"], dc=False,
         res=["rmb", "dfs"], padding=False, weight=18),
    dict(name="65c02", cpu="65c02", key="65C02", big=0, mturn=0, pc="*", m8=["fcb", "byt"], m16=["fdb", "adr"], dc=False,
         res=["rmb", "dfs"], padding=False, weight=6),
    dict(name="68000", cpu="68000", key="68000", big=1, mturn=1, pc="*", m8=[], m16=[], dc=True, res=[], padding=True, weight=12),
]

DCS = [("b", 1), ("w", 2), ("l", 4)]
KINDS = ["macro", "rept", "irp", "irpn", "irpc", "while"]


def le(v, big):
    return bytes([v >> 8, v & 255]) if big else bytes([v & 255, v >> 8])


# ------------------------------------------------------------------------------------------------ program representation
# node = ("L", label|None, op) | ("C", label|None, kind, args, body, uid, glob)
# op   = ("B",) ("M", stmt tokens, text) ("DS", w, n, text) ("O", bytes, text) ("Y", bytes, text) ("P",) ("ORG", v) ("PH", v) ("DPH",)
#        ("PAD", on) ("X", text) ("ST", name, union) ("EST", name, union)

def ser_op(op):
    k = op[0]
    if k == "B":
        return ["B"]
    if k == "M":
        return ["M"] + op[1]
    if k == "DS":
        return ["DS", str(op[1]), str(op[2])]
    if k in ("O", "Y"):
        return [k, op[1].hex() or "-"]
    if k == "P":
        return ["P"]
    if k == "ORG":
        return ["ORG", str(op[1])]
    if k == "PH":
        return ["PH", str(op[1])]
    if k == "DPH":
        return ["DPH"]
    if k == "PAD":
        return ["PAD", "1" if op[1] else "0"]
    if k == "X":
        return ["X"]
    if k == "ST":
        return ["ST", str(op[1]), "1" if op[2] else "0"]
    if k == "EST":
        return ["EST"]
    raise AssertionError(k)


def ser_node(n):
    if n[0] == "L":
        return ["L", "-" if n[1] is None else str(n[1])] + ser_op(n[2])
    out = ["C", "-" if n[1] is None else str(n[1]), str(len(n[3]))] + [str(a) for a in n[3]] + [str(len(n[4]))]
    for b in n[4]:
        out += ser_node(b)
    return out


def op_text(t, op, param):
    k = op[0]
    if k == "B":
        return ""
    if k in ("M", "O", "Y", "X"):
        return op[-1]
    if k == "DS":
        return op[3]
    if k == "P":
        return "%s\t%s" % ("dc.b" if t.get("moto") else t["byte"], param)
    if k == "ORG":
        return "org\t%d" % op[1]
    if k == "PH":
        return "phase\t%d" % op[1]
    if k == "DPH":
        return "dephase"
    if k == "PAD":
        return "padding\t%s" % ("on" if op[1] else "off")
    if k == "ST":
        return "union" if op[2] else "struct"
    if k == "EST":
        return "endunion" if op[2] else "endstruct"
    raise AssertionError(k)


def render_nodes(t, nodes, param, out, macros):
    """source lines of a node list; macro bodies are collected in `macros` (definitions go to the top of the file)"""
    for n in nodes:
        if n[0] == "L":
            lab, op = n[1], n[2]
            if op[0] in ("ST", "EST"):
                left = "R%d" % op[1]
            else:
                left = "" if lab is None else "N%d:" % lab
            if op[0] == "X" and op[1].startswith("W"):
                out.append(op[1])                  # `Wk set …`: the counter's name stands in the label column
            else:
                out.append("%s\t%s" % (left, op_text(t, op, param)))
            continue
        _, lab, kind, args, body, uid, glob = n
        left = "" if lab is None else "N%d:" % lab
        g = "{GLOBALSYMBOLS}," if glob else ""
        p = "P%d" % uid
        inner = []
        render_nodes(t, body, p, inner, macros)
        if kind == "macro":
            macros.append(["M%d\tmacro\t%s%s" % (uid, g, p)] + inner + ["\tendm"])
            out.append("%s\tM%d\t%d" % (left, uid, args[0]))
            continue
        if kind == "rept":
            out.append("%s\trept\t%s%d" % (left, g, len(args)))
        elif kind == "irp":
            out.append("%s\tirp\t%s%s,%s" % (left, g, p, ",".join(str(a) for a in args)))
        elif kind == "irpn":
            out.append("%s\tirpn\t%s2,%s,Q%d,%s" % (left, g, p, uid, ",".join("%d,%d" % (a, (a * 7 + 3) % 200) for a in args)))
        elif kind == "irpc":
            out.append("%s\tirpc\t%s%s,\"%s\"" % (left, g, p, "".join(str(a) for a in args)))
        elif kind == "while":
            out.append("%s\twhile\t%sW%d>0" % (left, g, uid))
        out += inner
        out.append("\tendm")


def symbols_of(nodes, st=None, acc=None):
    """(driver token, assembler name) of every symbol the program defines, in definition order"""
    acc = [] if acc is None else acc
    for n in nodes:
        if n[0] == "L":
            op = n[2]
            if op[0] == "ST":
                st = op[1]
                continue
            if op[0] == "EST":
                acc.append(("%d.L" % op[1], "R%d_LEN" % op[1]))
                st = None
                continue
            if n[1] is not None:
                acc.append(("%d" % n[1], "N%d" % n[1]) if st is None else ("%d.%d" % (st, n[1]), "R%d_N%d" % (st, n[1])))
        else:
            if n[1] is not None:
                acc.append(("%d" % n[1], "N%d" % n[1]))
            symbols_of(n[4], None, acc)
    return acc


def render(t, prog, two_pass, pad_explicit=None):
    lines = ["\tcpu\t%s" % t["cpu"], "\toutradix\t10"]
    if two_pass:
        lines.append("Q_FWD\tequ\tQ_END")
    body, macros = [], []
    lmap = {}
    # top-level nodes one by one, to know which source lines belong to which node
    spans = []
    for i, n in enumerate(prog):
        start = len(body)
        render_nodes(t, [n], None, body, macros)
        spans.append((start, len(body), i))
    for m in macros:
        lines += m
    base = len(lines)
    lines += body
    for a, e, i in spans:
        for k in range(a, e):
            lmap[base + k + 1] = i
    for tok, name in symbols_of(prog):
        lines.append("\tmessage\t\"@S %s \\{%s}\"" % (tok, name))
    lines.append("\tmessage\t\"@E \\{%s}\"" % t["pc"])
    if two_pass:
        lines.append("Q_END:")
    return "\n".join(lines) + "\n", lmap


SYM_RE = re.compile(r"^@S (\S+) (-?\d+)\s*$")
END_RE = re.compile(r"^@E (-?\d+)\s*$")
ERR_RE = re.compile(r"^> > > [^(]+\((\d+)\).*?: (error|fatal error) #(\d+)")
ERR0_RE = re.compile(r"^> > > [^(:]+: (error|fatal error) #(\d+)")


def observe(bdir, wd, idx, src, lmap):
    f = os.path.join(wd, "l%d.asm" % idx)
    pf = os.path.join(wd, "l%d.p" % idx)
    open(f, "w").write(src)
    rc, so, se = common.run_tool(bdir, "asl", ["-q", "-n", f, "-o", pf], wd, timeout=20, env={"ASL_VERIF_MAX_PASSES": "8"})
    sig = -rc if isinstance(rc, int) and rc < 0 else (99 if rc in ("timeout", 97) else 0)
    syms, end = {}, "-"
    for line in so.decode(errors="replace").split("\n"):
        m = SYM_RE.match(line.strip())
        if m:
            syms[m.group(1)] = m.group(2)
            continue
        m = END_RE.match(line.strip())
        if m:
            end = m.group(1)
    errs, end_errs, other = [], [], []
    for line in se.decode(errors="replace").split("\n"):
        m = ERR_RE.match(line.strip())
        if m:
            i = lmap.get(int(m.group(1)))
            if i is not None:
                if i not in errs:
                    errs.append(i)
            else:
                other.append((int(m.group(1)), m.group(3)))
            continue
        m = ERR0_RE.match(line.strip())
        if m:
            end_errs.append(m.group(2))
    pfhex = "-"
    if os.path.exists(pf):
        pfhex = open(pf, "rb").read().hex() or "-"
        os.unlink(pf)
    os.unlink(f)
    tail = "syms=%s end=%s errs=%s enderrs=%s sig=%d p=%s" % (
        ",".join("%s:%s" % kv for kv in syms.items()) or "-", end, ";".join(str(e) for e in sorted(errs)) or "-",
        ";".join(end_errs) or "-", sig, pfhex)
    return tail, dict(rc=rc, errors_on_message_lines=other, stderr=se.decode(errors="replace")[-600:])


# ------------------------------------------------------------------------------------------------ calibration

def calibrate(bdir, wd):
    """per construct target: encodings of the 2-byte instructions, PADDING default; the structure-field probe"""
    cal, problems = {}, []
    for t in CT:
        src = "\tcpu\t%s\n\toutradix\t10\n\tmessage\t\"@E \\{PADDING}\"\n\torg\t4096\n" % t["cpu"] + "".join("\t%s\n" % i for i in t["insns"])
        f = os.path.join(wd, "cal.asm")
        open(f, "w").write(src)
        rc, so, se = common.run_tool(bdir, "asl", ["-q", "-n", f, "-o", os.path.join(wd, "cal.p")], wd)
        m = re.search(r"@E (\d+)", so.decode(errors="replace"))
        enc = {}
        data = b""
        if os.path.exists(os.path.join(wd, "cal.p")):
            items = common.parse_pfile_py(open(os.path.join(wd, "cal.p"), "rb").read()) or []
            data = b"".join(it[5] for it in items if it[0] == "D")
        if rc != 0 or len(data) != 2 * len(t["insns"]) or not m:
            problems.append("calibration of %s: rc=%s, %d bytes for %d instructions" % (t["name"], rc, len(data), len(t["insns"])))
        for k, ins in enumerate(t["insns"]):
            enc[ins] = data[2 * k:2 * k + 2]
        cal[t["name"]] = dict(enc=enc, pad0=(m.group(1) != "0") if m else False)
    for t in MT:
        src = "\tcpu\t%s\n\toutradix\t10\n\tmessage\t\"@E \\{PADDING}\"\n" % t["cpu"]
        f = os.path.join(wd, "cal.asm")
        open(f, "w").write(src)
        rc, so, se = common.run_tool(bdir, "asl", ["-q", "-n", f, "-o", os.path.join(wd, "cal.p")], wd)
        m = re.search(r"@E (\d+)", so.decode(errors="replace"))
        cal["m:" + t["name"]] = dict(pad0=(m.group(1) != "0") if m else False)
    # does LabelModify correct the *symbol* of a structure field?  (finding struct-field-symbol-keeps-pad-offset, repaired by 0cba171)
    src = ("\tcpu\t68000\n\toutradix\t10\n\tpadding\ton\nR1\tstruct\nN1:\tdc.b\t?\nN2:\tdc.w\t?\nR1\tendstruct\n"
           "\tmessage\t\"@E \\{R1_N2}\"\n")
    open(os.path.join(wd, "cal.asm"), "w").write(src)
    rc, so, se = common.run_tool(bdir, "asl", ["-q", "-n", os.path.join(wd, "cal.asm"), "-o", os.path.join(wd, "cal.p")], wd)
    m = re.search(r"@E (\d+)", so.decode(errors="replace"))
    cal["fix_struct"] = bool(m and m.group(1) == "2")
    for fn in ("cal.asm", "cal.p"):
        if os.path.exists(os.path.join(wd, fn)):
            os.unlink(os.path.join(wd, fn))
    return cal, problems


# ------------------------------------------------------------------------------------------------ construct programs

class ConGen:
    def __init__(self, rng, t, cal, stats):
        self.rng, self.t, self.stats = rng, t, stats
        self.enc = cal[t["name"]]["enc"]
        self.padding = cal[t["name"]]["pad0"]
        self.par = 0                # parity of the address labels read (steering only)
        self.hi = 4096              # upper estimate of the load address (steering only)
        self.phased = False
        self.next_lab = 1
        self.next_uid = 1
        self.prog = []
        self.tag = 0
        self.n_groups = rng.randrange(3, 9)

    def lab(self):
        self.next_lab += 1
        return self.next_lab - 1

    def uid(self):
        self.next_uid += 1
        return self.next_uid - 1

    def val(self):
        self.tag = self.tag % 250 + 1
        return self.tag

    # --- statements
    def byte_op(self):
        v = self.val()
        if self.t["moto"]:
            return ("M", ["DC", "1", "1", "-", "1", "i%d" % v], "dc.b\t%d" % v)
        return ("Y", bytes([v]), "%s\t%d" % (self.t["byte"], v))

    def word_data_op(self):
        v = 256 * self.val() + self.val()
        if self.t["moto"]:
            return ("M", ["DC", "2", "1", "-", "1", "i%d" % v], "dc.w\t%d" % v)
        return ("O" if self.t["wordobj"] else "Y", le(v, self.t["big"]), "%s\t%d" % (self.t["word"], v))

    def insn_op(self):
        i = self.rng.choice(self.t["insns"])
        return ("O", self.enc[i], i)

    def other_op(self):
        return ("X", self.rng.choice(["listing\ton", "title\t\"t\"", "page\t60", "listing\ton"]))

    def aligned(self, op):
        return op[0] == "O" or (op[0] == "M" and op[1][0] == "DC" and op[1][1] != "1")

    def size(self, op):
        if op[0] in ("O", "Y"):
            return len(op[1])
        if op[0] == "M":
            return int(op[1][1])
        if op[0] == "P":
            return 1
        return 0

    def word_op(self, allow_insn=True):
        """a word-sized object; instructions only where an odd address cannot be refused"""
        if allow_insn and self.rng.random() < 0.6:
            return self.insn_op()
        return self.word_data_op()

    # --- parity simulation (steering)
    def sim(self, nodes, par):
        for n in nodes:
            if n[0] == "L":
                op = n[2]
                if self.aligned(op):
                    par = 0 if self.padding else par
                    par = (par + self.size(op)) % 2
                else:
                    par = (par + self.size(op)) % 2
                self.hi += self.size(op) + 1
            else:
                for _ in n[3]:
                    par = self.sim(n[4], par)
        return par

    def safe_word(self, par):
        """a word-sized statement (under PADDING OFF an odd address only draws a warning)"""
        return self.word_op()

    def body(self, kind, depth, par, single, has_param):
        """nodes of a construct body; `par` = parity at its start"""
        rng = self.rng
        nodes = []
        r = rng.random()
        first = None
        if r < 0.58:
            op = self.safe_word(par)
            first = ("L", None, op if op is not None else self.byte_op())
            self.stats["first:word" if op is not None else "first:byte"] += 1
        elif r < 0.70:
            first = ("L", None, ("P",) if has_param and rng.random() < 0.5 else self.byte_op())
            self.stats["first:byte"] += 1
        elif r < 0.78:
            first = ("L", None, self.other_op())
            self.stats["first:other"] += 1
        elif r < 0.93 and depth < 3:
            first = self.construct(depth + 1, None if rng.random() < 0.6 or not single else self.lab(), par, single)
            self.stats["first:construct"] += 1
        else:
            op = self.safe_word(par)
            first = ("L", self.lab() if single else None, op if op is not None else self.byte_op())
            self.stats["first:labelled"] += 1
        nodes.append(first)
        p = self.sim([first], par)
        for _ in range(rng.choice([0, 0, 1, 1, 2])):
            w = rng.random()
            if w < 0.4:
                op = self.safe_word(p)
                n = ("L", self.lab() if single and rng.random() < 0.3 else None, op if op is not None else self.byte_op())
            elif w < 0.7:
                n = ("L", None, ("P",) if has_param and rng.random() < 0.5 else self.byte_op())
            elif w < 0.8:
                n = ("L", None, self.other_op())
            elif depth < 3:
                n = self.construct(depth + 1, self.lab() if single and rng.random() < 0.4 else None, p, single)
            else:
                n = ("L", None, self.byte_op())
            nodes.append(n)
            p = self.sim([n], p)
        return nodes

    def construct(self, depth, lab, par, single_chain):
        rng = self.rng
        kind = rng.choice(KINDS)
        uid = self.uid()
        if kind == "macro":
            args = [self.val()]
        elif kind == "irpc":
            args = [rng.randrange(0, 10) for _ in range(rng.choice([1, 1, 2, 3]))]
        elif kind in ("rept", "while"):
            args = [0] * rng.choice([0, 1, 1, 2, 2, 3]) if kind == "rept" else [0] * rng.choice([1, 1, 2, 3])
        else:
            args = [self.val() for _ in range(rng.choice([1, 1, 2, 3]))]
        single = single_chain and len(args) == 1 and kind != "while"
        has_param = kind in ("macro", "irp", "irpn", "irpc")
        body = self.body(kind, depth, par, single, has_param)
        if kind == "while":
            body.append(("L", None, ("X", "W%d\tset\tW%d-1" % (uid, uid))))
        self.stats["kind:" + kind] += 1
        self.stats["iterations:%d" % len(args)] += 1
        self.stats["depth:%d" % depth] += 1
        return ("C", lab, kind, args, body, uid, single)

    def emit(self, n):
        self.prog.append(n)
        self.par = self.sim([n], self.par)

    def make_parity(self, want_odd):
        k = (1 if want_odd else 0) - self.par
        for _ in range(k % 2 + self.rng.choice([0, 0, 2])):
            self.emit(("L", None, self.byte_op()))

    def group(self):
        rng = self.rng
        self.make_parity(rng.random() < 0.8)
        shape = rng.random()
        target_is_construct = rng.random() < 0.75
        # WHILE counters are set in front of the labels
        lab_line, lab_before, chain = None, None, None
        if shape < 0.38:
            lab_line = self.lab()
            self.stats["label:on-the-line"] += 1
        elif shape < 0.72:
            lab_before = self.lab()
            self.stats["label:line-before"] += 1
        elif shape < 0.80:
            chain, lab_before = self.lab(), self.lab()
            self.stats["label:two-lines-before"] += 1
        elif shape < 0.83:
            lab_before, lab_line = self.lab(), self.lab()
            self.stats["label:line-before-and-on-the-line"] += 1
        else:
            self.stats["label:none"] += 1
        if target_is_construct:
            n = self.construct(1, lab_line, self.par, True)
            pre = []
            self.collect_whiles(n, pre)
        else:
            op = self.safe_word(self.par)
            n = ("L", lab_line, op if op is not None else self.byte_op())
            pre = []
            self.stats["plain-statement"] += 1
        for w in pre:
            self.emit(w)
        if chain is not None:
            self.emit(("L", chain, ("B",)))
        if lab_before is not None:
            self.emit(("L", lab_before, ("B",)))
        self.emit(n)

    def collect_whiles(self, n, pre):
        """`Wk set n` lines of the WHILE constructs of a top-level node: those directly at its top go in front of the labels, the
        others in front of their construct inside the body"""
        if n[0] != "C":
            return
        if n[2] == "while":
            pre.append(("L", None, ("X", "W%d\tset\t%d" % (n[5], len(n[3])))))
        body = n[4]
        k = 0
        while k < len(body):
            b = body[k]
            if b[0] == "C":
                inner = []
                self.collect_whiles(b, inner)
                for w in inner:
                    body.insert(k, w)
                    k += 1
            k += 1

    def build(self):
        rng = self.rng
        if rng.random() < 0.45:
            on = rng.random() < 0.75
            self.emit(("L", None, ("PAD", on)))
            self.padding = on
        lim = self.t["lim"]
        base = rng.choice([4096, 4096, 8192, 4097, 256 * rng.randrange(1, 60)]) % (lim // 4)
        self.emit(("L", None, ("ORG", base)))
        self.par, self.hi = base % 2, base
        for g in range(self.n_groups):
            r = rng.random()
            if r < 0.10 and not self.phased:
                v = 2 * rng.randrange(lim // 8, lim // 2 - 1024) + self.par
                self.emit(("L", self.lab() if rng.random() < 0.3 else None, ("PH", v)))
                self.phased = True
                self.stats["phase"] += 1
            elif r < 0.16 and self.phased:
                self.emit(("L", None, ("DPH",)))
                self.phased = False
            elif r < 0.22 and not self.phased:
                v = self.hi + rng.randrange(1, 64)
                self.emit(("L", self.lab() if rng.random() < 0.3 else None, ("ORG", v)))
                self.par, self.hi = v % 2, v
                self.stats["org-odd" if v % 2 else "org-even"] += 1
            elif r < 0.27:
                on = not self.padding
                self.emit(("L", None, ("PAD", on)))
                self.padding = on
                self.stats["padding-switch"] += 1
            self.group()
        if self.phased and rng.random() < 0.7:
            self.emit(("L", None, ("DPH",)))
        self.emit(("L", self.lab(), ("B",)))
        return self


# whole-program fix-ups: `collect_whiles` inserts into bodies after the parity simulation - a WHILE counter line places nothing


# ------------------------------------------------------------------------------------------------ reservation programs

class MotoGen:
    def __init__(self, rng, t, cal, stats):
        self.rng, self.t, self.stats = rng, t, stats
        self.padding = cal["m:" + t["name"]]["pad0"]
        self.next_lab = 1
        self.next_st = 1
        self.prog = []
        self.tag = 0
        self.par = 0
        self.hi = 4096
        self.n = rng.randrange(6, 22)

    def lab(self, p=0.8):
        if self.rng.random() < p:
            self.next_lab += 1
            return self.next_lab - 1
        return None

    def val(self):
        self.tag = self.tag % 250 + 1
        return self.tag

    def res_args(self):
        """operands of a reservation: several `?` / `[n]?`"""
        rng = self.rng
        k = rng.choice([1, 2, 2, 2, 3, 3, 4, 5])
        args = []
        for _ in range(k):
            if rng.random() < 0.5:
                args.append(("q",))
            else:
                args.append(("r", rng.choice([0, 1, 2, 2, 3, 3, 4, 5, 7, 9]), ("q",)))
        self.stats["reservation-operands:%d" % k] += 1
        return args

    def const_args(self, w):
        rng = self.rng
        args = []
        for _ in range(rng.choice([1, 1, 2, 3])):
            v = self.val() if w == 1 else 256 * self.val() + self.val()
            a = ("i", v)
            if w == 1 and rng.random() < 0.15:
                a = ("s", bytes(rng.choice(b"ABCDEFGH") for _ in range(rng.choice([2, 3]))))
            if rng.random() < 0.3:
                a = ("r", rng.choice([1, 2, 3]), a)
            args.append(a)
        return args

    @staticmethod
    def arg_text(a):
        if a[0] == "q":
            return "?"
        if a[0] == "i":
            return str(a[1])
        if a[0] == "s":
            return "\"%s\"" % a[1].decode()
        return "[%d]%s" % (a[1], MotoGen.arg_text(a[2]))

    def elems(self, args):
        n = 0
        for a in args:
            if a[0] == "r":
                n += a[1] * (len(a[2][1]) if a[2][0] == "s" else 1)
            else:
                n += len(a[1]) if a[0] == "s" else 1
        return n

    def data_stmt(self, in_struct):
        """(op, width)"""
        rng, t = self.rng, self.t
        forms = []
        if t["m8"]:
            forms += [("m8", 1)] * 3
        if t["m16"]:
            forms += [("m16", 2)] * 5
        if t["dc"]:
            forms += [("dc", 1), ("dc", 2), ("dc", 2), ("dc", 4)]
        form, w = rng.choice(forms)
        r = rng.random()
        if r < 0.72 or in_struct:
            args, kind = self.res_args(), "res"
        elif r < 0.95:
            args, kind = self.const_args(w), "const"
        else:
            args = self.res_args()
            args.insert(rng.randrange(0, len(args) + 1), ("i", self.val()))
            kind = "mixed"
        if form == "m8":
            mn = rng.choice(t["m8"])
            toks = ["BYT", str(len(args))]
        elif form == "m16":
            mn = rng.choice(t["m16"])
            toks = ["ADR", str(len(args))]
        else:
            mn = "dc." + {1: "b", 2: "w", 4: "l"}[w]
            toks = ["DC", str(w), "1", "-", str(len(args))]
        for a in args:
            toks += ser_arg(a)
        self.stats["stmt:%s:%s" % (form if form != "dc" else "dc.%d" % w, kind)] += 1
        n = self.elems(args) * w
        pad = 1 if (form == "dc" and w != 1 and self.padding and self.par) else 0
        if kind == "mixed" and pad:
            return self.data_stmt(in_struct)        # a refused DC behind a pad byte: the manual does not say what is left behind
        if kind != "mixed":
            self.par = (self.par + pad + n) % 2
            self.hi += pad + n
        return ("M", toks, "%s\t%s" % (mn, ",".join(self.arg_text(a) for a in args)))

    def space_stmt(self):
        rng, t = self.rng, self.t
        if t["res"] and (not t["dc"] or rng.random() < 0.5):
            n = rng.choice([1, 2, 3, 5, 8, 16])
            self.par = (self.par + n) % 2
            self.hi += n
            self.stats["stmt:rmb"] += 1
            return ("M", ["DFS", str(n)], "%s\t%d" % (rng.choice(t["res"]), n))
        ch, w = rng.choice(DCS)
        n = rng.choice([1, 2, 3, 5])
        pad = 1 if (w != 1 and self.padding and self.par) else 0
        self.par = (self.par + pad + n * w) % 2
        self.hi += pad + n * w
        self.stats["stmt:ds.%d" % w] += 1
        return ("DS", w, n, "ds.%s\t%d" % (ch, n))

    def structure(self):
        rng = self.rng
        union = rng.random() < 0.3
        if union and self.padding:
            union = False                       # a pad byte inside a UNION: the manual does not say
        name = self.next_st
        self.next_st += 1
        save = (self.par, self.hi)
        self.par = 0
        self.prog.append(("L", None, ("ST", name, union)))
        for _ in range(rng.randrange(1, 6)):
            if union:
                self.par = 0
            r = rng.random()
            if r < 0.75:
                self.prog.append(("L", self.lab(0.9), self.data_stmt(True)))
            elif r < 0.9:
                self.prog.append(("L", self.lab(0.9), self.space_stmt()))
            else:
                self.prog.append(("L", self.lab(1.0), ("B",)))
        self.prog.append(("L", None, ("EST", name, union)))
        self.par, self.hi = save
        self.stats["union" if union else "struct"] += 1

    def build(self):
        rng, t = self.rng, self.t
        if t["padding"] and rng.random() < (0.5 if t["name"] != "68000" else 0.25):
            on = not self.padding if t["name"] != "68000" else rng.random() < 0.5
            self.prog.append(("L", None, ("PAD", on)))
            self.padding = on
            self.stats["padding-on" if on else "padding-off"] += 1
        base = rng.choice([4096, 4096, 8192, 256 * rng.randrange(1, 60), 4097])
        self.prog.append(("L", None, ("ORG", base)))
        self.par, self.hi = base % 2, base
        while len(self.prog) < self.n:
            r = rng.random()
            if r < 0.62:
                self.prog.append(("L", self.lab(), self.data_stmt(False)))
            elif r < 0.72:
                self.prog.append(("L", self.lab(), self.space_stmt()))
            elif r < 0.80:
                self.prog.append(("L", self.lab(1.0), ("B",)))
            elif r < 0.86:
                v = self.hi + rng.randrange(1, 40)
                self.prog.append(("L", self.lab(0.3), ("ORG", v)))
                self.par, self.hi = v % 2, v
            else:
                self.structure()
        self.prog.append(("L", self.lab(1.0), ("M", ["BYT", "1", "i165"], "%s\t165" % (t["m8"][0] if t["m8"] else "dc.b"))
                          if t["m8"] else ("M", ["DC", "1", "1", "-", "1", "i165"], "dc.b\t165")))
        self.prog.append(("L", self.lab(1.0), ("B",)))
        return self


# ------------------------------------------------------------------------------------------------ hand-written regression programs

class Fixed:
    def __init__(self, t, prog, name, spec_pad0=None, sig_if_fail=None):
        self.t, self.prog, self.name = t, prog, name
        self.spec_pad0 = spec_pad0        # PADDING at the start as the manual states it (default: what the binary reports)
        self.sig_if_fail = sig_if_fail    # signature of the finding this program documents


def hand_programs(cal):
    T = {t["name"]: t for t in CT}
    M = {t["name"]: t for t in MT}
    out = []

    def dcb(v):
        return ("M", ["DC", "1", "1", "-", "1", "i%d" % v], "dc.b\t%d" % v)

    def dcw(v):
        return ("M", ["DC", "2", "1", "-", "1", "i%d" % v], "dc.w\t%d" % v)

    e68 = cal["68000"]["enc"]
    nop = ("O", e68["nop"], "nop")
    # one representative per label position x construct kind (68000, PADDING ON)
    prog = [("L", None, ("PAD", True)), ("L", None, ("ORG", 4096))]
    lab = 1
    for kind in KINDS:
        args = {"macro": [7], "rept": [0, 0], "irp": [17, 34], "irpn": [5, 6], "irpc": [3, 4], "while": [0, 0]}[kind]
        for where in ("line", "before"):
            body = [("L", None, nop if kind != "irp" else dcw(4369))]
            if kind == "while":
                body.append(("L", None, ("X", "W%d\tset\tW%d-1" % (lab, lab))))
                prog.append(("L", None, ("X", "W%d\tset\t2" % lab)))
            prog.append(("L", None, dcb(lab)))
            if where == "before":
                prog.append(("L", lab, ("B",)))
            prog.append(("C", lab if where == "line" else None, kind, args, body, lab, False))
            lab += 1
    prog += [("L", None, ("PH", 32768 + 4096 + 4 * 50)), ("L", None, dcb(99)),
             ("C", lab, "irp", [13107], [("L", None, dcw(13107))], lab, False), ("L", None, ("DPH",)), ("L", lab + 1, ("B",))]
    out.append(Fixed(T["68000"], prog, "labels-at-constructs-68000"))
    # upstream's tests/t_padding (`label7:` / `label8: nop`): only the most recent label is adapted - the label alone on the line
    # before a padded statement that carries a label of its own keeps the address of the pad byte
    out.append(Fixed(T["68000"], [("L", None, ("ORG", 4096)), ("L", None, dcb(1)), ("L", 1, ("B",)), ("L", 2, nop), ("L", 3, ("B",))],
                     "label-line-before-labelled-statement"))
    # structure fields behind pad bytes (repaired finding `struct-field-symbol-keeps-pad-offset`)
    q = ["1", "q"]
    out.append(Fixed(M["68000"], [("L", None, ("ORG", 4096)), ("L", None, ("ST", 1, False)),
                                  ("L", 1, ("M", ["DC", "1", "1", "-"] + q, "dc.b\t?")), ("L", 2, ("M", ["DC", "2", "1", "-"] + q, "dc.w\t?")),
                                  ("L", 3, ("M", ["DC", "1", "1", "-"] + q, "dc.b\t?")), ("L", 4, ("B",)),
                                  ("L", None, ("M", ["DC", "4", "1", "-"] + q, "dc.l\t?")), ("L", None, ("EST", 1, False)), ("L", 5, ("B",))],
                     "structure-fields-behind-pad-bytes"))
    # the same rule inside a structure: `N1: dc.b ?` / `N2:` / `N3: dc.w ?` - N2 keeps the offset of the pad byte, N3 lies behind it
    out.append(Fixed(M["68000"], [("L", None, ("ORG", 4096)), ("L", None, ("ST", 2, False)),
                                  ("L", 1, ("M", ["DC", "1", "1", "-"] + q, "dc.b\t?")), ("L", 2, ("B",)),
                                  ("L", 3, ("M", ["DC", "2", "1", "-"] + q, "dc.w\t?")), ("L", None, ("EST", 2, False)), ("L", 4, ("B",))],
                     "most-recent-label-in-structure"))
    # several reservation operands per statement (6809), inside and outside a structure
    two = ["2", "q", "q"]
    out.append(Fixed(M["6809"], [("L", None, ("ORG", 4096)),
                                 ("L", 1, ("M", ["ADR", "1", "q"], "fdb\t?")), ("L", 2, ("M", ["ADR"] + two, "fdb\t?,?")),
                                 ("L", 3, ("M", ["ADR", "1", "r3", "q"], "adr\t[3]?")),
                                 ("L", 4, ("M", ["ADR", "2", "r2", "q", "r3", "q"], "fdb\t[2]?,[3]?")),
                                 ("L", 5, ("M", ["BYT", "3", "q", "q", "q"], "fcb\t?,?,?")),
                                 ("L", 6, ("M", ["ADR", "3", "r2", "q", "q", "r2", "q"], "adr\t[2]?,?,[2]?")),
                                 ("L", 7, ("M", ["BYT", "1", "i165"], "fcb\t165")), ("L", 8, ("B",)),
                                 ("L", None, ("ST", 1, False)), ("L", 9, ("M", ["ADR", "1", "q"], "fdb\t?")),
                                 ("L", 10, ("M", ["ADR"] + two, "fdb\t?,?")), ("L", 11, ("M", ["ADR", "2", "r2", "q", "r2", "q"], "adr\t[2]?,[2]?")),
                                 ("L", 12, ("M", ["BYT", "1", "q"], "fcb\t?")), ("L", None, ("EST", 1, False)), ("L", 13, ("B",)),
                                 ("L", None, ("ST", 2, True)), ("L", 14, ("M", ["ADR"] + two, "fdb\t?,?")),
                                 ("L", 15, ("M", ["BYT", "2", "r5", "q", "q"], "fcb\t[5]?,?")), ("L", None, ("EST", 2, True)), ("L", 16, ("B",))],
                     "several-reservation-operands-6809"))
    # manual, PADDING: "by default only enabled for the 680x0 family, it has to be turned on explicitly for all other families"
    # (finding `padding-default-depends-on-cpu-history`: as.c switches it on at the start of every pass and only some code
    # generators switch it off again)
    for t, op in ((M["6809"], dcw(258)), (M["68hc08"], dcw(258)),
                  (T["msp430"], ("O", le(258, 0), "word\t258")), (T["tms9900"], ("O", le(258, 1), "word\t258"))):
        out.append(Fixed(t, [("L", None, ("ORG", 4097)), ("L", 1, op), ("L", 2, ("B",))], "padding-default:" + t["name"],
                         spec_pad0=False, sig_if_fail="padding-default-depends-on-cpu-history"))
    return out


# ------------------------------------------------------------------------------------------------ the part

def request(t, g, cal, tail):
    pad0 = cal[("m:" if t in MT else "") + t["name"]]["pad0"]
    ptok = "1" if pad0 else "0"
    if getattr(g, "spec_pad0", None) is not None:
        ptok += "/" + ("1" if g.spec_pad0 else "0")
    head = [t["key"], str(t["big"]), str(t["mturn"]), ptok, "1" if cal["fix_struct"] else "0", t.get("hdr", "-"),
            str(len(g.prog))]
    for n in g.prog:
        head += ser_node(n)
    return " ".join(head) + " | " + tail


def construct_labels(nodes, acc):
    for n in nodes:
        if n[0] == "C":
            if n[1] is not None:
                acc.add(str(n[1]))
            construct_labels(n[4], acc)
    return acc


def labels_before_constructs(nodes, acc):
    for k, n in enumerate(nodes):
        if n[0] == "C":
            if k > 0 and nodes[k - 1][0] == "L" and nodes[k - 1][2][0] == "B" and nodes[k - 1][1] is not None:
                acc.add(str(nodes[k - 1][1]))
            labels_before_constructs(n[4], acc)
    return acc


def run_part(args, bdir, wd, ok):
    rng = common.rng_for(args.seed, "C10L")
    thorough = args.tier != "quick"
    n_con = 9000 if thorough else 600
    n_moto = 9000 if thorough else 600
    stats, mstats, dist = Counter(), Counter(), Counter()
    spec_fail, corr_fail, samples, problems = [], [], [], []
    distinct = set()
    agg = Counter()
    if not ok:
        return dict(spec_fail=[], corr_fail=[], evaluations=0, distinct=distinct, dist=dist, stats=stats, mstats=mstats, samples=[],
                    problems=[], agg=agg)
    cal, problems = calibrate(bdir, wd)
    progs = hand_programs(cal)
    cw = [t["weight"] for t in CT]
    for _ in range(n_con):
        t = rng.choices(CT, cw)[0]
        progs.append(ConGen(rng, t, cal, stats).build())
    mw = [t["weight"] for t in MT]
    for _ in range(n_moto):
        t = rng.choices(MT, mw)[0]
        progs.append(MotoGen(rng, t, cal, mstats).build())
    reqs, metas = [], []
    for idx, g in enumerate(progs):
        src, lmap = render(g.t, g.prog, two_pass=(idx % 2 == 1))
        tail, info = observe(bdir, wd, idx, src, lmap)
        reqs.append(request(g.t, g, cal, tail))
        metas.append((g, src, info))
    answers = common.driver("c10l", reqs, timeout=3600) if reqs else []
    for (g, src, info), req, ans in zip(metas, reqs, answers):
        kv = dict(x.split("=", 1) for x in ans.split() if "=" in x)
        t = g.t
        fam = "reservations" if isinstance(g, MotoGen) or (isinstance(g, Fixed) and t in MT) else "constructs"
        if "model" not in kv:
            problems.append("driver (c10l): %s for %s" % (ans, req[:200]))
            continue
        agg["programs"] += 1
        agg["programs:" + fam] += 1
        agg["lines_as_the_assembler_sees_them"] += int(kv.get("lines", 0))
        agg["symbols_judged_by_spec"] += int(kv.get("judged", 0))
        dist["l-target:%s:%s" % (fam, t["name"])] += 1
        dist["l-stop:" + kv.get("stop", "?").split("@")[0]] += 1
        moved = lambda key: set() if kv.get(key, "-") == "-" else set(kv[key].split(","))   # noqa: E731
        own, before, keptlab = moved("own"), moved("before"), moved("keptlab")
        agg["labels_moved_behind_a_pad_byte:own_line"] += len(own)
        agg["labels_moved_behind_a_pad_byte:line_before"] += len(before)
        agg["labels_kept_at_the_pad_byte:line_before_a_labelled_line"] += len(keptlab)
        if fam == "constructs":
            cl = construct_labels(g.prog, set())
            bl = labels_before_constructs(g.prog, set())
            agg["labels_on_construct_lines"] += len(cl)
            agg["labels_on_construct_lines_moved_behind_a_pad_byte"] += len(cl & before)
            agg["labels_alone_before_construct_lines"] += len(bl)
            agg["labels_alone_before_construct_lines_moved_behind_a_pad_byte"] += len(bl & before)
            if cl & before or bl & before:
                distinct.add(req.split(" | ")[0])
        else:
            if kv.get("stop") == "end":
                distinct.add(req.split(" | ")[0])
        if kv.get("cells") == "eq":
            agg["code_files_compared_with_spec_cells"] += 1
        # on how many of the programs the refinement theorem C10_lab_refine speaks (its precondition `Pre`, evaluated by the driver)
        agg["programs_meeting_the_precondition_of_C10_lab_refine:" + kv.get("pre", "?")] += 1
        if kv.get("pre") == "yes" and kv.get("stop") == "end":
            agg["programs_meeting_the_precondition_of_C10_lab_refine_and_judged_to_the_end"] += 1
        if len(samples) < 4 and kv.get("spec") == "ok" and kv.get("stop") == "end" and (own or before) and len(src) < 1500 and \
                sum(1 for s in samples if s["family"] == fam) < 2:
            samples.append(dict(family=fam, target=t["name"], source=src, verdict=ans))
        short_req = req if len(req) < 60000 else req[:60000]
        tag = "%s:%s" % (fam, t["name"])
        if kv.get("spec") != "ok" or kv.get("cells") == "ne":
            why = kv.get("swhy") if kv.get("spec") != "ok" else "cells-of-the-code-file-differ-from-the-spec's-addresses"
            sig = kv.get("sig", "-")
            if sig == "-" and getattr(g, "sig_if_fail", None) and kv.get("model") == "eq" and str(kv.get("swhy", "")).startswith("label@"):
                sig = g.sig_if_fail
            spec_fail.append(dict(tag=tag, why="labels / addresses the manual demands (Spec/AddrLab.lean) vs real asl: " + str(why),
                                  sig=None if sig == "-" else sig, source=src, request=short_req, answer=ans, mode="c10l"))
        if kv.get("model") != "eq" or (kv.get("stop") == "end" and kv.get("mstop") != "end"):
            corr_fail.append(dict(tag=tag, why="Lean model of Produce_Code's label part / InsertPadding / the Motorola pseudo-ops (Model/AddrLab.lean) "
                                               "vs real asl: %s mstop=%s" % (kv.get("mwhy"), kv.get("mstop")),
                                  source=src, request=short_req, answer=ans, asl=info, mode="c10l"))
    return dict(spec_fail=spec_fail, corr_fail=corr_fail, evaluations=agg["programs"], distinct=distinct, dist=dist, stats=stats, mstats=mstats,
                samples=samples, problems=problems, agg=agg, calibration=dict(fix_struct=cal.get("fix_struct"),
                                                                               padding_default={k: v.get("pad0") for k, v in cal.items() if isinstance(v, dict)}))
