"""C15, third target: TLCS-870 (asl `cpu 87C00/87C20/87C40/87C70`, dasl `-cpu 87C00`; code87c800.c <-> deco87c800.c).

Called from c15.run (`run_part`).  Parts:
 * inventory  - which statements code87c800.c accepts: every mnemonic of InitFields() (translator) x 0/1/2 operands out of a list of
                operand spellings (+ the statements of tests/t_87c800/t_87c800.asm); the real asl decides which are valid
 * pool       - concrete statements (random operand values incl. boundaries) assembled by the real asl: bytes and length of each
 * programs   - random valid programs (pool statements, jrs/jr/jp/call/callp/callv into the image, data behind jp/jr, org gaps, vector
                table), assembled by the real asl, loaded by the real dasl via -binfile/-hexfile with 1..4 entry addresses; SPEC
                (Spec/Dis.lean, driver mode `c15_87 run`) on the real output and the real re-assembly; model against the real output
 * statements - every pool statement on a raster, each one an entry address: the text dasl prints for it is re-assembled by the real
                asl on its own (labels by equ) and must give the bytes back (C); M87C.disassemble against the real line (B)
 * sweep      - all first bytes x second bytes (x sampled further bytes) on a raster: M87C.disassemble / the whole listing against the
                real dasl (B)
 * top        - raw images at the end of the address space (probe_top87): RetrieveData of deco87c800.c ends with 0FFFFh (repaired), the
                model against the real listing (B), the reported areas inside the image (C; theorem C15_87c_honest_at)
Known defects of deco87c800.c are handled as labelled harness rewrites of dasl's text (so that the rest of a listing is still checked)
and reported with a signature by input class (`deco87c800-...`)."""
import json
import os
import re

from .. import common
from ..common import log

REG8 = "a w c b e d l h".split()
REG16 = "wa bc de hl".split()

# operand spellings tried by the inventory: (class, text with placeholders)
#   {n8} byte address, {d} signed displacement with sign, {i4} {i8} {i16} immediates, {b} bit number
OPERANDS = ([("r8", r) for r in REG8] + [("r16", r) for r in REG16] +
            [("sp", "sp"), ("psw", "psw"), ("rbs", "rbs"), ("cf", "cf"),
             ("abs", "({n8})"), ("mem", "(hl)"), ("mem", "(de)"), ("mem", "(hl+)"), ("mem", "(-hl)"), ("mem", "(hl{d})"),
             ("mem", "(hl+c)"), ("mem", "(c+hl)"), ("mem", "(pc+a)"), ("mem", "(a+pc)"),
             ("imm", "{i4}"), ("imm", "{i8}"), ("imm", "{i16}"),
             ("bit", "a.{b}"), ("bit", "d.{b}"), ("bit", "({n8}).{b}"), ("bit", "(hl).{b}"), ("bit", "(de).{b}"), ("bit", "(hl+).{b}"),
             ("bit", "(-hl).{b}"), ("bit", "(hl{d}).{b}"), ("bit", "(hl+c).{b}"), ("bit", "(pc+a).{b}"),
             ("bitr", "(de).c"), ("bitr", "(hl).b"), ("bitr", "(de).a"), ("bitr", "(hl).h")])

PROBE_VALUES = {"n8": "12h", "d": "+5", "i4": "7", "i8": "55h", "i16": "1234h", "b": "3"}

JUMP_MNEMONICS = {"jrs", "jr", "jp", "call", "callv", "callp"}     # handled by the program generator (targets inside the image)


def fill(text, rng=None):
    """replace the placeholders: representative values (rng None) or random ones incl. boundaries"""
    def val(m):
        k = m.group(1)
        if rng is None:
            return PROBE_VALUES[k]
        if k == "n8":
            v = rng.choice([0, 1, 0x7f, 0x80, 0x9f, 0xa0, 0xff, rng.randrange(256)])
            return "%d" % v if rng.random() < 0.3 else "0%02xh" % v
        if k == "d":
            v = rng.choice([1, -1, 127, -128, 9, 10, -9, -10, 99, 100, -99, -100, rng.randrange(1, 128), -rng.randrange(1, 129)])
            return "%+d" % v
        if k == "i4":
            return "%d" % rng.choice([0, 1, 9, 10, 15, rng.randrange(16)])
        if k == "i8":
            v = rng.choice([0, 1, 9, 10, 0x7f, 0x80, 0x99, 0x9a, 0xa0, 0xff, rng.randrange(256)])
            return "%d" % v if rng.random() < 0.3 else "0%02xh" % v
        if k == "i16":
            v = rng.choice([0x100, 0x1ff, 0x999, 0x9fff, 0xa000, 0x7fff, 0x8000, 0xfeff, 0xff00, 0xffff, rng.randrange(0x100, 0x10000)])
            return "0%04xh" % v
        if k == "b":
            return "%d" % rng.randrange(8)
        raise KeyError(k)
    return re.sub(r"\{(\w+)\}", val, text)


ASLERR_RE = re.compile(r"\((\d+)\)(?::\d+)?\s*:\s*error")


def asl_lines_ok(bdir, wd, name, lines, head=("\tcpu\t87c00",)):
    """assemble `lines` (one statement each) in one source; returns (set of rejected 0-based indices, memory | None, diagnostics).
    asl writes no code file when there is any error; memory is only returned for an error-free run."""
    src = list(head) + list(lines)
    f = os.path.join(wd, name + ".asm")
    open(f, "wb").write(("\n".join(src) + "\n").encode("latin-1"))
    pf = os.path.join(wd, name + ".p")
    if os.path.exists(pf):
        os.unlink(pf)
    rc, so, se = common.run_tool(bdir, "asl", ["-q", f, "-o", pf], wd, timeout=300)
    txt = (so + se).decode("latin-1")
    bad = {int(m.group(1)) - 1 - len(head) for m in ASLERR_RE.finditer(txt)}
    bad = {b for b in bad if 0 <= b < len(lines)}
    mem = None
    if rc == 0 and os.path.exists(pf):
        from . import c15
        mem = c15.mem_of_pfile(pf)
    return bad, mem, txt


def test_statements():
    """(mnemonic, operand text) of the statement lines of tests/t_87c800/t_87c800.asm (outside expect blocks, without the jumps to labels)"""
    out = []
    p = os.path.join(common.REPO, "tests", "t_87c800", "t_87c800.asm")
    if not os.path.exists(p):
        return out
    skip = False
    for line in open(p, encoding="latin-1"):
        t = line.split(";")[0].rstrip()
        w = t.split()
        if not w:
            continue
        if w[0] == "expect":
            skip = True
            continue
        if w[0] == "endexpect":
            skip = False
            continue
        if skip or not t[0].isspace() or w[0] in ("cpu", "include", "page", "org"):
            continue
        if w[0] in JUMP_MNEMONICS and "targ" in t:
            continue
        out.append((w[0], "".join(w[1:])))
    return out


def inventory(bdir, wd):
    """[(mnemonic, operand pattern)] of the statement shapes the current asl accepts for CPU 87C00 (cached in the build directory,
    which is keyed by the source hash)"""
    import hashlib
    version = "5-" + hashlib.sha1(repr((OPERANDS, sorted(PROBE_VALUES.items()), test_statements())).encode()).hexdigest()[:12]
    cache = os.path.join(bdir, "c15_87c_shapes.json")
    if os.path.exists(cache):
        try:
            d = json.load(open(cache))
            if d.get("version") == version:
                return [tuple(x) for x in d["shapes"]], d["stats"]
        except (ValueError, KeyError):
            pass
    from translate import tables
    insts, _conds = tables.isa87c_calls(bdir)
    memos = [n.lower() for n, _c, _f in insts]
    cand = []
    for m in memos:
        cand.append((m, ""))
        for _k, a in OPERANDS:
            cand.append((m, a))
        for _k, a in OPERANDS:
            for _k2, b in OPERANDS:
                cand.append((m, a + "," + b))
    # conditions of jr/jrs are exercised by the program generator; statements of the golden test in their own spelling
    cand += test_statements()
    cand = list(dict.fromkeys(cand))
    shapes = cand
    for _round in range(5):
        # asl stops after the pass that produced errors, and undefined symbols are only reported in the last pass: repeat until clean
        lines = ["\t%s\t%s" % (m, fill(a)) for m, a in shapes]
        bad, mem, txt = asl_lines_ok(bdir, wd, "inv", lines)
        if mem is not None:
            break
        if not bad:
            raise RuntimeError("87C800 inventory: asl reports errors without usable positions: " + txt[-300:])
        shapes = [c for i, c in enumerate(shapes) if i not in bad]
    else:
        raise RuntimeError("87C800 inventory: asl still reports errors after five rounds")
    stats = dict(candidates=len(cand), accepted=len(shapes), mnemonics=len(memos),
                 mnemonics_accepted=len({m for m, _a in shapes}))
    json.dump(dict(version=version, shapes=shapes, stats=stats), open(cache, "w"))
    return shapes, stats


# Five defects of deco87c800.c have been repaired in /repo (label + `h`, `alu r,n` without `h`, register name taken from the opcode,
# endless loop at inv16 / returns with a successor, `dw` without leading zero).  The harness rewrites and the classes below stay, so that
# the rest of a listing is still compared when one of them comes back - but their signatures are no longer known findings: a
# regression is reported as a VIOLATION with the failing input.
REG16_CLASS_RE = re.compile(r"^(sp,(wa|bc|de|hl)|(wa|bc|de|hl),sp)$")


def reg16_class(m, a):
    """statements of the class `ld sp,rr` / `ld rr,sp` / `call rr` / `jp rr` (always part of the statement sweep, and of one feature program)"""
    a = a.replace(" ", "").lower()
    return (m == "ld" and bool(REG16_CLASS_RE.match(a))) or (m in ("call", "jp") and a in REG16)


def known_bad_statement(m, a):
    """signature of a statement deco87c800.c is known to print wrongly: none at present"""
    return None


# no successor address in deco87c800.c: jp, the returns (since the repair), and `ld (hl),<mem>` (memory prefix 27, still so)
TERMINAL_FOR_DASL = re.compile(r"^\s*(jp\s|ret\b|reti\b|retn\b|ld\s+\(hl\),\()", re.I)


def pool_shape(m, a):
    """statement shapes of the pool (jumps to absolute numbers are left to the program generator: targets inside the image)"""
    return not (m in ("jrs", "jr", "callv", "callp") or (m in ("jp", "call") and not re.search(r"[(]|^(wa|bc|de|hl)$", a)))


def build_pool(bdir, wd, rng, shapes, per_shape, name="pool"):
    """concrete statements with the bytes the real asl makes of them: [dict(m, a, text, bytes, sig)]"""
    stm = []
    for m, a in shapes:
        if not pool_shape(m, a):
            continue
        k = per_shape if "{" in a else 1
        seen = set()
        for _ in range(k):
            t = fill(a, rng)
            if t not in seen:
                seen.add(t)
                stm.append((m, t))
    return assemble_pool(bdir, wd, stm, name)


def assemble_pool(bdir, wd, stm, name):
    """[(mnemonic, operand text)] -> [dict(m, a, text, bytes, sig, reg16, idx)] for the statements asl accepts (idx = position in stm)"""
    out = []
    for start in range(0, len(stm), 6000):
        part = [(start + i, m, t) for i, (m, t) in enumerate(stm[start:start + 6000])]
        for attempt in range(3):
            lines = ["\torg\t0"] + ["P%d:\t%s\t%s" % (i, m, t) for i, (_x, m, t) in enumerate(part)] + ["P%d:" % len(part)]
            for i in range(0, len(part) + 1, 16):
                lines.append("\tdw\t" + ",".join("P%d" % j for j in range(i, min(i + 16, len(part) + 1))))
            bad, mem, txt = asl_lines_ok(bdir, wd, name, lines)
            if mem is not None:
                break
            bad = {b - 1 for b in bad if 1 <= b <= len(part)}
            if not bad:
                raise RuntimeError("87C800 pool: asl fails without usable error positions: " + txt[-300:])
            part = [s for i, s in enumerate(part) if i not in bad]
        else:
            raise RuntimeError("87C800 pool: asl still reports errors after removing the rejected statements")
        flat = {}
        for st, d in mem:
            for i, x in enumerate(d):
                flat[st + i] = x
        end = max(flat) + 1
        tab = end - 2 * (len(part) + 1)
        addrs = [flat[tab + 2 * i] | (flat[tab + 2 * i + 1] << 8) for i in range(len(part) + 1)]
        if addrs[0] != 0 or addrs[-1] != tab:
            raise RuntimeError("87C800 pool: address table not found at the end of the code")
        for i, (idx, m, t) in enumerate(part):
            bs = bytes(flat[x] for x in range(addrs[i], addrs[i + 1]))
            if not bs:
                continue
            out.append(dict(m=m, a=t, text="\t%s\t%s" % (m, t) if t else "\t%s" % m, bytes=bs, sig=known_bad_statement(m, t), reg16=reg16_class(m, t), idx=idx))
    return out


def synth_boundary_pool(bdir, wd, shapes):
    """instructions with the boundary values 0 and 255 of a direct address, as BYTES: every shape with a `({n8})` operand is assembled with
    the addresses 1 and 2, the one byte that differs is the address byte, and the instruction for the boundary value is that image with
    the byte replaced.  The bytes do not depend on whether asl accepts the boundary value in a source text (it used to reject the
    address 0); in a program they are written as `db`, dasl has to list them as the instruction and asl has to take that listing.
    -> pool entries with `synth` set (text = the db line, stmt = the statement the bytes stand for)"""
    sh = [(m, a) for m, a in shapes if pool_shape(m, a) and a.count("{n8}") == 1]
    def inst(a, v):
        return fill(a.replace("{n8}", v))
    stm = [(m, inst(a, "1")) for m, a in sh] + [(m, inst(a, "2")) for m, a in sh]
    res = {p["idx"]: p["bytes"] for p in assemble_pool(bdir, wd, stm, "synth")}
    out = []
    for k, (m, a) in enumerate(sh):
        b1, b2 = res.get(k), res.get(len(sh) + k)
        if b1 is None or b2 is None or len(b1) != len(b2):
            continue
        diff = [i for i in range(len(b1)) if b1[i] != b2[i]]
        if len(diff) != 1 or (b1[diff[0]], b2[diff[0]]) != (1, 2):
            continue
        for v in (0, 255):
            bs = bytes(b1[:diff[0]]) + bytes([v]) + bytes(b1[diff[0] + 1:])
            t = inst(a, "%d" % v)
            out.append(dict(m=m, a=t, text="\tdb\t" + ",".join("%d" % x for x in bs), stmt="\t%s\t%s" % (m, t), bytes=bs, sig=None,
                            reg16=False, synth=True))
    return out


# --------------------------------------------------------------------------
# programs

CONDS = "t f eq z ne nz cs lt cc ge le gt".split()


def _i(kind, size, text=None, **kw):
    d = dict(kind=kind, size=size, text=text)
    d.update(kw)
    return d


def gen_87c(rng, pool, feature=None):
    """a valid program: blocks of pool statements and jumps, every block ends in something dasl treats as terminal
    (jp / jr / ret / reti / retn); data may follow any of them"""
    feats = set()
    clean = [p for p in pool if p["sig"] is None and not TERMINAL_FOR_DASL.match(p.get("stmt", p["text"])) and p["m"] not in ("jp",)]
    term_ind = [p for p in pool if p["m"] == "jp" and p["sig"] is None and not p.get("synth")]
    items = []
    high = feature in ("callv", "callp")
    nblocks = rng.randrange(1, 8) if not high else rng.randrange(1, 4)
    for b in range(nblocks):
        items.append(_i("blockstart", 0))
        for _ in range(rng.randrange(1, 14)):
            r = rng.random()
            if high and r < 0.15:
                items.append(_i("callv", 1, vec=rng.randrange(16)) if feature == "callv" else _i("callp", 2))
            elif r < 0.62:
                p = rng.choice(clean)
                items.append(_i("plain", len(p["bytes"]), p["text"]))
                if p.get("synth"):
                    feats.add("synth-boundary")
            elif r < 0.72:
                items.append(_i("jrs", 1, cond=rng.choice(["t", "f"])))
            elif r < 0.86:
                items.append(_i("jr", 2, cond=rng.choice(CONDS)))
            else:
                items.append(_i("call", 3))
        if feature == "reg16" and b == 0:
            p = rng.choice([p for p in pool if p.get("reg16") and p["m"] == "ld"])
            items.append(_i("plain", len(p["bytes"]), p["text"]))
            feats.add("reg16")
        if feature == "ld-hl-mem" and b == 0:
            cand = [p for p in pool if TERMINAL_FOR_DASL.match(p["text"]) and p["m"] == "ld" and not p.get("synth")]
            if cand:
                p = rng.choice(cand)
                items.append(_i("plain", len(p["bytes"]), p["text"]))
                items.append(_i("plain", 1, "\tnop"))
                feats.add("ld-hl-mem")
        t = rng.random()
        last = b == nblocks - 1
        if t < 0.35:
            items.append(_i("jrt", 2))
        elif t < 0.65 or last:
            items.append(_i("jpt", 3))
        elif t < 0.8 and term_ind:
            p = rng.choice(term_ind)
            items.append(_i("plain", len(p["bytes"]), p["text"]))
        else:
            items.append(_i("plain", 1, "\t" + rng.choice(["ret", "reti"])) if rng.random() < 0.8 else _i("plain", 2, "\tretn"))
        if rng.random() < 0.45:
            n = rng.randrange(1, 5)
            items.append(_i("data", n, "\tdb\t%s" % ",".join(str(rng.randrange(256)) for _ in range(n))))
            feats.add("embedded-data")
        if rng.random() < 0.3:
            items.append(_i("gap", rng.randrange(3, 40)))
            feats.add("gap")
    if feature == "call-outside":
        # a call of a routine that is not part of the image (monitor ROM, another module): valid program
        items.insert(1, _i("plain", 3, "\tcall\t0%04xh" % rng.choice([0x0040, 0x2345, 0xd000])))
        feats.add("call-outside")
    if feature == "ret-data":
        # a data table directly behind `ret` whose bytes have the shape that used to send deco87c800.c into the loop at inv16
        items.append(_i("blockstart", 0))
        items.append(_i("plain", 1, "\tnop"))
        items.append(_i("plain", 1, "\tret"))
        items.append(_i("data", 3, "\tdb\t0ech,02h,05h"))
        feats.add("ret-data")
    if feature == "callp":
        start = rng.choice([0xfec0, 0xfee0, 0xfef8])
    elif high:
        start = rng.choice([0xfe00, 0xfe80, 0xfef0])
    else:
        start = rng.choice([0x100, 0x1000, 0x7ff0, 0x8000, 0xc000, 0xe000, 0xf800])
    addr = start
    for it in items:
        it["addr"] = addr
        addr += it["size"]
    if high and addr > 0xffc0:
        return gen_87c(rng, pool, feature)
    starts = [it["addr"] for it in items if it["kind"] not in ("data", "gap", "blockstart")]
    bstarts = list(dict.fromkeys(it["addr"] for it in items if it["kind"] == "blockstart"))
    used = set()

    def pick(lo=None, hi=None):
        c = [a for a in starts if (lo is None or a >= lo) and (hi is None or a <= hi)]
        if not c:
            return None
        a = rng.choice(c)
        used.add(a)
        return a

    vectors = {}
    jumps = []          # (address, mnemonic, condition | None, target value / vector number): checked against A87C.encode
    for it in items:
        k, a = it["kind"], it["addr"]
        if k == "jrs":
            t = pick(a + 2 - 16, a + 2 + 15)
            it["text"] = "\tjrs\t%s,%s" % (it["cond"], "L%04X" % t if t is not None else "$")
            jumps.append((a, "jrs", it["cond"], a if t is None else t, 1, it["text"], None if t is None else "L%04X" % t))
        elif k == "jr":
            t = pick(a + 2 - 128, a + 2 + 127)
            it["text"] = "\tjr\t%s,%s" % (it["cond"], "L%04X" % t if t is not None else "$")
            jumps.append((a, "jr", it["cond"], a if t is None else t, 2, it["text"], None if t is None else "L%04X" % t))
        elif k == "jrt":
            t = pick(a + 2 - 128, a + 2 + 127)
            it["text"] = "\tjr\t%s" % ("L%04X" % t if t is not None else "$")
            jumps.append((a, "jr", None, a if t is None else t, 2, it["text"], None if t is None else "L%04X" % t))
        elif k == "jpt":
            t = pick()
            it["text"] = "\tjp\tL%04X" % t
            jumps.append((a, "jp", None, t, 3, it["text"], "L%04X" % t))
        elif k == "call":
            t = pick(None, 0xfeff)
            if t is None:
                it["text"] = "\tld\tsp,01234h"
            else:
                it["text"] = "\tcall\tL%04X" % t
                jumps.append((a, "call", None, t, 3, it["text"], "L%04X" % t))
        elif k == "callp":
            t = pick(0xff00, None)
            if t is None:
                it["text"], it["size"] = "\tinc\t(12h)", 2
            else:
                it["text"] = "\tcallp\tL%04X" % t
                feats.add("callp")
                if t > a and a < 0xff00:
                    feats.add("callp-forward")      # a forward label, used from outside the pages 00/FF
                    if rng.random() < 0.5:
                        # the same call with the target as a number: the source then does not depend on how asl treats the forward
                        # label, only the listing dasl makes of the image does (it always prints a label)
                        it["text"] = "\tcallp\t0%04xh" % t
                        feats.add("callp-forward-numeric")
                        jumps.append((a, "callp", None, t, 2, None, None))
                        continue
                jumps.append((a, "callp", None, t, 2, it["text"], "L%04X" % t))
        elif k == "callv":
            v = it["vec"]
            if v not in vectors:
                vectors[v] = pick()
            it["text"] = "\tcallv\t%d" % v
            feats.add("callv")
            jumps.append((a, "callv", None, v, 1, it["text"], "-"))
    lines = []
    seen = set()
    for it in items:
        k = it["kind"]
        if k == "gap":
            lines.append("\torg\t%d" % (it["addr"] + it["size"]))
            continue
        if k == "blockstart":
            from . import c15
            lines.append(c15.BLOCK_MARK + str(it["addr"]))
            continue
        lab = ""
        if it["addr"] in used and k != "data" and it["addr"] not in seen:
            lab = "L%04X:" % it["addr"]
            seen.add(it["addr"])
        lines.append(lab + it["text"])
    if feature == "callv":
        # the whole vector table is part of the image (deco87c800.c reads the vector while decoding callv)
        lines.append("\torg\t0ffc0h")
        lines.append("\tdw\t" + ",".join("%d" % (vectors.get(v, starts[0])) for v in range(16)))
        feats.add("vector-table")
    vec = []
    if feature in ("vector", "vector-named"):
        vaddr = (addr + rng.randrange(2, 20)) if not high else 0xffe0
        tg = [rng.choice(bstarts) for _ in range(rng.randrange(1, 3) if feature == "vector" else rng.randrange(2, 4))]
        lines.append("\torg\t%d" % vaddr)
        lines.append("\tdw\t%s" % ",".join("%d" % t for t in tg))
        if feature == "vector":
            vec = [("v", vaddr + 2 * i, 2, "L") for i in range(len(tg))]
        else:
            # `<vector>,<name>`: the cell is printed as `dw` (label Vector_2_<name>); an unnamed cell behind it inherits the size
            vec = [("v", vaddr + 2 * i, 2, "L", "ent%d" % i) if (i == 0 or rng.random() < 0.5) else ("v", vaddr + 2 * i, 2, "L")
                   for i in range(len(tg))]
            feats.add("vector-named")
        feats.add("vector")
    if vec:
        entries = vec + [("d", a) for a in rng.sample(bstarts, min(len(bstarts), rng.randrange(0, 3)))]
    else:
        entries = [("d", bstarts[0])] + [("d", a) for a in rng.sample(bstarts, min(len(bstarts), rng.randrange(0, 4))) if a != bstarts[0]]
    if feature == "ret-data":
        entries = entries[:3] + [("d", bstarts[-1])]      # the block with the data table behind `ret` must be reached
    src = "\tcpu\t87c00\n\torg\t%d\n" % start + "\n".join(lines) + "\n"
    return dict(cpu="87C00", asmcpu="87C00", source=src, entries=list(dict.fromkeys(entries)), feats=feats, jumps=jumps)


# --------------------------------------------------------------------------
# harness rewrites of dasl's text for the known defects of deco87c800.c (each one is reported when it was needed)

LABEL_H_RE = re.compile(rb"\b((?:lab|sub|subv)_[0-9A-Fa-f]{4})h\b")
# register prefix, opcodes 70..77: `<alu>\t<r8>,<hex digits>` without the `h` (first-level `alu a,..h` and all other forms carry it)
# (`00`..`09` read the same in both radices and are left alone)
IMM_NOH_RE = re.compile(rb"^((?:[A-Za-z_][A-Za-z0-9_]*:)?\t+(?:addc|add|subb|sub|and|xor|or|cmp)\t[awcbedlh],)(?!0[0-9](?:\t|$))([0-9][0-9A-Fa-f]*)(?=\t|$)", re.M)
# `dw` of a vector cell whose value has a letter as first hex digit: no leading zero (MakeSymbolic tests isdigit the wrong way round)
DW_NOZERO_RE = re.compile(rb"^((?:[A-Za-z_][A-Za-z0-9_]*:)?\t+dw\t)([A-Fa-f][0-9A-Fa-f]{3}[hH])(?=\t|$)", re.M)


def rewrite_text(txt, names=()):
    """-> (rewritten text, [names of the rewrites that changed something]); `names`: symbol names given on dasl's command line"""
    rew = []
    t2 = LABEL_H_RE.sub(lambda m: m.group(1), txt)
    if names:
        t2 = re.sub(rb"\b(" + b"|".join(re.escape(n.encode()) for n in names) + rb")h\b", lambda m: m.group(1), t2)
    if t2 != txt:
        rew.append("label-h-suffix-removed")
    t3 = IMM_NOH_RE.sub(lambda m: m.group(1) + m.group(2) + b"h", t2)
    if t3 != t2:
        rew.append("imm8-h-suffix-added")
    t4 = DW_NOZERO_RE.sub(lambda m: m.group(1) + b"0" + m.group(2), t3)
    if t4 != t3:
        rew.append("dw-leading-zero-added")
    return t4, rew


REWRITE_SIG = {"label-h-suffix-removed": "deco87c800-label-h-suffix", "imm8-h-suffix-added": "deco87c800-imm8-without-h",
               "dw-leading-zero-added": "deco87c800-dw-without-leading-zero"}


# a jump/call line of a listing whose operand is a label dasl invented (value = the hex digits of its name), or callv <n>
PRINTED_JUMP_RE = re.compile(r"^(jrs|jr|jp|call|callp|callv)\t(?:(?:([a-z]+),)?((?:lab|sub|subv)_([0-9A-Fa-f]{4}))|(\d+)\t ; .*)$")


def chunks_txt(cs):
    return "%d %s" % (len(cs), " ".join("%d %s" % (a, bytes(d).hex() or "-") for a, d in cs)) if cs else "0"


def run_dasl(bdir, args, wd, timeout, env=None, max_out=32 << 20):
    """dasl with stdout/stderr in files and a size limit: a listing that repeats a zero-length line forever must not fill the memory.
    -> (status, stdout, stderr) like common.run_tool; status 'timeout' also when the output limit is hit"""
    import subprocess
    import time
    of, ef = os.path.join(wd, "dasl.out"), os.path.join(wd, "dasl.err")
    with open(of, "wb") as fo, open(ef, "wb") as fe:
        p = subprocess.Popen([os.path.join(bdir, "dasl")] + list(args), cwd=wd, env=common.tool_env(bdir, env), stdout=fo, stderr=fe,
                             stdin=subprocess.DEVNULL)
        t0 = time.time()
        status = None
        while True:
            try:
                status = p.wait(timeout=0.05 if time.time() - t0 > 0.2 else 0.005)
                break
            except subprocess.TimeoutExpired:
                if time.time() - t0 > timeout or os.path.getsize(of) > max_out or os.path.getsize(ef) > max_out:
                    p.kill()
                    p.wait()
                    status = "timeout"
                    break
    so = open(of, "rb").read(max_out)
    se = open(ef, "rb").read(max_out)
    return status, so, se


def run_case(bdir, wd, idx, case, load, lower, timeout=20):
    from . import c15
    base = "t%d" % idx
    mem, err = c15.asm(bdir, wd, base, case["source"])
    if mem is None:
        return dict(genfail="generator produced source asl rejects: " + err[-300:])
    pf = os.path.join(wd, base + ".p")
    hexinfo = {}
    if load == "bin":
        bf = os.path.join(wd, base + ".bin")
        rc, so, se = common.run_tool(bdir, "p2bin", [pf, bf, "-q"], wd)
        if rc != 0:
            return dict(genfail="p2bin failed: %s" % (so + se)[-200:])
        start = min(m[0] for m in mem)
        image = [(start, open(bf, "rb").read())]
        loadargs = ["-binfile", "%s@%d" % (bf, start)]
    else:
        hf, image, hexinfo, err = c15.make_hexfile(bdir, wd, base, pf, mem, load, case)
        if hf is None:
            return dict(genfail=err)
        loadargs = ["-hexfile", hf]
    eargs, etoks, names = [], [], []
    for e in case["entries"]:
        if e[0] == "d":
            eargs += ["-entryaddress", str(e[1])]
            etoks.append("d:%d" % e[1])
        else:
            nm = e[4] if len(e) > 4 else None
            eargs += ["-entryaddress", "(%d,%d,%s)%s" % (e[1], e[2], "MSB" if e[3] == "M" else "LSB", "," + nm if nm else "")]
            etoks.append("v:%d:%d:%s%s" % (e[1], e[2], e[3], ":" + nm if nm else ""))
            if nm:
                names.append(nm)
    args = (["-h"] if lower else []) + ["-cpu", case["cpu"]] + loadargs + eargs
    rc, so, se = run_dasl(bdir, args, wd, timeout)
    info = dict(cpu87c=True, dasl_args=[os.path.basename(a) if os.path.isabs(a) else re.sub(r"^/.*/", "", a) for a in args], dasl_rc=rc,
                source=case["source"], load=load, src_order=case.get("src_order", "ascending"), feats=sorted(case["feats"]),
                dasl_stdout=so.decode("latin-1")[:6000], dasl_stderr=se.decode("latin-1")[:600], **hexinfo)
    imgtok = image if isinstance(image, str) else chunks_txt(image)
    if hexinfo:
        image = c15.chunks_of_ihex(hexinfo["hexfile_text"])      # harness plumbing below (jump lines, attribution)
        info["split_instruction"] = c15.split_instruction(image, parse_listing(so)) if rc != "timeout" else None
    if rc == "timeout":
        req = "run %d %s %d %s timeout - - none" % (1 if lower else 0, imgtok, len(etoks), " ".join(etoks))
        return dict(req=req, info=info, timeout=True, unchanged_ok=False, rewritten_ok=False, rewrites=[])
    if isinstance(rc, int) and rc < 0:
        return dict(crash="dasl status %s" % rc, info=info)
    re1, err1 = c15.asm(bdir, wd, base + "_r", so, case["asmcpu"])
    info["reasm_unchanged"] = "ok" if re1 is not None else "rejected: " + err1[-300:]
    rewrites, re2 = [], re1
    if re1 is None:
        txt, rewrites = rewrite_text(so, names)
        if rewrites:
            re2, err2 = c15.asm(bdir, wd, base + "_r2", txt, case["asmcpu"])
            info["reasm_rewritten"] = "ok" if re2 is not None else "rejected: " + err2[-300:]
    elif IMM_NOH_RE.search(so):
        # accepted, but `or c,55` is decimal 55: the bytes will differ; rewrite so that the rest is compared
        txt, rewrites = rewrite_text(so, names)
        re2, err2 = c15.asm(bdir, wd, base + "_r2", txt, case["asmcpu"])
        info["reasm_rewritten"] = "ok" if re2 is not None else "rejected: " + err2[-300:]
    info["rewrites"] = rewrites
    flat = {}
    for st_, d_ in mem:
        for i_, x_ in enumerate(d_):
            flat[st_ + i_] = x_
    jreqs = []
    for a, memo, cond, t, n, text, label in case.get("jumps", []):
        bs = bytes(flat.get(a + i, 0) for i in range(n))
        tail = " %s %s" % (text.strip("\t").encode("latin-1").hex(), label) if (text and label) else ""
        jreqs.append(("jmp %d %s %s %d %s%s" % (a, memo, cond or "-", t, bs.hex(), tail), "%s %s,%04X @%04X" % (memo, cond or "-", t, a)))
    req = "run %d %s %d %s %d %s %s %s" % (1 if lower else 0, imgtok, len(etoks), " ".join(etoks), rc if isinstance(rc, int) else 99,
                                         so.hex() or "-", se.hex() or "-", ("none" if re2 is None else chunks_txt(re2)))
    # the jump/call lines dasl printed, for A87C.assembleText (the statement of C15_87c_jump_text_roundtrip on the real text)
    imgflat = {}
    for st_, d_ in image:
        for i_, x_ in enumerate(d_):
            imgflat[st_ + i_] = x_
    for a, (text, n) in sorted(parse_listing(so).items()):
        m = PRINTED_JUMP_RE.match(text.decode("latin-1"))
        if not m:
            continue
        memo, cond, lab, hexv, vec = m.group(1), m.group(2), m.group(3), m.group(4), m.group(5)
        t = int(vec) if memo == "callv" else int(hexv, 16)
        bs = bytes(imgflat.get(a + i, 0) for i in range(n))
        jreqs.append(("jmp %d %s %s %d %s %s %s" % (a, memo, cond or "-", t, bs.hex(), text.hex(), lab or "-"),
                      "printed `%s` @%04X" % (text.decode("latin-1"), a)))
    return dict(req=req, info=info, unchanged_ok=re1 is not None and not rewrites, rewritten_ok=re2 is not None, rewrites=rewrites, jreqs=jreqs)


# --------------------------------------------------------------------------
# raster runs: instructions on an 8-byte raster, every one an entry address

LINE_RE = re.compile(rb"^(?:([A-Za-z_][A-Za-z0-9_]*):)?\t*(.*?)\t+;((?: [0-9A-Fa-f]{2})+)\s*$")
ORG_RE = re.compile(rb"^\s*org\s+(?:\$([0-9A-Fa-f]+)|([0-9]+))\s*$")
LABEL_RE = re.compile(r"\b((?:lab|sub|subv)_([0-9A-Fa-f]{4}))")
SLOT = 8
RASTER = 256        # slots per raster image (the Lean model of the whole run is roughly cubic in the number of entry addresses)
FILL = 0x08           # not an opcode of the TLCS-870: deco87c800.c prints `db` and reports no successor
VEC_BASE = 0xffc0


def parse_listing(stdout):
    """address -> (SrcLine bytes, byte count) of every line of a dasl listing"""
    res, addr = {}, None
    for line in stdout.split(b"\n"):
        m = ORG_RE.match(line)
        if m:
            addr = int(m.group(1), 16) if m.group(1) else int(m.group(2))
            continue
        m = LINE_RE.match(line)
        if m and addr is not None:
            n = len(m.group(3).split())
            res[addr] = (m.group(2), n)
            addr += n
    return res


def run_raster(bdir, wd, name, base, lower, slots, timeout=20):
    """slots: [bytes] placed at base + 8*i (rest of a slot: FILL), all of them entry addresses; vector table (16 words pointing at
    slot starts) loaded as a second image.  returns dict(req15, listing, image, stdout, rc)"""
    img = bytearray([FILL]) * (SLOT * len(slots))
    for i, bs in enumerate(slots):
        img[SLOT * i:SLOT * i + len(bs)] = bs
    vec = b"".join(((base + SLOT * (i % max(1, len(slots)))) & 0xffff).to_bytes(2, "little") for i in range(16))
    # ... followed by filler up to FFFF: garbage decoded inside the table must not be cut off by the end of the chunk (das.c repeats
    # a zero-length line forever)
    vec += bytes([FILL]) * (0x10000 - VEC_BASE - len(vec))
    bf = os.path.join(wd, name + ".bin")
    vf = os.path.join(wd, name + "_v.bin")
    open(bf, "wb").write(bytes(img))
    open(vf, "wb").write(vec)
    # the entry addresses go through a key file (DASCMD=@file): a command line takes at most 256 parameters (more are rejected
    # since the repair of ProcessCMD; before it they overran das.c's `CMDProcessed ParUnprocessed`)
    kf = os.path.join(wd, name + ".key")
    open(kf, "w").write("".join("-entryaddress %d\n" % (base + SLOT * i) for i in range(len(slots))))
    args = (["-h"] if lower else []) + ["-cpu", "87C00", "-binfile", "%s@%d" % (bf, base), "-binfile", "%s@%d" % (vf, VEC_BASE)]
    rc, so, se = run_dasl(bdir, args, wd, timeout, env={"DASCMD": "@" + kf})
    image = [(base, bytes(img)), (VEC_BASE, vec)]
    if rc == "timeout":
        return dict(rc=rc, image=image, stdout=so, listing={}, req=None, vec=vec)
    req = "run %d %s %d %s %d %s %s none" % (1 if lower else 0, chunks_txt(image), len(slots),
                                           " ".join("d:%d" % (base + SLOT * i) for i in range(len(slots))),
                                           rc if isinstance(rc, int) else 99, so.hex() or "-", se.hex() or "-")
    return dict(rc=rc, image=image, stdout=so, stderr=se, listing=parse_listing(so), req=req, vec=vec)


def ins_request(lower, addr, slot_bytes, vec, text):
    pairs = {m.group(1): int(m.group(2), 16) for m in LABEL_RE.finditer(text[0].decode("latin-1"))}
    return "ins %d %d %s %d:%s %d %s %s %d" % (1 if lower else 0, addr, slot_bytes.hex(), VEC_BASE, vec.hex(), len(pairs),
                                             " ".join("%s %d" % kv for kv in pairs.items()), text[0].hex() or "-", text[1])


def asm_statements(bdir, wd, name, items):
    """items = [(addr, text)] -> ({addr: bytes | None}, problem); every statement at its own `org`, the labels dasl invented defined by
    equ.  Statements asl reports an error for get None (asl writes no code file when there is any error: run again without them)."""
    from . import c15
    labels = {}
    for _a, t in items:
        for m in LABEL_RE.finditer(t):
            labels[m.group(1)] = int(m.group(2), 16)
    bad = set()
    for attempt in range(4):
        lines = ["\tcpu\t87c00"] + ["%s\tequ\t0%04xh" % (n, v) for n, v in sorted(labels.items())]
        lineno = {}
        for a, t in items:
            if a in bad:
                continue
            lines.append("\torg\t%d" % a)
            lines.append("\t" + t)
            lineno[len(lines)] = a
        f = os.path.join(wd, name + ".asm")
        open(f, "wb").write(("\n".join(lines) + "\n").encode("latin-1"))
        pf = os.path.join(wd, name + ".p")
        if os.path.exists(pf):
            os.unlink(pf)
        rc, so, se = common.run_tool(bdir, "asl", ["-q", f, "-o", pf], wd, timeout=300)
        if rc == 0 and os.path.exists(pf):
            mem = {}
            for st, d in c15.mem_of_pfile(pf) or []:
                for i, x in enumerate(d):
                    mem[st + i] = x
            res = {}
            for a, _t in items:
                if a in bad:
                    res[a] = None
                    continue
                bs = []
                while len(bs) < SLOT and (a + len(bs)) in mem:
                    bs.append(mem[a + len(bs)])
                res[a] = bytes(bs)
            return res, None
        errl = {int(m.group(1)) for m in ASLERR_RE.finditer((so + se).decode("latin-1"))}
        newbad = {lineno[l] for l in errl if l in lineno}
        if not newbad:
            return None, "asl failed without a usable error position: " + (so + se).decode("latin-1")[-300:]
        bad |= newbad
    return None, "asl still reports errors after removing the rejected statements"


# register prefix EC..EF followed by a 16-bit register operation: `goto inv16` never ends in deco87c800.c
HANG2 = set([0x02, 0x03, 0x04, 0x06, 0x07] + list(range(0x10, 0x18)) + list(range(0x30, 0x40)) + [0xfa, 0xfb, 0xfc, 0xfe])


def probe_hang(bdir, wd):
    """does `EC 02` (register prefix E, MUL) still send dasl into the endless loop at inv16?  -> (hangs, info)"""
    bf = os.path.join(wd, "hang.bin")
    open(bf, "wb").write(bytes([0xec, 0x02, 0x05]))
    args = ["-cpu", "87C00", "-binfile", "%s@4096" % bf, "-entryaddress", "4096"]
    rc, so, se = common.run_tool(bdir, "dasl", args, wd, timeout=2)
    req = "run 0 1 4096 ec0205 1 d:4096 %s %s %s none" % ("timeout" if rc == "timeout" else rc, "-" if rc == "timeout" else (so.hex() or "-"),
                                                          "-" if rc == "timeout" else (se.hex() or "-"))
    return rc == "timeout", dict(image="ec0205", start=4096, dasl_args="-cpu 87C00 -binfile hang.bin@4096 -entryaddress 4096", dasl_rc=rc,
                                 dasl_stdout=so.decode("latin-1")[:300]), req


def probe_top87(bdir, wd):
    """raw TLCS-870 images at the end of the address space (deco87c800.c RetrieveData; the continuation at address 0 was repaired with
    29b7faa, signature `dasl-instruction-wraps-64k` is listed as fixed): an instruction that would need bytes
    behind 0FFFFh, a prefixed one whose second opcode byte would, an opcode asked for at 10000h, and instructions that end exactly
    at 0FFFFh: [(name, sig, `run` request, info)]"""
    out = []
    for name, sig, chunks_, entry in (
            ("wrap", "dasl-instruction-wraps-64k", [(0xfffe, bytes([0x14, 0x34])), (0x0000, bytes([0x12]))], 65534),
            ("wrap-at-ffff", "dasl-instruction-wraps-64k", [(0xffff, bytes([0x14])), (0x0000, bytes([0x34, 0x12, 0x05]))], 65535),
            ("wrap-prefix", "dasl-instruction-wraps-64k", [(0xfffe, bytes([0xe0, 0x12])), (0x0000, bytes([0x77, 0x55, 0x05]))], 65534),
            ("wrap-entry-10000", "dasl-instruction-wraps-64k", [(0xfffe, bytes([0x00, 0x00])), (0x0000, bytes([0x05]))], 65536),
            ("top-byte", None, [(0xfffc, bytes([0xe0, 0x12, 0x77, 0x55]))], 65532),
            ("top-ret", None, [(0xfffe, bytes([0x00, 0x05]))], 65535)):
        largs = []
        for i, (st, d) in enumerate(chunks_):
            bf = os.path.join(wd, "top_%s%d.bin" % (name, i))
            open(bf, "wb").write(d)
            largs += ["-binfile", "%s@%d" % (bf, st)]
        rc, so, se = common.run_tool(bdir, "dasl", ["-cpu", "87C00"] + largs + ["-entryaddress", str(entry)], wd, timeout=10)
        to = rc == "timeout"
        req = "run 0 %s 1 d:%d %s %s %s none" % (chunks_txt(chunks_), entry, "timeout" if to else rc, "-" if to else (so.hex() or "-"),
                                                "-" if to else (se.hex() or "-"))
        out.append((name, sig, req, dict(cpu87c=True, image=[(st, d.hex()) for st, d in chunks_], entry=entry, dasl_rc=rc,
                                         dasl_args="-cpu 87C00 " + " ".join("-binfile <%s>@%d" % (d.hex(), st) for st, d in chunks_) + " -entryaddress %d" % entry,
                                         dasl_stdout=so.decode("latin-1")[:600], dasl_stderr=se.decode("latin-1")[:300])))
    return out


def sweep_slots(rng, tier, seed, hang_present):
    """[(b0, b1, b2, b3)]: all first bytes x second bytes in the thorough tier (one sample of further bytes), a rotating subset in the
    quick tier: every first byte with 12 second bytes, and the prefix bytes E0..F7 with a third of all second bytes"""
    out = []

    def safe(prev, pool_exclude=()):
        while True:
            x = rng.choice([0x00, 0x01, 0x12, 0x7f, 0x80, 0x9a, 0xa0, 0xff, rng.randrange(256), rng.randrange(256)])
            if 0xec <= x <= 0xef and hang_present:
                continue
            if hang_present and 0xec <= prev <= 0xef and x in HANG2:
                continue
            return x
    for b0 in range(256):
        prefix = 0xe0 <= b0 <= 0xf7
        for b1 in range(256):
            if tier == "quick":
                if prefix:
                    if (b1 + seed + b0) % 3 != 0:
                        continue
                elif (b1 * 7 + b0 + seed * 5) % 21 != 0:
                    continue
            if hang_present and 0xec <= b0 <= 0xef and b1 in HANG2:
                continue
            b2 = safe(b1)
            b3 = safe(b2)
            out.append(bytes([b0, b1, b2, b3]))
    return out


def jump_boundary_probes(bdir, wd):
    """jumps at and one step beyond the limits of code87c800.c, every statement assembled by the real asl on its own:
    [(driver request, description)]"""
    pc = 0x4000
    probes = []
    for cond in ("t", "f"):
        for d in (15, 16, -16, -17, 0, -1):
            probes.append(("jrs", cond, pc + 2 + d))
    for cond in (None, "z", "eq", "nz", "ne", "cs", "lt", "cc", "ge", "le", "gt", "t", "f"):
        for d in (127, 128, -128, -129, 0):
            probes.append(("jr", cond, pc + 2 + d))
    for t in (0x0000, 0x00ff, 0x0100, 0xfeff, 0xff00, 0xff54, 0xffff):
        probes += [("jp", None, t), ("call", None, t), ("callp", None, t)]
    for n in (0, 1, 15, 16):
        probes.append(("callv", None, n))
    # every probe at its own org (asm_statements drops the statements asl rejects and assembles the rest again); relative targets are
    # moved along with the statement
    lines, meta = [], []
    for i, (memo, cond, t) in enumerate(probes):
        a = pc + 0x10 * i
        tt = t if memo in ("jp", "call", "callp", "callv") else t + 0x10 * i
        opnd = ("%s," % cond if cond else "") + ("%d" % tt if memo == "callv" else "0%04xh" % tt)
        meta.append((a, memo, cond, tt))
        lines.append((a, "%s\t%s" % (memo, opnd)))
    res, err = asm_statements(bdir, wd, "jb", lines)
    if res is None:
        return None, err
    out = []
    for a, memo, cond, tt in meta:
        bs = res[a]          # the statement's own bytes (the next probe lies 16 addresses further on)
        out.append(("jmp %d %s %s %d %s" % (a, memo, cond or "-", tt, "none" if bs is None else bs.hex()),
                    "%s %s,%04X @%04X -> %s" % (memo, cond or "-", tt, a, "error" if bs is None else bs.hex())))
    return out, None


def callp_forward_probes(bdir, wd, rng):
    """`callp <label>` with the label defined further down / further up, in page FF / page 00 / another page; every probe is a source
    of its own for the real asl: [(driver request `fwd ...`, description)]"""
    plans = []
    for _ in range(3):
        pc = rng.choice([0x0040, 0x1000, 0x8000, 0xfe00, 0xfeff - 1, rng.randrange(0x100, 0xfe00)])
        plans.append((pc, 0xff00 + rng.randrange(0xc0)))                      # forward, page FF
        plans.append((pc, rng.randrange(pc + 0x100, 0xff00) & 0xffff if pc < 0xfd00 else 0xfeff))   # forward, neither page 00 nor FF
        if pc >= 0x100:
            plans.append((pc, rng.randrange(0x100)))                          # backward, page 00
    plans.append((0xff10, 0xff80))                                            # forward, from inside page FF
    plans.append((0xff80, 0xff10))                                            # backward, inside page FF
    plans.append((0x0010, 0x0080))                                            # forward, inside page 00
    plans.append((0x0010, 0x1234))                                            # forward from page 00 into another page
    plans.append((0x4000, 0x2000))                                            # backward, other page
    out = []
    for k, (pc, t) in enumerate(plans):
        if pc <= t < pc + 2:
            continue
        use = "\torg\t%d\n\tcallp\tLT\n" % pc
        dfn = "\torg\t%d\nLT:\tret\n" % t
        src = "\tcpu\t87c00\n" + (use + dfn if t > pc else dfn + use)
        from . import c15
        mem, _err = c15.asm(bdir, wd, "cf%d" % k, src)
        bs = None
        if mem is not None:
            flat = {st + i: x for st, d in mem for i, x in enumerate(d)}
            bs = bytes(flat[pc + i] for i in range(2) if pc + i in flat)
        out.append(("fwd %d %d %s" % (pc, t, "none" if bs is None else bs.hex()),
                    "callp LT at %04X with LT at %04X -> %s" % (pc, t, "error" if bs is None else bs.hex())))
    return out


# --------------------------------------------------------------------------
def kv_of(ans):
    return dict(x.split("=", 1) for x in ans.split() if "=" in x)


def classify_program_failure(case, kv, r, listing_line):
    """signature of a spec failure of a whole program by input class"""
    f = case["feats"]
    if "reg16" in f:
        return "deco87c800-reg16-name-from-opcode"
    msgs = r["info"].get("reasm_rewritten", "") + r["info"].get("reasm_unchanged", "")
    if "call-outside" in f and "symbol undefined" in msgs:
        return "dasl-label-outside-image-undefined"
    if listing_line is not None and re.match(rb"^(ld\tsp,(wa|bc|de|hl)|ld\t(wa|bc|de|hl),sp|call\t(wa|bc|de|hl)|jp\t(wa|bc|de|hl))$", listing_line):
        return "deco87c800-reg16-name-from-opcode"
    return None


def run_part(args, bdir, ok):
    """returns dict(spec_fail, corr_fail, proof_problems, coverage, evaluations, distinct)"""
    from . import c15
    spec_fail, corr_fail, problems = [], [], []
    dist = dict(shapes_candidates=0, shapes_accepted=0, mnemonics=0, pool_statements=0, pool_known_bad=0,
                cases=0, bin=0, hex=0, hexhand=0, hex_not_ascending=0, hex_shapes={}, src_orders={}, hex_split_instruction=0, lower=0, entries={1: 0, 2: 0, 3: 0, 4: 0}, vector=0, vector_named=0, embedded_data=0, gap=0, callv=0, callp=0,
                feature_cases=0, genfail=0, areas_code=0, areas_data=0, bytes_disassembled=0, instructions_traced=0,
                unchanged_reassembly_ok=0, rewritten=0, rewrites={},
                stmt_instructions=0, stmt_roundtrip_ok=0, stmt_roundtrip_ok_unchanged=0, stmt_known_bad=0, stmt_distinct_opcode_pairs=0,
                sweep_batches=0, sweep_instructions=0, sweep_first_bytes=0, sweep_byte_pairs=0, sweep_unknown=0, hang_probe=None,
                jump_statements=0, jump_rejected_by_asl=0, jump_text_statements=0)
    samples, stmt_samples, distinct = [], [], set()
    rng = common.rng_for(args.seed, "C15-87C")
    quick = args.tier == "quick"
    reqs, metas, j_reqs, j_metas = [], [], [], []
    with common.Workdir("c15_87c") as wd:
        try:
            shapes, st = inventory(bdir, wd)
        except (RuntimeError, Exception) as ex:      # noqa: BLE001 - anything here is a harness/translator problem, not a verdict
            problems.append("87C800 inventory: %s" % ex)
            shapes, st = [], {}
        dist["shapes_candidates"], dist["shapes_accepted"], dist["mnemonics"] = st.get("candidates", 0), st.get("accepted", 0), st.get("mnemonics_accepted", 0)
        if not shapes:
            return dict(spec_fail=spec_fail, corr_fail=corr_fail, proof_problems=problems or ["87C800: empty statement inventory"],
                        coverage=dict(distribution=dist), evaluations=0, distinct=0)
        try:
            pool = build_pool(bdir, wd, rng, shapes, 2 if quick else 8)
        except RuntimeError as ex:
            return dict(spec_fail=spec_fail, corr_fail=corr_fail, proof_problems=[str(ex)], coverage=dict(distribution=dist), evaluations=0, distinct=0)
        try:
            synth = synth_boundary_pool(bdir, wd, shapes)
        except RuntimeError as ex:
            problems.append("87C800 boundary statements: %s" % ex)
            synth = []
        # every one of them is part of the statement raster, a sample of them of the programs
        pool_asm = pool
        pool = pool + common.rng_for(args.seed, "C15-87C-synth").sample(synth, min(len(synth), max(8, len(pool) // 40)))
        dist["pool_synth_boundary"] = len(synth)
        dist["pool_statements"] = len(pool)
        dist["pool_known_bad"] = sum(1 for p in pool if p["sig"])
        hang_present, hang_info, hang_req = probe_hang(bdir, wd)
        top87 = probe_top87(bdir, wd)
        dist["hang_probe"] = "endless loop" if hang_present else "terminates"
        case_timeout = 20

        # ---- programs
        n = 50 if quick else 1500
        plan = [("reg16",), ("ret-data",), ("callv",), ("callp",), ("vector",), ("ld-hl-mem",), ("call-outside",), ("vector-named",), ("vector-named",)]
        nplan_feat = len(plan)
        forced = [("descending", "hex"), ("shuffled", "hex"), ("interleaved", "hex"), ("ascending", "hexhand"), ("descending", "hexhand")]
        plan += [(None,)] * n
        for i in range(n // 12):
            plan += [("callv",), ("callp",), ("vector",), ("vector-named",)]
        cases = []
        cdir = os.path.join(common.VERIF, "corpus", "C15", "87c")       # (c15.py reads every *.json directly in corpus/C15)
        if os.path.isdir(cdir):
            for f in sorted(os.listdir(cdir)):
                if f.endswith(".json"):
                    d = json.load(open(os.path.join(cdir, f)))
                    d["feats"] = set(d.get("feats", []))
                    d["entries"] = [tuple(e) for e in d["entries"]]
                    cases.append((d, d.get("load", "bin"), False, "corpus:" + f))
        for i, (feat,) in enumerate(plan):
            try:
                c = gen_87c(rng, pool, feat)
            except (IndexError, RecursionError):
                continue
            # order of the ORG blocks in the source (= of the records p2hex writes), way of loading; see c15.py.  (The programs in the
            # pages FE/FF used to keep their order, because asl rejected `callp <label defined further down>`; repaired.)
            tag = "gen87c:%d:%s" % (i, feat or "-")
            load, order = c15.pick_load(rng), c15.pick_src_order(rng)
            k = i - nplan_feat
            if feat is None and 0 <= k < len(forced):
                order, load = forced[k]
                for _ in range(30):     # these cases need blocks that can change places
                    if len(c15.source_segments(c["source"])[1]) >= 3:
                        break
                    try:
                        c = gen_87c(rng, pool, feat)
                    except (IndexError, RecursionError):
                        pass
            c15.reorder_source(common.rng_for(args.seed, "C15-order:" + tag), c, order)
            c["hexhand_rng"] = common.rng_for(args.seed, "C15-hexhand:" + tag)
            cases.append((c, load, rng.random() < 0.15, tag))
        for idx, (c, load, lower, tag) in enumerate(cases):
            # a program that reaches the known endless loop costs its whole time limit
            r = run_case(bdir, wd, idx, c, load, lower, timeout=1 if (hang_present and "ret-data" in c["feats"]) else case_timeout)
            if "genfail" in r:
                dist["genfail"] += 1
                log("87C800 generator case rejected by asl:", tag, r["genfail"])
                if dist["genfail"] > max(3, len(cases) // 20):
                    problems.append("87C800 generator: %s (%s)" % (r["genfail"], tag))
                continue
            if "crash" in r:
                spec_fail.append(dict(tag=tag, sig=None, why="dasl did not terminate normally: " + r["crash"], **r["info"]))
                continue
            reqs.append(r["req"])
            metas.append((c, load, lower, tag, r))
            for jr_, jd_ in r.get("jreqs", []):
                j_reqs.append(jr_)
                j_metas.append((tag, jd_))
        jb, jerr = jump_boundary_probes(bdir, wd)
        if jb is None:
            problems.append("87C800 jump boundary probes: %s" % jerr)
        else:
            for jr_, jd_ in jb:
                j_reqs.append(jr_)
                j_metas.append(("jump-boundary", jd_))

        cf_probes = callp_forward_probes(bdir, wd, common.rng_for(args.seed, "C15-87C-callp"))

        # ---- statements: every pool statement on a raster
        st_reqs, st_metas = [], []
        stmts = (pool_asm if not quick else [p for i, p in enumerate(pool_asm) if p["sig"] or p.get("reg16") or (i + args.seed) % 3 == 0]) + synth
        st_batches = [stmts[i:i + RASTER] for i in range(0, len(stmts), RASTER)]
        st_run_reqs = []
        for bi, batch in enumerate(st_batches):
            base = [0x1000, 0x6000, 0xa000, 0xf000][bi % 4]
            lower = bi % 2 == 1
            rr = run_raster(bdir, wd, "st%d" % bi, base, lower, [p["bytes"] for p in batch])
            if rr["req"] is None or rr["rc"] != 0:
                problems.append("87C800 statement raster %d: dasl status %s" % (bi, rr["rc"]))
                continue
            st_run_reqs.append((rr["req"], "stmt-raster:%d@%x" % (bi, base), lower, len(batch)))
            items_rew, items_raw, pend = [], [], []
            for i, p in enumerate(batch):
                a = base + SLOT * i
                if a not in rr["listing"]:
                    problems.append("87C800 statement raster: no listing line for the entry address %x (%s)" % (a, p.get("stmt", p["text"]).strip()))
                    continue
                text = rr["listing"][a]
                t_rew, rew = rewrite_text(b"\t" + text[0])
                pend.append((a, p, text, rew))
                items_rew.append((a, t_rew.decode("latin-1").lstrip("\t")))
                items_raw.append((a, text[0].decode("latin-1")))
            # two assemblies: rewritten text (decides `rt`), unchanged text (decides whether the rewrite was needed)
            res_rew, err = asm_statements(bdir, wd, "sa%d" % bi, items_rew)
            res_raw, err2 = asm_statements(bdir, wd, "sb%d" % bi, items_raw)
            if res_rew is None or res_raw is None:
                problems.append("87C800 statement raster %d: %s" % (bi, err or err2))
                continue
            for a, p, text, rew in pend:
                st_reqs.append(ins_request(lower, a, bytes(rr["image"][0][1][a - base:a - base + SLOT]), rr["vec"], text))
                st_metas.append(dict(addr=a, stmt=p.get("stmt", p["text"]).strip(), bytes=p["bytes"].hex(), sig=p["sig"], dasl_text=text[0].decode("latin-1"),
                                     dasl_len=text[1], rewrites=rew, asl_rewritten=None if res_rew[a] is None else res_rew[a].hex(),
                                     asl_unchanged=None if res_raw[a] is None else res_raw[a].hex(), lower=lower))

        # ---- sweep: first byte x second byte
        sw_slots = sweep_slots(common.rng_for(args.seed, "C15-87C-sweep"), args.tier, args.seed, hang_present)
        sw_reqs, sw_metas, sw_run_reqs = [], [], []
        per = RASTER
        for bi in range(0, len(sw_slots), per):
            batch = sw_slots[bi:bi + per]
            base = [0x1000, 0x7000, 0x0000, 0xf700][(bi // per) % 4]
            lower = (bi // per) % 4 == 3
            rr = run_raster(bdir, wd, "sw%d" % bi, base, lower, batch)
            if rr["req"] is None or rr["rc"] != 0:
                problems.append("87C800 opcode sweep batch %d: dasl status %s" % (bi // per, rr["rc"]))
                continue
            sw_run_reqs.append((rr["req"], "sweep:%d@%x" % (bi // per, base), lower, len(batch)))
            for i, bs in enumerate(batch):
                a = base + SLOT * i
                if a not in rr["listing"]:
                    problems.append("87C800 opcode sweep: no listing line for the entry address %x (bytes %s)" % (a, bs.hex()))
                    continue
                sw_reqs.append(ins_request(lower, a, bytes(rr["image"][0][1][a - base:a - base + SLOT]), rr["vec"], rr["listing"][a]))
                sw_metas.append(dict(addr=a, bytes=bs.hex(), dasl_text=rr["listing"][a][0].decode("latin-1"), dasl_len=rr["listing"][a][1], lower=lower))

    all_run = reqs + [x[0] for x in st_run_reqs] + [x[0] for x in sw_run_reqs] + [hang_req] + [t[2] for t in top87]
    ans_run = common.driver("c15_87", all_run, timeout=3600) if ok and all_run else []
    a1 = ans_run[:len(reqs)]
    a2 = ans_run[len(reqs):len(reqs) + len(st_run_reqs)]
    a3 = ans_run[len(reqs) + len(st_run_reqs):len(reqs) + len(st_run_reqs) + len(sw_run_reqs)]
    a4 = ans_run[len(reqs) + len(st_run_reqs) + len(sw_run_reqs):len(reqs) + len(st_run_reqs) + len(sw_run_reqs) + 1]
    a5 = ans_run[len(reqs) + len(st_run_reqs) + len(sw_run_reqs) + 1:]
    ans_st = common.driver("c15_87", st_reqs, timeout=3600) if ok and st_reqs else []
    ans_sw = common.driver("c15_87", sw_reqs, timeout=3600) if ok and sw_reqs else []
    ans_j = common.driver("c15_87", j_reqs, timeout=3600) if ok and j_reqs else []
    ans_cf = common.driver("c15_87", [q for q, _d in cf_probes], timeout=600) if ok and cf_probes else []

    def model_text(kv):
        return bytes.fromhex(kv["mtext"]).decode("latin-1") if kv.get("mtext", "-") not in ("-", "") else ""

    # ---- programs: verdicts
    for (c, load, lower, tag, r), ans in zip(metas, a1):
        kv = kv_of(ans)
        info = r["info"]
        if "error" in kv:
            problems.append("driver c15_87 cannot read its request for %s: %s" % (tag, ans))
            continue
        dist["cases"] += 1
        dist[load] += 1
        if load != "bin":
            dist["hex_not_ascending"] += int(not info.get("hex_ascending", True))
            dist["hex_shapes"][info.get("hex_shape", "?")] = dist["hex_shapes"].get(info.get("hex_shape", "?"), 0) + 1
            dist["hex_split_instruction"] += int(info.get("split_instruction") is not None)
        dist["src_orders"][info.get("src_order", "ascending")] = dist["src_orders"].get(info.get("src_order", "ascending"), 0) + 1
        dist["lower"] += int(lower)
        dist["entries"][min(4, max(1, len(c["entries"])))] += 1
        for k in ("vector", "vector-named", "embedded-data", "gap", "callv", "callp"):
            if k in c["feats"]:
                dist[k.replace("-", "_")] += 1
        if c["feats"] & {"reg16", "ret-data", "ld-hl-mem", "call-outside", "callp-forward"}:
            dist["feature_cases"] += 1
        dist["callp_forward"] = dist.get("callp_forward", 0) + int("callp-forward" in c["feats"])
        dist["abs_zero"] = dist.get("abs_zero", 0) + int(bool(re.search(r"\((0|00h|000h)\)", c["source"])))
        dist["undef_dump_bytes"] = dist.get("undef_dump_bytes", 0) + int(kv.get("undef", 0))
        dist["areas_code"] += int(kv.get("ncode", 0))
        dist["areas_data"] += int(kv.get("ndata", 0))
        dist["bytes_disassembled"] += int(kv.get("nbytes", 0))
        dist["instructions_traced"] += int(kv.get("ninstr", 0))
        dist["unchanged_reassembly_ok"] += int(r["unchanged_ok"])
        dist["rewritten"] += int(bool(r["rewrites"]))
        for w in r["rewrites"]:
            dist["rewrites"][w] = dist["rewrites"].get(w, 0) + 1
        distinct.add(info["dasl_stdout"])
        verdict = {k: v for k, v in kv.items() if k not in ("mtext", "merr", "munk")}
        if len(samples) < 3 and int(kv.get("ninstr", 0)) >= 6:
            samples.append(dict(tag=tag, load=load, entries=c["entries"], source=c["source"][:500], dasl_stdout=info["dasl_stdout"][:900], verdict=verdict))
        common_fields = dict(tag=tag, verdict=verdict, **info)
        if r.get("timeout"):
            sig = "deco87c800-inv16-endless-loop" if ("ret-data" in c["feats"] or kv.get("hang") == "1") else None
            spec_fail.append(dict(sig=sig, why="dasl does not terminate on this image (killed after the time limit)", **common_fields))
            if kv.get("rc") != "eq":
                corr_fail.append(dict(why="dasl does not terminate, the Lean model does", **common_fields))
            continue
        # (C) spec on the real tools
        bad_line = None
        if kv.get("bad", "-") != "-":
            bad_line = parse_listing(info["dasl_stdout"].encode("latin-1")).get(int(kv["bad"]), (None, 0))[0]
            if bad_line is None:
                lst = parse_listing(info["dasl_stdout"].encode("latin-1"))
                prev = [a for a in lst if a <= int(kv["bad"]) < a + lst[a][1]]
                bad_line = lst[prev[0]][0] if prev else None
        fsig = classify_program_failure(c, kv, r, bad_line)
        for w in r["rewrites"]:
            spec_fail.append(dict(sig=REWRITE_SIG[w], why="asl rejects dasl's output as printed / assembles it to other bytes; harness rewrite `%s` needed" % w, **common_fields))
        if not r["unchanged_ok"] and not r["rewrites"]:
            spec_fail.append(dict(sig=fsig, why="asl rejects dasl's output as printed", **common_fields))
        if r["rewrites"] and not r["rewritten_ok"]:
            spec_fail.append(dict(sig=fsig, why="asl rejects dasl's output even after the labelled harness rewrites " + ",".join(r["rewrites"]), **common_fields))
        if kv.get("bytes") == "fail":
            spec_fail.append(dict(sig=fsig, why="re-assembled bytes differ from the image at address %s (line `%s`)" % (kv.get("bad"), (bad_line or b"?").decode("latin-1")), **common_fields))
        if kv.get("inside") != "ok" or kv.get("disjoint") != "ok":
            spec_fail.append(dict(sig=None,
                                  why="reported areas not inside the image / not disjoint: inside=%s disjoint=%s" % (kv.get("inside"), kv.get("disjoint")), **common_fields))
        if kv.get("entry") != "ok":
            spec_fail.append(dict(sig=None, why="an entry address that lies inside the loaded image is not part of any code area dasl reports "
                                  "(the program was not disassembled starting at its entry points)", **common_fields))
        # (B) model against the real run
        if kv.get("text") != "eq" or kv.get("err") != "eq" or kv.get("rc") != "eq" or kv.get("areas") != "eq" or kv.get("hang") != "0":
            corr_fail.append(dict(why="dasl's output differs from the Lean model (text=%s err=%s rc=%s areas=%s hang=%s)" %
                                  (kv.get("text"), kv.get("err"), kv.get("rc"), kv.get("areas"), kv.get("hang")), model_stdout=model_text(kv)[:6000], **common_fields))
        if kv.get("l1") != "eq":
            problems.append("model-internal: chunks.c array algorithm and interval-set insertion disagree on " + tag)

    # ---- raster listings against the model (whole run)
    for (req, tag, lower, ninst), ans in zip(st_run_reqs + sw_run_reqs, a2 + a3):
        kv = kv_of(ans)
        if tag.startswith("sweep"):
            dist["sweep_batches"] += 1
        if kv.get("text") != "eq" or kv.get("err") != "eq" or kv.get("areas") != "eq" or kv.get("hang") != "0" or kv.get("inside") != "ok":
            corr_fail.append(dict(tag=tag, why="dasl's listing of a raster image differs from the Lean model (text=%s err=%s areas=%s hang=%s inside=%s)" %
                                  (kv.get("text"), kv.get("err"), kv.get("areas"), kv.get("hang"), kv.get("inside")),
                                  lower=lower, instructions=ninst, model_stdout=model_text(kv)[:3000]))
    # ---- hang probe
    if a4:
        kv = kv_of(a4[0])
        if hang_present:
            spec_fail.append(dict(sig="deco87c800-inv16-endless-loop", tag="probe:inv16", cpu87c=True,
                                  why="dasl does not terminate: register prefix EC followed by opcode 02 (`goto inv16` re-tests its own condition)", **hang_info))
        if kv.get("rc") != "eq":
            corr_fail.append(dict(tag="probe:inv16", why="the Lean model and the real dasl disagree about termination on EC 02 (model hang=%s, real %s)" %
                                  (kv.get("hang"), "endless loop" if hang_present else "terminates"), **hang_info))

    # ---- the end of the address space (C15_87c_honest_at / C15_87c_no_wrap_instruction on the real dasl)
    for (name, sig, _req, info), ans in zip(top87, a5):
        kv = kv_of(ans)
        dist["top_of_memory_probes"] = dist.get("top_of_memory_probes", 0) + 1
        if kv.get("text") != "eq" or kv.get("err") != "eq" or kv.get("areas") != "eq" or kv.get("rc") != "eq" or kv.get("hang") != "0":
            corr_fail.append(dict(tag="top87:" + name, why="dasl's output for an image at the end of the address space differs from the Lean model "
                                  "(text=%s err=%s areas=%s rc=%s hang=%s)" % (kv.get("text"), kv.get("err"), kv.get("areas"), kv.get("rc"), kv.get("hang")),
                                  model_stdout=model_text(kv)[:3000], **info))
        if kv.get("inside") != "ok" or kv.get("disjoint") != "ok":
            spec_fail.append(dict(sig=sig, tag="top87:" + name, why="a reported code area is not inside the loaded image (inside=%s)" % kv.get("inside"), **info))
        if int(kv.get("undef", 0)):
            spec_fail.append(dict(sig=sig, tag="top87:" + name, why="the byte dump of a listing line shows %s byte(s) of memory dasl never wrote" % kv.get("undef"), **info))

    # ---- jumps and calls: the assembler-side model A87C.encode against the real asl, and the round-trip theorem's prediction
    for (tag, desc), ans in zip(j_metas, ans_j):
        kv = kv_of(ans)
        dist["jump_statements"] = dist.get("jump_statements", 0) + 1
        if "error" in kv or "enc" not in kv:
            problems.append("driver c15_87 cannot read its jump request %s (%s)" % (desc, ans))
            continue
        dist["jump_rejected_by_asl"] = dist.get("jump_rejected_by_asl", 0) + int(kv["dec"] == "none")
        if kv["enc"] != "eq":
            corr_fail.append(dict(tag=tag, why="the bytes asl makes of `%s` differ from A87C.encode (model: %s)" % (desc, kv.get("masm"))))
        dist["jump_text_statements"] = dist.get("jump_text_statements", 0) + int(kv.get("txt") in ("eq", "ne"))
        if kv.get("txt") in ("ne", "err"):
            corr_fail.append(dict(tag=tag, why="the bytes asl makes of the source line of `%s` differ from A87C.assembleText" % desc))
        if kv["rt"] == "fail" or kv["dec"] == "ne":
            corr_fail.append(dict(tag=tag, why="`%s`: what M87C prints for these bytes does not re-encode to them (A87C.jumpStmt/encode), "
                                  "against C15_87c_jump_roundtrip_partial" % desc))

    for (_q, desc), ans in zip(cf_probes, ans_cf):
        kv = kv_of(ans)
        dist["callp_forward_probes"] = dist.get("callp_forward_probes", 0) + 1
        if kv.get("enc") != "eq":
            corr_fail.append(dict(tag="callp-fwd", why="the real asl and the passes of A87C.encodeF disagree on `%s` (model: %s)" % (desc, kv.get("masm"))))

    # ---- statements
    pairs_seen = set()
    for m, ans in zip(st_metas, ans_st):
        kv = kv_of(ans)
        dist["stmt_instructions"] += 1
        pairs_seen.add(m["bytes"][:4])
        tag = "stmt87c:%04X:%s" % (m["addr"], m["bytes"])
        if "error" in kv or "dec" not in kv:
            problems.append("driver c15_87 cannot read its request for %s" % m)
            continue
        if kv["dec"] != "eq" or kv["len"] != "eq":
            corr_fail.append(dict(tag=tag, why="the line dasl prints differs from M87C.disassemble (text %s, length %s)" % (kv["dec"], kv["len"]),
                                  statement=m["stmt"], dasl_text=m["dasl_text"], model_text=model_text(kv), lower=m["lower"]))
        rt = m["asl_rewritten"] == m["bytes"]
        rt_raw = m["asl_unchanged"] == m["bytes"]
        if len(stmt_samples) < 6 and dist["stmt_instructions"] % 211 == 1:
            stmt_samples.append(dict(tag=tag, statement=m["stmt"], dasl_text=m["dasl_text"], asl_bytes=m["asl_rewritten"], rewrites=m["rewrites"]))
        dist["stmt_roundtrip_ok"] += int(rt)
        dist["stmt_roundtrip_ok_unchanged"] += int(rt_raw)
        dist["stmt_known_bad"] += int(bool(m["sig"]))
        if m["dasl_len"] != len(m["bytes"]) // 2:
            spec_fail.append(dict(sig=None, tag=tag, cpu87c=True, why="statement `%s` (%s): dasl decodes %d bytes as `%s`" % (m["stmt"], m["bytes"], m["dasl_len"], m["dasl_text"]),
                                  image=m["bytes"], start=m["addr"], dasl_text=m["dasl_text"], lower=m["lower"]))
            continue
        if not rt_raw:
            for w in m["rewrites"]:
                spec_fail.append(dict(sig=REWRITE_SIG[w], tag=tag, cpu87c=True, why="statement `%s` (%s): dasl prints `%s`, asl makes %s of it; harness rewrite `%s` needed" %
                                      (m["stmt"], m["bytes"], m["dasl_text"], m["asl_unchanged"] or "an error", w),
                                      image=m["bytes"], start=m["addr"], dasl_text=m["dasl_text"], asl_bytes=m["asl_unchanged"], lower=m["lower"]))
        if not rt:
            spec_fail.append(dict(sig=m["sig"], tag=tag, cpu87c=True, why="statement `%s` (%s): dasl prints `%s`, asl makes %s of it%s" %
                                  (m["stmt"], m["bytes"], m["dasl_text"], m["asl_rewritten"] or "an error",
                                   " (after the harness rewrites %s)" % ",".join(m["rewrites"]) if m["rewrites"] else ""),
                                  image=m["bytes"], start=m["addr"], dasl_text=m["dasl_text"], asl_bytes=m["asl_rewritten"], lower=m["lower"]))
        elif m["sig"]:
            log("87C800 statement sweep: %s is in a known-bad class but round-trips on the real tools (defect repaired?)" % tag)
    dist["stmt_distinct_opcode_pairs"] = len(pairs_seen)

    # ---- sweep
    firsts, bpairs = set(), set()
    for m, ans in zip(sw_metas, ans_sw):
        kv = kv_of(ans)
        dist["sweep_instructions"] += 1
        firsts.add(m["bytes"][:2])
        bpairs.add(m["bytes"][:4])
        dist["sweep_unknown"] += int(m["dasl_text"].startswith("db\t"))
        if "error" in kv or "dec" not in kv:
            problems.append("driver c15_87 cannot read its request for %s" % m)
            continue
        if kv["dec"] != "eq" or kv["len"] != "eq" or kv.get("hang") != "0":
            corr_fail.append(dict(tag="sweep87c:%04X:%s" % (m["addr"], m["bytes"]),
                                  why="the line dasl prints differs from M87C.disassemble (text %s, length %s, model hang %s)" % (kv["dec"], kv["len"], kv.get("hang")),
                                  dasl_text=m["dasl_text"], dasl_len=m["dasl_len"], model_text=model_text(kv), model_len=kv.get("mlen"), lower=m["lower"]))
    dist["sweep_first_bytes"], dist["sweep_byte_pairs"] = len(firsts), len(bpairs)

    cov = dict(distribution=dist, samples=samples, samples_statements=stmt_samples,
               rule="TLCS-870: random valid programs from the statement inventory the real asl accepts (every InitFields mnemonic x operand spellings, "
                    "random operand values incl. boundaries), jrs/jr/jp/call/callp/callv into the image, data behind jp/jr, org gaps, vector table, 1..4 entry "
                    "addresses or vector entries, ORG blocks in ascending/descending/shuffled/interleaved/rotated/one-displaced source order (not for the page FE/FF features), -binfile@start, Intel -hexfile written by p2hex or by the harness (record orders as in c15.py), optionally -h; plus every pool statement on an 8-byte raster re-assembled "
                    "on its own; plus first byte x second byte (x sampled further bytes) against the model; plus, as bytes (`db`), every instruction shape with a direct address operand "
                    "for the addresses 0 and 255 (synthesized from the encodings of the addresses 1 and 2), in the statement raster and in the programs; callp with labels "
                    "defined further down (half of them written as numbers, dasl prints a label in either case); raw images at the end of the address space "
                    "(an instruction / a second opcode byte that would lie behind 0FFFFh, an entry at 10000h, instructions ending at 0FFFFh)",
               trusted=["87C800: statement inventory and instruction lengths are taken from the real asl (probe runs), not from a table of the harness",
                        "87C800: per-statement re-assembly defines the labels dasl invented by equ lines, one statement per org"])
    evaluations = len(reqs) + len(st_reqs) + len(sw_reqs) + len(j_reqs) + len(top87)
    return dict(spec_fail=spec_fail, corr_fail=corr_fail, proof_problems=problems, coverage=cov, evaluations=evaluations, distinct=len(distinct))


def replay(d):
    """replay of a failure recorded by run_part"""
    from . import c15
    bdir = common.repo_build("hooks")
    with common.Workdir("c15r87") as wd:
        if "source" in d and "dasl_args" in d:
            mem, err = c15.asm(bdir, wd, "t0", d["source"])
            print("asl:", "ok" if mem is not None else err)
            if mem is None:
                return 1
            pf = os.path.join(wd, "t0.p")
            common.run_tool(bdir, "p2bin", [pf, os.path.join(wd, "t0.bin"), "-q"], wd)
            common.run_tool(bdir, "p2hex", [pf, os.path.join(wd, "t0.hex"), "-F", "Intel", "-q"], wd)
            if d.get("load") == "hexhand" and d.get("hexfile_text"):
                open(os.path.join(wd, "t0.hex"), "w").write(d["hexfile_text"])      # the hex file the harness wrote
            if d.get("load") in ("hex", "hexhand"):
                print("hex file given to dasl (%s):" % d.get("hex_shape"))
                print(open(os.path.join(wd, "t0.hex")).read())
            a = [os.path.join(wd, re.sub(r"^t\d+\.", "t0.", x)) if re.match(r"^t\d+\.(bin|hex)", x) else x for x in d["dasl_args"]]
            rc, so, se = common.run_tool(bdir, "dasl", a, wd, timeout=20)
            print("dasl rc =", rc)
            print(so.decode("latin-1"))
            print(se.decode("latin-1"))
            if rc == "timeout":
                return 0
            m2, e2 = c15.asm(bdir, wd, "r", so, "87C00")
            print("re-assembly of dasl's stdout as printed:", "ok" if m2 is not None else e2)
            txt, rew = rewrite_text(so)
            if rew:
                m3, e3 = c15.asm(bdir, wd, "r2", txt, "87C00")
                print("re-assembly after the harness rewrites %s:" % ",".join(rew), "ok" if m3 is not None else e3)
        elif isinstance(d.get("image"), list) and "entry" in d:
            # a raw image at the end of the address space (probe_top87)
            largs = []
            for i, (st, hx) in enumerate(d["image"]):
                bf = os.path.join(wd, "top%d.bin" % i)
                open(bf, "wb").write(bytes.fromhex(hx))
                largs += ["-binfile", "%s@%d" % (bf, st)]
            rc, so, se = common.run_tool(bdir, "dasl", ["-cpu", "87C00"] + largs + ["-entryaddress", str(d["entry"])], wd, timeout=10)
            print("dasl %s -> rc %s" % (d.get("dasl_args"), rc))
            print(so.decode("latin-1"))
            print(se.decode("latin-1"))
        elif "image" in d and "start" in d:
            img = bytes.fromhex(d["image"]) + bytes([FILL] * 4)
            bf = os.path.join(wd, "i.bin")
            open(bf, "wb").write(img)
            a = (["-h"] if d.get("lower") else []) + ["-cpu", "87C00", "-binfile", "%s@%d" % (bf, d["start"]), "-entryaddress", str(d["start"])]
            rc, so, se = common.run_tool(bdir, "dasl", a, wd, timeout=10)
            print("dasl", " ".join(a[:-4] + ["-binfile", "i.bin@%d" % d["start"], "-entryaddress", str(d["start"])]), "-> rc", rc)
            print(so.decode("latin-1"))
            print(se.decode("latin-1"))
            if "dasl_text" in d:
                res_, err = asm_statements(bdir, wd, "r", [(d["start"], d["dasl_text"])])
                got = None if res_ is None else res_.get(d["start"])
                print("asl -cpu 87C00 on `%s` at %d: %s (image: %s)" % (d["dasl_text"], d["start"], "error" if got is None else got.hex(), d["image"]))
    return 0
