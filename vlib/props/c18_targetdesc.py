"""C18, core / shared-helper state that no per-file path resets.  Called from c18.py.

(A)  Props/C18_TargetDesc.lean over Generated/TargetDesc.lean (translate/targetdesc.py: clang AST of every SwitchTo_* + dumper):
     every switch function assigns Grans / ListGrans / SegInits / SegLimits of every segment it declares valid, and the scalar part
     of the target description, on every path; the exception lists of the Lean file and of this file must name the same elements.
     Props/C18_Shared.lean: pending relocation output (asmcode.c) and the byte-order flag of motpseudo.c.
(B)  correspondence, driver mode `c18t`:
     T  Model/TargetDesc.lean (SetNSeg, DefChkPC, CodeSEGMENT, CodeALIGN, WriteCode) instantiated with the description the dumper read
        from the current build must predict the label values and the error flag of every file of generated histories
        `asl pred.asm succ.asm ...` (CPU / SEGMENT / label / ORG / ALIGN; every descriptor group of every CPU family as successor,
        every valid segment entered without ORG, predecessors that leave non-zero SegInits / other SegLimits);
     S  Model/SharedState.lean must predict the records (bytes + exports written behind them) of generated histories over the
        Motorola data pseudo-ops of a high-byte-first family, a low-byte-first family and ST6, with EXPORT_SYM at every position
        relative to the last code and ORG, with and without a forced further pass.
(C)  spec on the implementation, differential: every file of the joint run = its single run (driver: FilesSpec.independentB on the
     observations; harness: .p, stdout, stderr, exit status), plus for every CPU family a successor built from the data pseudo-ops the
     family accepts (calibrated on the real binary) after predecessors of the other byte-order group.
"""
import os
import re

from .. import common

# ---------------------------------------------------------------------------------------------------------------------------------
# exception lists of Props/C18_TargetDesc.lean, with the justification (file, switch function, segment number, array)

FINDINGS = {
    ("code16c5x.c", "SwitchTo_16C5X", 2, "SegInits"): "`SegInits[SegCode] = 0` is written twice, `SegInits[SegData]` never",
    ("codef8.c", "SwitchTo_F8_12", 1, "SegInits"): "SwitchTo_F8_Common assigns no SegInits element at all",
    ("codef8.c", "SwitchTo_F8_12", 2, "SegInits"): "as above", ("codef8.c", "SwitchTo_F8_12", 7, "SegInits"): "as above",
    ("codef8.c", "SwitchTo_F8_12_CMOS", 1, "SegInits"): "as above", ("codef8.c", "SwitchTo_F8_12_CMOS", 2, "SegInits"): "as above",
    ("codef8.c", "SwitchTo_F8_12_CMOS", 7, "SegInits"): "as above",
    ("codef8.c", "SwitchTo_F8_16", 1, "SegInits"): "as above", ("codef8.c", "SwitchTo_F8_16", 2, "SegInits"): "as above",
    ("codef8.c", "SwitchTo_F8_16", 7, "SegInits"): "as above",
    ("codehmcs400.c", "SwitchTo_HMCS400", 2, "SegInits"): "`SegInits[SegCode] = 0` is written twice, `SegInits[SegData]` never",
    ("codeol40.c", "SwitchTo_OLMS40", 2, "SegInits"): "`SegInits[SegCode] = 0` is written twice, `SegInits[SegData]` never",
    ("codeol50.c", "SwitchTo_OLMS50", 2, "SegInits"): "`SegInits[SegCode] = 0` is written twice, `SegInits[SegData]` never",
    ("codesx20.c", "SwitchTo_SX20", 2, "SegInits"): "`SegInits[SegCode] = 0` is written twice, `SegInits[SegData]` never",
}
_CHAIN = "assigned in every arm of an `if (MomCPU == ...) ... else if ...` chain without a final else; the chain names exactly the CPUs registered for the function"
CHAIN_EXCEPTIONS = {
    ("code47c00.c", "SwitchTo_47C00", 1, "SegLimits"): _CHAIN, ("code47c00.c", "SwitchTo_47C00", 2, "SegLimits"): _CHAIN,
    ("code47c00.c", "SwitchTo_47C00", 7, "SegLimits"): _CHAIN,
    ("codeace.c", "SwitchTo_ACE", 1, "SegInits"): "assigned in both cases of `switch (MomCPU - CPUACE1101)` (no default); the function is registered for exactly these two CPUs",
    ("codehmcs400.c", "SwitchTo_HMCS400", 2, "SegLimits"): _CHAIN,
    ("codeol40.c", "SwitchTo_OLMS40", 1, "SegLimits"): _CHAIN, ("codeol40.c", "SwitchTo_OLMS40", 2, "SegLimits"): _CHAIN,
    ("codeol50.c", "SwitchTo_OLMS50", 1, "SegLimits"): _CHAIN, ("codeol50.c", "SwitchTo_OLMS50", 2, "SegLimits"): _CHAIN,
}


def lean_lists():
    """(findings, chainExceptions) of Props/C18_TargetDesc.lean as sets of (file, func, seg, array)"""
    p = os.path.join(common.LEAN_DIR, "AslModel", "Props", "C18_TargetDesc.lean")
    src = common.strip_lean_comments(open(p).read())
    out = []
    for name in ("findings", "chainExceptions"):
        m = re.search(r"def %s\s*:[^\n]*:=\s*\[(.*?)\]" % name, src, re.S)
        if not m:
            return None
        out.append(set((a, b, int(c), d) for a, b, c, d in re.findall(r'\("([^"]+)",\s*"([^"]+)",\s*(\d+),\s*"([^"]+)"\)', m.group(1))))
    return out


# ---------------------------------------------------------------------------------------------------------------------------------
# code file reader with relocation information (harness plumbing for the S histories)

def parse_records(data):
    """[(bytes, [export names])] of the data records of a code file, or None"""
    if data is None or len(data) < 2 or data[0] != 0x89 or data[1] != 0x14:
        return None
    i, recs = 2, []
    while i < len(data):
        h = data[i]
        i += 1
        if h == 0:
            return recs
        if h == 0x80:
            i += 4
        elif h in (0x81, 0x82, 0x83, 0x84):
            ln = int.from_bytes(data[i + 7:i + 9], "little")
            recs.append([bytes(data[i + 9:i + 9 + ln]), []])
            i += 9 + ln
        elif h == 0x85:
            cnt = int.from_bytes(data[i:i + 4], "little")
            ecnt = int.from_bytes(data[i + 4:i + 8], "little")
            slen = int.from_bytes(data[i + 8:i + 12], "little")
            i += 12 + 16 * cnt
            offs = [int.from_bytes(data[i + 16 * k:i + 16 * k + 4], "little") for k in range(ecnt)]
            i += 16 * ecnt
            strs = bytes(data[i:i + slen])
            i += slen
            names = [strs[o:strs.index(b"\0", o)].decode(errors="replace") for o in offs]
            if not recs:
                recs.append([b"", []])
            recs[-1][1] += names
        else:
            return None
    return None


# ---------------------------------------------------------------------------------------------------------------------------------
# T histories

SEG = ["NOTHING", "CODE", "DATA", "IDATA", "XDATA", "YDATA", "BITDATA", "IO", "REG", "ROMDATA", "EEDATA"]


def desc_token(c):
    """descriptor of one CPU as the driver reads it"""
    own = 1 if c["ownChk"] else 0
    segs = []
    for s in range(1, len(SEG)):
        g, lg, ini, lim = c["segs"][s]
        v = (c["valid"] >> s) & 1
        # an element of a segment that is not valid is described like any other: assigned (value) or inherited (-)
        segs.append("%d:%s:%s" % (v, "-" if "SegInits[%d]" % s in c["inherited"] else ini, "-" if "SegLimits[%d]" % s in c["inherited"] else lim))
    return "%d/%s" % (own, ",".join(segs))


def render_t(cpus, ops, k):
    """source of one T file; ops over cpu indices: ('c', i) ('g', s) ('l',) ('o', v) ('a', k)"""
    lines, labs = [], []
    for op in ops:
        if op[0] == "c":
            lines.append("\tcpu " + cpus[op[1]]["name"])
        elif op[0] == "g":
            lines.append("\tsegment " + SEG[op[1]])
        elif op[0] == "l":
            labs.append("vl%d_%d" % (k, len(labs)))
            lines.append(labs[-1] + ":")
        elif op[0] == "o":
            lines.append("\torg %d" % op[1])
        elif op[0] == "a":
            lines.append("\talign %d" % op[1])
    lines.append("\tmessage \"VL%d%s\"" % (k, "".join(" \\{%s}" % l for l in labs)))
    return lines


def op_tok(op):
    return {"c": "c%d", "g": "g%d", "o": "o%d", "a": "a%d"}[op[0]] % op[1] if op[0] != "l" else "l"


def obs_of(out, k, failed):
    """label values file k printed (`VL<k> hex hex ...`), as the driver's observation token; None if the line is missing"""
    m = re.search(r"(?m)^VL%d((?: [0-9A-Fa-f]+)*)\s*$" % k, out)
    if not m:
        return None
    vals = [int(x, 16) for x in m.group(1).split()]
    return "%d:%s" % (1 if failed else 0, ",".join(str(v) for v in vals) or "-")


def probe_label_quirk(C, bdir, wd, c):
    """segments in which a label on its own line at an odd address does not get that address (XA: labels in CODE are aligned by the code
    generator itself - target-specific statement semantics outside Model/TargetDesc); measured on the real binary"""
    segs = [s for s in range(1, len(SEG)) if (c["valid"] >> s) & 1]
    lines = ["\tcpu " + c["name"]]
    for s in segs:
        lines += ["\tsegment " + SEG[s], "\torg 1", "vq%d:" % s]
    lines.append("\tmessage \"VQ%s\"" % "".join(" \\{vq%d}" % s for s in segs))
    r = C.run_joint(bdir, wd, "q", [("q", lines)])
    m = re.search(r"(?m)^VQ((?: [0-9A-Fa-f]+)*)\s*$", (r[1] + r[2]).decode(errors="replace"))
    if not m or len(m.group(1).split()) != len(segs):
        return set(segs)
    return {s for s, v in zip(segs, m.group(1).split()) if int(v, 16) != 1}


def gen_succ_ops(rng, c, i, lims):
    """successor for CPU descriptor c (index i): every valid segment entered without ORG, then ORG / ALIGN around the limits"""
    ops = [("c", i)]
    segs = [s for s in range(1, len(SEG)) if (c["valid"] >> s) & 1]
    rng.shuffle(segs)
    if rng.random() < 0.5 and 1 in segs:
        segs.remove(1)
        segs.insert(0, 1)
    for s in segs:
        if not (s == 1 and ops == [("c", i)] and rng.random() < 0.5):
            ops.append(("g", s))
        ops.append(("l",))
        if rng.random() < 0.7:
            lim = c["segs"][s][3]
            if c["ownChk"] or "SegLimits[%d]" % s in c["inherited"]:
                # the target checks addresses itself (or the limit is inherited): stay next to the start of the segment
                v = (0 if "SegInits[%d]" % s in c["inherited"] else c["segs"][s][2]) + rng.randrange(0, 40)
            else:
                cand = [x for x in (lim, lim - 1, lim + 1, lim - 3, rng.choice(lims), rng.choice(lims) + 1, rng.randrange(0, 64)) if 0 <= x < (1 << 31)]
                v = rng.choice(cand)
            k = rng.choice([2, 2, 3, 4, 8, 16])
            if s in c.get("quirk", ()):
                v, k = v & ~1, (k if k % 2 == 0 else k + 1)      # keep the counter even where the target aligns labels itself
            ops.append(("o", v))
            ops.append(("a", k))
            ops.append(("l",))
    return ops


def compare_slotfree(C, sing, jr):
    """compare_joint with the scratch-file name slots (t<n>_ / u<n>_) of the parallel runs removed from the diagnostics"""
    def clean(b):
        return re.sub(rb"[tu]\d_(t\d+\.asm)", rb"\1", b)
    return C.compare_joint([(s[0], clean(s[1]), clean(s[2]), s[3]) for s in sing], (jr[0], clean(jr[1]), clean(jr[2]), jr[3]))


def run_t(C, bdir, wd, rng, quick, cpus_all, default, spec_fail, corr_fail, proof_problems, dist, distinct, samples, drv_ok):
    """T histories; returns number of evaluations"""
    groups = {}
    for c in cpus_all:
        key = (c["func"], c["valid"], tuple(sorted((s,) + tuple(v) for s, v in c["segs"].items() if (c["valid"] >> s) & 1)), tuple(c["inherited"]), c["ownChk"])
        groups.setdefault(key, []).append(c)
    reps = []
    for key in sorted(groups, key=lambda k: (k[0], k[1], k[3], str(k[2]))):
        g = groups[key]
        reps.append(g[0] if quick else None)
        if not quick:
            reps.pop()
            reps += g[:4]
    nz = [c for c in cpus_all if any((c["valid"] >> s) & 1 and c["segs"][s][2] != 0 and "SegInits[%d]" % s not in c["inherited"] for s in range(1, len(SEG)))]
    nz_by_seg = {}
    for c in nz:
        for s in range(1, len(SEG)):
            if (c["valid"] >> s) & 1 and c["segs"][s][2] != 0 and "SegInits[%d]" % s not in c["inherited"]:
                nz_by_seg.setdefault(s, []).append(c)
    lims = sorted(set(c["segs"][s][3] for c in cpus_all for s in range(1, len(SEG)) if (c["valid"] >> s) & 1 and "SegLimits[%d]" % s not in c["inherited"] and c["segs"][s][3] < (1 << 31)))
    dist["targetdesc_descriptor_groups"] = len(groups)
    dist["targetdesc_cpus"] = len(cpus_all)
    dist["targetdesc_nonzero_seginits_predecessors"] = {SEG[s]: len(v) for s, v in sorted(nz_by_seg.items())}
    reqs, metas = [], []
    single_cache = {}
    evaluations = 0
    skipped = []
    qcache = {}

    def quirk_of(c):
        key = (c["func"], c["valid"])
        if key not in qcache:
            qcache[key] = probe_label_quirk(C, bdir, wd, c)
        c["quirk"] = qcache[key]
        return qcache[key]
    for rep in reps:
        quirk_of(rep)
    plans = []
    for rep in reps:
        npred = 2 if quick else 3
        for hno in range(npred):
            # predecessor: CPUs that leave a non-zero start value in the segments the successor has (where one exists), plus random ones
            pcs = []
            for s in range(1, len(SEG)):
                if (rep["valid"] >> s) & 1 and s in nz_by_seg and rng.random() < 0.8:
                    pcs.append(rng.choice(nz_by_seg[s]))
            if rng.random() < 0.5:
                pcs.append(rng.choice(cpus_all))
            rng.shuffle(pcs)
            pcs = pcs[:4] or [rng.choice(nz)]
            for p in pcs:
                quirk_of(p)
            cpus = pcs + [rep]
            files = []
            pops = []
            for i in range(len(pcs)):
                pops.append(("c", i))
                if rng.random() < 0.3 and not any(1 in quirk_of(p) for p in pcs[:i + 1]):
                    pops.append(("l",))
            files.append(pops)
            files.append(gen_succ_ops(rng, rep, len(pcs), lims))
            if rng.random() < 0.3:
                # a third file: the same target again (its own description must not depend on its own earlier file either)
                files.append(gen_succ_ops(rng, rep, len(pcs), lims))
            srcs = [("t%d" % k, render_t(cpus, ops, k)) for k, ops in enumerate(files)]
            plans.append((rep, cpus, files, srcs))

    def execute(job):
        idx, (rep, cpus, files, srcs) = job
        jr = C.run_joint(bdir, wd, "t%d" % (idx % 8), srcs)
        sing = []
        if jr[0] in (0, 2):
            for nm, lines in srcs:
                key = "\n".join(lines)
                if key not in single_cache:
                    r = C.run_joint(bdir, wd, "u%d" % (idx % 8), [(nm, lines)])
                    single_cache[key] = (r[0], r[1], r[2], r[3][0])      # diagnostics name the scratch file: see compare_slotfree
                sing.append(single_cache[key])
        return jr, sing
    results = _pool_map(lambda slot, plan: execute((slot, plan)), plans)
    for (rep, cpus, files, srcs), (jr, sing) in zip(plans, results):
        if jr[0] not in (0, 2):
            spec_fail.append(dict(tag="targetdesc:%s" % rep["name"], why="joint run ended abnormally: %s" % jr[0], sources=srcs))
            continue
        evaluations += 1
        diffs = compare_slotfree(C, sing, jr)
        jout = (jr[1] + jr[2]).decode(errors="replace")
        jobs = [obs_of(jout, k, jr[3][k] is None) for k in range(len(files))]
        sobs = [obs_of((sing[k][1] + sing[k][2]).decode(errors="replace"), k, sing[k][3] is None) for k in range(len(files))]
        if None in jobs or None in sobs:
            skipped.append(rep["name"])
            if diffs:
                spec_fail.append(dict(tag="targetdesc:%s" % rep["name"], sig=None, why="a file's result in the joint run differs from its single run: %s" % diffs, sources=srcs))
            continue
        req = "T targets=%s dflt=%s files=%s joint=%s single=%s" % (";".join(desc_token(c) for c in cpus), desc_token(default),
                                                                     ";".join(",".join(op_tok(o) for o in ops) for ops in files), ";".join(jobs), ";".join(sobs))
        distinct.add("T:" + rep["name"] + ":" + req.split(" files=")[1].split(" joint=")[0])
        reqs.append(req)
        metas.append((rep, cpus, files, srcs, diffs))
    dist["targetdesc_histories"] = len(reqs)
    dist["targetdesc_targets_aligning_labels_themselves"] = sorted("%s:%s" % (k[0], ",".join(SEG[s] for s in sorted(v))) for k, v in qcache.items() if v)
    dist["targetdesc_successors_skipped"] = sorted(set(skipped))
    answers = common.driver("c18t", reqs, timeout=600) if drv_ok and reqs else []
    nbad = 0
    for (rep, cpus, files, srcs, diffs), req, ans in zip(metas, reqs, answers):
        kv = dict(x.split("=", 1) for x in ans.split() if "=" in x)
        if "corr" not in kv:
            proof_problems.append("driver c18t: bad answer `%s` for %s" % (ans[:100], rep["name"]))
            continue
        if len(samples) < 6 and (kv["spec"] == "bad" or rng.random() < 0.01):
            samples.append(dict(tag="targetdesc:" + rep["name"], sources=srcs, request=req, answer=ans))
        if kv["spec"] == "bad" or diffs:
            nbad += 1
            # attribute: elements the successor's CPU inherits in the segments its file enters
            keys = []
            for k, ops in enumerate(files[1:], 1):
                segs = {1} | {op[1] for op in ops if op[0] == "g"}
                for op in ops:
                    if op[0] == "c":
                        c = cpus[op[1]]
                        for key in c["inherited"]:
                            m = re.match(r"(SegInits|SegLimits)\[(\d+)\]", key)
                            if m and int(m.group(2)) in segs:
                                keys.append("target-desc-not-assigned:%s:%s[%s]" % (c["file"], m.group(1), SEG[int(m.group(2))]))
            for sg in sorted(set(keys)) or [None]:
                spec_fail.append(dict(tag="targetdesc:%s" % rep["name"], sig=sg,
                                      why="a file's result in the joint run differs from its single run (label values / diagnostics): %s %s" % (diffs, ans),
                                      sources=srcs, request=req))
        if kv["corr"] != "eq":
            corr_fail.append(dict(tag="targetdesc:%s" % rep["name"], why="Model/TargetDesc (description dumped from the current build) does not predict the real joint run",
                                  sources=srcs, request=req, answer=ans))
        if kv.get("mspec") != kv.get("spec") and kv["corr"] == "eq":
            proof_problems.append("model-internal (c18t T): corr=eq but verdicts differ on " + rep["name"])
    dist["targetdesc_histories_with_influence"] = nbad
    return evaluations


# ---------------------------------------------------------------------------------------------------------------------------------
# data pseudo-op successors after predecessors of the other byte-order group (all CPU families, differential)

DATA_CANDIDATES = ["byt 1,2,3", "byte 1,2,3", "db 1,2,3", "fcb 1,2,3", "dc.b 1,2,3", "dfb 1,2,3", ".byte 1,2,3", "defb 1,2,3",
                   "adr 4660", "fdb 4660", "word 4660", "dw 4660", "dc.w 4660", ".word 4660", "defw 4660", "data 4660", "dfw 4660",
                   "dd 305419896", "dc.l 305419896", "long 305419896", ".long 305419896", "dq 305419896", "data 1,2,3", "dc 4660",
                   "dw 4660,22136", "fdb 4660,22136", "word 4660,22136", "byt 1", "db 1", "byte 1"]
WORD_FIRST = ["adr 4660", "fdb 4660", "word 4660", "dw 4660", "dc.w 4660", ".word 4660", "defw 4660", "data 4660", "dfw 4660", "dc 4660"]


def compare_named(C, sing, jr):
    """compare_joint with the scratch-file names (d_s<k>.asm vs d_s.asm) removed from the diagnostics"""
    def clean(b):
        return re.sub(rb"d\d_(?:[ps]\d*|cal)\.asm", b"<src>", b)
    return C.compare_joint([(s[0], clean(s[1]), clean(s[2]), s[3]) for s in sing], (jr[0], clean(jr[1]), clean(jr[2]), jr[3]))


def _pool_map(fn, jobs, workers=4):
    """fn(slot, job) over jobs in `workers` threads; every running call owns one scratch-name slot; results in job order"""
    import concurrent.futures
    import threading
    slots = list(range(workers))
    lock = threading.Lock()

    def wrap(job):
        with lock:
            slot = slots.pop()
        try:
            return fn(slot, job)
        finally:
            with lock:
                slots.append(slot)
    with concurrent.futures.ThreadPoolExecutor(workers) as ex:
        return list(ex.map(wrap, jobs))


def run_data(C, bdir, wd, rng, quick, cpus_all, spec_fail, dist, distinct):
    by_func = {}
    for c in cpus_all:
        by_func.setdefault(c["func"], []).append(c)
    fams = []
    for fn in sorted(by_func):
        cs = by_func[fn]
        fams.append(cs[0])
        if not quick and len(cs) > 1:
            fams.append(cs[-1])

    # ---- phase 1 (parallel, no randomness): which data statements does the family accept, which byte order do they give alone
    def calibrate(slot, c):
        tag = "d%d" % slot
        lines = ["\tcpu " + c["name"]] + ["\t" + x for x in DATA_CANDIDATES]
        r = C.run_joint(bdir, wd, tag, [("cal", lines)])
        out = (r[1] + r[2]).decode(errors="replace")
        bad = set(int(m.group(1)) for m in re.finditer(r"d\d_cal\.asm\((\d+)\)", out))
        ok = [x for n, x in enumerate(DATA_CANDIDATES, 2) if n not in bad]
        if not ok:
            return None
        lines = ["\tcpu " + c["name"]] + ["\t" + x for x in ok]
        r = C.run_joint(bdir, wd, tag, [("cal", lines)])
        if r[0] != 0:
            return None
        w = [x for x in WORD_FIRST if x in ok]
        order = "none"
        if w:
            r1 = C.run_joint(bdir, wd, tag, [("cal1", ["\tcpu " + c["name"], "\t" + w[0]])])
            pl = C._payload(r1[3][0]) or ""
            order = "hi" if "1234" in pl else ("lo" if "3412" in pl else "other")
        return (lines, order, c, (r[0], r[1], r[2], r[3][0]))
    files = {}      # cpu name -> (lines, order class, descriptor, single run of the whole list)
    for c, res in zip(fams, _pool_map(calibrate, fams)):
        if res is not None:
            files[c["name"]] = res
    dist["data_families_with_accepted_data_statements"] = len(files)
    dist["data_byte_order_classes"] = {k: len([1 for v in files.values() if v[1] == k]) for k in ("hi", "lo", "other", "none")}
    names = sorted(files)

    # ---- phase 2 (sequential, all randomness): the histories
    BYTE_ONLY = ("byt ", "byte ", "db ", "fcb ", "dc.b ", "dfb ", ".byte ", "defb ")
    plans = []
    for nm in names:
        lines, order, c, _sp = files[nm]
        stmts = lines[1:]
        wide = [x for x in stmts if not x.strip().startswith(BYTE_ONLY)]
        # successors: a data statement may read state that the *first* statement of its own file already refreshes, so every wide statement
        # is also the only statement of a file; plus random subsets in random order; plus the whole list
        succs = [[lines[0], x] for x in wide]
        for _ in range(1 if quick else 4):
            sub = rng.sample(stmts, rng.randrange(1, min(len(stmts), 4) + 1))
            succs.append([lines[0]] + sub)
        succs.append(lines)
        # one invocation = a predecessor of the other byte-order group / of the same group (a stale flag may be wrong either way: a fresh
        # process has one fixed value) followed by all successor files of the family in random order
        opp = [x for x in names if files[x][1] not in (order, "none") and x != nm]
        same = [x for x in names if files[x][1] == order]
        plist = []
        for _ in range(1 if quick else 3):
            if opp:
                plist.append(rng.choice(opp))
            if same:
                plist.append(rng.choice(same))
        orders = []
        for pn in plist:
            order_s = list(range(len(succs)))
            rng.shuffle(order_s)
            orders.append((pn, order_s))
        plans.append((nm, succs, orders))

    # ---- phase 3 (parallel): single runs of every successor file, the joint runs
    def execute(slot, plan):
        nm, succs, orders = plan
        tag = "d%d" % slot
        sing = []
        for sl in succs:
            r = C.run_joint(bdir, wd, tag, [("s", sl)])
            sing.append((r[0], r[1], r[2], r[3][0]))
        joint = []
        for pn, order_s in orders:
            srcs = [("p", files[pn][0])] + [("s%d" % k, succs[k]) for k in order_s]
            joint.append((srcs, C.run_joint(bdir, wd, tag, srcs)))
        return sing, joint
    n = 0
    for (nm, succs, orders), (sing, joint) in zip(plans, _pool_map(execute, plans)):
        lines, order, c, _sp = files[nm]
        for (pn, order_s), (srcs, jr) in zip(orders, joint):
            n += 1
            distinct.add("data:%s+%s:%s" % (pn, nm, order_s))
            ss = [files[pn][3]] + [sing[k] for k in order_s]
            d = compare_named(C, ss, jr)
            if d:
                bad = [k for i, k in enumerate(order_s) if jr[3][i + 1] != ss[i + 1][3]]
                spec_fail.append(dict(tag="data:%s+%s" % (pn, nm), sig="data-byte-order-inherited:%s" % c["file"],
                                      why="data statements of a %s file assemble differently after a %s file and earlier files of its own family (byte order %s after %s; differing successor files %s): %s"
                                          % (nm, pn, order, files[pn][1], [";".join(x.strip() for x in succs[k][1:]) for k in bad][:4], d),
                                      sources=[list(x) for x in srcs]))
    dist["data_pairs"] = n
    return n


# ---------------------------------------------------------------------------------------------------------------------------------
# S histories: Motorola data pseudo-ops of three families + EXPORT_SYM, model Model/SharedState.lean

S_KINDS = [dict(cpu="6809", word="fdb", nop="nop"), dict(cpu="6502", word="adr", nop="nop"), dict(cpu="st6210", word="word", nop="nop"),
           dict(cpu="6811", word="fdb", nop="nop"), dict(cpu="65c02", word="adr", nop="nop"), dict(cpu="st6225", word="word", nop="nop")]


def calibrate_s(C, bdir, wd):
    """per kind: code of its NOP, and how its 16-bit data statement gets the byte order: 't' / 'f' (stored by the statement's own path) or '-'
    (whatever an earlier statement left) - measured: the statement after a high-first and after a low-first predecessor"""
    kinds = []
    for k in S_KINDS:
        r = C.run_joint(bdir, wd, "k", [("n", ["\tcpu " + k["cpu"], "\t" + k["nop"]])])
        recs = parse_records(r[3][0])
        if r[0] != 0 or not recs or len(recs) != 1:
            continue
        k = dict(k, nopbytes=recs[0][0].hex())
        outs = []
        for pred in (["\tcpu 6809", "\tfdb 1"], ["\tcpu 6502", "\tadr 1"]):
            jr = C.run_joint(bdir, wd, "k", [("a", pred), ("b", ["\tcpu " + k["cpu"], "\t%s 4660" % k["word"]])])
            recs = parse_records(jr[3][1])
            outs.append(recs[0][0].hex() if recs else None)
        if outs[0] is None or outs[1] is None:
            continue
        if outs[0] == outs[1]:
            k["src"] = "t" if outs[0] == "1234" else ("f" if outs[0] == "3412" else None)
        else:
            k["src"] = "-"
        # a machine statement of the family: does it store the flag (MakeCode calls DecodeMotoPseudo first)?
        if k["src"] in ("t", "f"):
            k["sets"] = k["src"]
        else:
            k["sets"] = "-"
        if k["src"] is not None:
            kinds.append(k)
    return kinds


def gen_s_file(rng, kinds, shape):
    k = rng.choice(kinds)
    ops = []
    n = rng.randrange(1, 7)
    for _ in range(n):
        r = rng.random()
        if r < 0.3:
            ops.append(("m",))
        elif r < 0.55:
            ops.append(("w", rng.choice([0x1234, 0xA55A, 0x00FF, 0x8001])))
        elif r < 0.8:
            ops.append(("n",))
        else:
            ops.append(("x", rng.randrange(1, 5)))
    if shape == "tail-export":
        ops += [("m",), ("n",), ("x", rng.randrange(1, 5))]
    elif shape == "only-export":
        ops = [("x", rng.randrange(1, 5))]
    elif shape == "export-then-code":
        ops += [("x", rng.randrange(1, 5)), ("m",)]
    elif shape == "code":
        ops += [("w", 0x1234)]
    return k, ops


def render_s(k, ops):
    lines = ["\tcpu " + k["cpu"]] + ["sym%d\tequ\t%d" % (i, i) for i in range(1, 5)]
    org = 0
    for op in ops:
        if op[0] == "m":
            lines.append("\t" + k["nop"])
        elif op[0] == "w":
            lines.append("\t%s %d" % (k["word"], op[1]))
        elif op[0] == "n":
            org += 0x100
            lines.append("\torg %d" % org)
        elif op[0] == "x":
            lines.append("\texport_sym sym%d" % op[1])
    return lines


def s_tok(k, op):
    if op[0] == "m":
        return "m%s:%s" % (k["sets"], k["nopbytes"])
    if op[0] == "w":
        return "w%s:%d" % (k["src"], op[1])
    if op[0] == "n":
        return "n"
    return "x%d" % op[1]


def recs_tok(pb):
    recs = parse_records(pb)
    if recs is None:
        return None
    out = []
    for b, names in recs:
        ks = []
        for nm in names:
            m = re.match(r"(?i)sym(\d+)$", nm)
            if not m:
                return None
            ks.append(m.group(1))
        out.append("%s/%s" % (b.hex() or "-", ",".join(ks) or "-"))
    return "|".join(out) or "-"


def run_s(C, bdir, wd, rng, quick, spec_fail, corr_fail, proof_problems, dist, distinct, samples, drv_ok):
    kinds = calibrate_s(C, bdir, wd)
    dist["shared_kinds"] = ["%s:%s" % (k["cpu"], k["src"]) for k in kinds]
    if len(kinds) < 3:
        proof_problems.append("correspondence: only %d Motorola-pseudo-op kinds could be calibrated" % len(kinds))
        return 0
    # does CloseFile write entries that are still queued behind an empty last record (the repaired behaviour)?  measured, model parameter
    r = C.run_joint(bdir, wd, "k", [("f", ["\tcpu 6502", "sym1\tequ\t1", "\tnop", "\torg 256", "\texport_sym sym1"])])
    pr = parse_records(r[3][0]) or []
    flush = 1 if any(names for _b, names in pr) else 0
    dist["shared_closefile_writes_queued_entries"] = bool(flush)
    shapes = ["random", "tail-export", "only-export", "export-then-code", "code"]
    reqs, metas = [], []
    n = 0
    for h in range(60 if quick else 600):
        nf = rng.choice([2, 2, 3])
        extra = 1 if rng.random() < 0.2 else 0
        fl = []
        for i in range(nf):
            shape = shapes[(h + i) % len(shapes)] if i < nf - 1 else rng.choice(["code", "random", "export-then-code"])
            fl.append(gen_s_file(rng, kinds, shape))
        srcs = [("s%d" % i, render_s(k, ops)) for i, (k, ops) in enumerate(fl)]
        env = {"ASL_VERIF_EXTRA_PASSES": str(extra)} if extra else None
        jr = C.run_joint(bdir, wd, "s", srcs, env=env)
        if jr[0] != 0:
            spec_fail.append(dict(tag="shared:%d" % h, why="joint run of an error-free history ended with status %s: %s" % (jr[0], (jr[1] + jr[2]).decode(errors="replace")[-300:]), sources=srcs))
            continue
        sing = []
        for nm, lines in srcs:
            r = C.run_joint(bdir, wd, "s", [(nm, lines)], env=env)
            sing.append((r[0], r[1], r[2], r[3][0]))
        n += 1
        diffs = C.compare_joint(sing, (jr[0], jr[1], jr[2], jr[3]))
        if extra:
            for i, (nm, lines) in enumerate(srcs):
                r0 = C.run_joint(bdir, wd, "s", [(nm, lines)])
                if C.norm_passes((r0[0], r0[1], r0[2], r0[3][0])) != C.norm_passes(sing[i]):
                    diffs.append("file %d: one forced further pass changes the result" % i)
        jt = [recs_tok(p) for p in jr[3]]
        st = [recs_tok(s[3]) for s in sing]
        if None in jt or None in st:
            proof_problems.append("harness: cannot read the records of a code file of history shared:%d" % h)
            continue
        req = "S flush=%d files=%s joint=%s single=%s" % (flush, ";".join("%d/%s" % (extra, ",".join(s_tok(k, o) for o in ops)) for k, ops in fl), ";".join(jt), ";".join(st))
        distinct.add("S:" + req.split(" joint=")[0])
        reqs.append(req)
        metas.append((h, fl, srcs, diffs, extra))
    dist["shared_histories"] = len(reqs)
    answers = common.driver("c18t", reqs, timeout=600) if drv_ok and reqs else []
    nbad = 0
    for (h, fl, srcs, diffs, extra), req, ans in zip(metas, reqs, answers):
        kv = dict(x.split("=", 1) for x in ans.split() if "=" in x)
        if "corr" not in kv:
            proof_problems.append("driver c18t: bad answer `%s` for shared:%d" % (ans[:100], h))
            continue
        if len(samples) < 8 and (kv["spec"] == "bad" and rng.random() < 0.2):
            samples.append(dict(tag="shared:%d" % h, sources=srcs, request=req, answer=ans))
        if kv["spec"] == "bad" or diffs:
            nbad += 1
            settled = kv.get("settled", "").split(",")
            sigs = set()
            # which class of unsettled file does the history contain?
            for (k, ops), s in zip(fl, settled):
                if s == "0":
                    if any(o[0] == "w" for o in ops) and k["src"] == "-":
                        sigs.add("data-byte-order-inherited:%s" % k_file(k))
                    toks = [o[0] for o in ops]
                    if "x" in toks:
                        sigs.add("export-pending-after-last-record")
            for sg in sorted(sigs) or [None]:
                spec_fail.append(dict(tag="shared:%d" % h, sig=sg, why="a file's code file in the joint run differs from its single run, or a forced pass changes it: %s %s" % (diffs, ans),
                                      sources=srcs, request=req, extra_passes=extra))
        if kv["corr"] != "eq":
            corr_fail.append(dict(tag="shared:%d" % h, why="Model/SharedState does not predict the records of the real joint run", sources=srcs, request=req, answer=ans))
    dist["shared_histories_with_influence"] = nbad
    return n


def k_file(k):
    return {"st6210": "codest6.c", "st6225": "codest6.c", "6809": "code6809.c", "6502": "code65.c", "6811": "code68.c", "65c02": "code65.c"}.get(k["cpu"], k["cpu"])


# ---------------------------------------------------------------------------------------------------------------------------------

def run(bdir, wd, args, rng, spec_fail, corr_fail, proof_problems, dist, distinct, samples, drv_ok):
    """returns (evaluations, evidence dict)"""
    from . import c18 as C
    from translate import targetdesc as T
    quick = args.tier == "quick"
    ev = {}
    try:
        rows, dyn, by_func = T.joined(bdir)
    except (T.ExtractError, T.G.ExtractError) as ex:
        if not any("translator" in p for p in proof_problems):
            proof_problems.append("translator: " + str(ex))
        return 0, dict(error=str(ex))
    # `ownChk` of a CPU name: the dumper saw a ChkPC other than DefChkPC after the switch (per CPU: 68HC12X only, of SwitchTo_6812)
    # the analyser must still give the specified answers on the synthetic generator (one pattern per rule of the abstract interpretation)
    from translate import targetdesc_selftest
    wrong = targetdesc_selftest.run()
    ev["analyser_selftest"] = "ok: %d patterns" % len(targetdesc_selftest.EXPECT) if not wrong else wrong
    if wrong:
        proof_problems.append("translator: translate/targetdesc.py self-test fails: " + "; ".join(wrong)[:600])
    # ---- (A) the two exception lists, evidence
    ll = lean_lists()
    if ll is None:
        proof_problems.append("C18_TargetDesc: cannot read the exception lists of Props/C18_TargetDesc.lean")
        ll = [set(), set()]
    if ll[0] != set(FINDINGS) or ll[1] != set(CHAIN_EXCEPTIONS):
        proof_problems.append("C18_TargetDesc: exception lists of Props/C18_TargetDesc.lean and c18_targetdesc.py differ: findings %s, chain %s"
                              % (sorted(ll[0] ^ set(FINDINGS)), sorted(ll[1] ^ set(CHAIN_EXCEPTIONS))))
    missing_ast, missing_dyn = [], []
    for r in rows:
        for arr in T.ARRAYS:
            key = (r["file"], r["func"], r["seg"], arr)
            waived = arr == "SegLimits" and r["ownChkPC"] and not r["readsLimits"]
            if not r["ast"][arr] and not waived:
                missing_ast.append(key)
                if key in ll[1] and not r["dyn"][arr]:
                    proof_problems.append("C18_targetdesc_complete: chain exception %s:%s:%s[%s] is not confirmed by the dynamic route" % (key[0], key[1], arr, SEG[key[2]]))
                if key not in ll[0] and key not in ll[1]:
                    proof_problems.append("C18_targetdesc_complete: %s does not assign %s[%s] on every path on which the segment is valid (%s), and the element is not a listed exception"
                                          % (r["func"], arr, SEG[r["seg"]], r["file"]))
            if r["cpus"] and not r["dyn"][arr]:
                missing_dyn.append(key)
    ev.update(switch_functions=len(by_func), segment_rows=len(rows), cpu_names=len(dyn),
              not_assigned_on_every_path_ast=["%s:%s:%s[%s]" % (k[0], k[1], k[3], SEG[k[2]]) for k in missing_ast],
              inherited_at_run_time=["%s:%s:%s[%s]" % (k[0], k[1], k[3], SEG[k[2]]) for k in missing_dyn],
              seglimits_waived_own_chkpc=sorted(set("%s:%s" % (r["file"], r["func"]) for r in rows if r["ownChkPC"] and not r["readsLimits"] and not r["ast"]["SegLimits"])),
              findings={"%s:%s:%s[%s]" % (k[0], k[1], k[3], SEG[k[2]]): v for k, v in sorted(FINDINGS.items())},
              chain_exceptions={"%s:%s:%s[%s]" % (k[0], k[1], k[3], SEG[k[2]]): v for k, v in sorted(CHAIN_EXCEPTIONS.items())},
              exceptions_no_longer_needed=["%s:%s:%s[%s]" % (k[0], k[1], k[3], SEG[k[2]]) for k in sorted(set(FINDINGS) | set(CHAIN_EXCEPTIONS)) if k not in missing_ast])
    default = [c for c in dyn if c["name"] == "68008"]
    if not default:
        proof_problems.append("correspondence: default target 68008 not in the CPU list")
        return 0, ev
    n = 0
    # ---- regression histories (corpus/C18/hist_*.json: two-file witnesses of past findings), run first
    import json
    cdir = os.path.join(common.VERIF, "corpus", "C18")
    nc = 0
    for fn in sorted(os.listdir(cdir)) if os.path.isdir(cdir) else []:
        if not (fn.startswith("hist_") and fn.endswith(".json")):
            continue
        d = json.load(open(os.path.join(cdir, fn)))
        srcs = [("c%d" % k, lines) for k, lines in enumerate(d["files"])]
        jr = C.run_joint(bdir, wd, "h", srcs)
        sing = []
        for nm, lines in srcs:
            r = C.run_joint(bdir, wd, "h", [(nm, lines)])
            sing.append((r[0], r[1], r[2], r[3][0]))
        nc += 1
        distinct.add("corpus-history:" + fn)
        diffs = C.compare_joint(sing, (jr[0], jr[1], jr[2], jr[3]))
        if diffs:
            spec_fail.append(dict(tag="corpus-history:" + fn, sig=d.get("sig"), why="regression history: a file's result in the joint run differs from its single run: %s" % diffs, sources=srcs))
    dist["targetdesc_corpus_histories"] = nc
    n += nc
    n += run_t(C, bdir, wd, rng, quick, dyn, default[0], spec_fail, corr_fail, proof_problems, dist, distinct, samples, drv_ok)
    n += run_data(C, bdir, wd, rng, quick, dyn, spec_fail, dist, distinct)
    n += run_s(C, bdir, wd, rng, quick, spec_fail, corr_fail, proof_problems, dist, distinct, samples, drv_ok)
    return n, ev
