"""C09, stream (T): the byte / word / long statements of the TMS3202x / 3205x / 3254x (tipseudo.c pseudo_store with the callbacks
wr_code_byte_hilo / _lohi / wr_code_byte / wr_code_word / wr_code_long: STRING, RSTRING, BYTE, WORD, LONG), mixed with DATA.

A slot = optional CHARSET statements, 1..3 statements and a sentinel.  The arguments of a statement are drawn as ELEMENTS at
LANES: integers over the whole accepted range of the element width and one step beyond it (negative values and the boundaries
-2^(w-1), -1, 2^(w-1)-1, 2^(w-1), 2^w-1 favoured), double-quoted strings (one element per character, CHARSET-mapped),
single-quoted constants up to one character beyond the operand size.  Two shapes:

* sweep:  a boundary value is put at a chosen element position (every position of the packed word is reached: first / second
          byte of a word, first / last element of the statement, behind an odd or an even string), the neighbours are random;
* random: every argument drawn independently.

The code file is read back per slot as (byte offset, byte) cells; driver mode `c09t` compares them with Model/DataTI.lean (B)
and, regrouped into 16-bit address units, with Spec/DataTI.lean (C).  Harness (batching, slots, error attribution): c09_data.
"""
from collections import Counter

from .. import common
from . import c09_data, c09_ext

SEG_CODE = 1
SEG_DATA = 2

TT = [
    dict(name="320C25", cpu="320C25", key="320C25", seg=SEG_CODE, typ="Int16", bits=16, pack="2", gran=2, syn="intel", pre=[],
         base=0x40, slot=0x40, nslot=40, weight=5),
    dict(name="320C25-data", cpu="320C25", key="320C25", seg=SEG_DATA, typ="Int16", bits=16, pack="2", gran=2, syn="intel",
         pre=["\tsegment data"], base=0x40, slot=0x40, nslot=40, weight=2),
    dict(name="320C50", cpu="320C50", key="320C50", seg=SEG_CODE, typ="Int16", bits=16, pack="2", gran=2, syn="intel", pre=[],
         base=0x40, slot=0x40, nslot=40, weight=5),
    dict(name="320C541", cpu="320C541", key="320C541", seg=SEG_CODE, typ="Int16", bits=16, pack="2", gran=2, syn="intel", pre=[],
         base=0x40, slot=0x40, nslot=40, weight=4),
]

# op: request token, mnemonic, element width, operand size in characters, address units per element (numerator, denominator)
OPS = {
    "S": dict(mn="string", bits=8, chars=1),
    "R": dict(mn="rstring", bits=8, chars=1),
    "B": dict(mn="byte", bits=8, chars=1),
    "W": dict(mn="word", bits=16, chars=2),
    "L": dict(mn="long", bits=32, chars=4),
    "D": dict(mn="data", bits=16, chars=2),
}
OP_WEIGHTS = [("S", 8), ("R", 7), ("B", 3), ("W", 2), ("L", 2), ("D", 2)]

LETTERS = c09_ext.LETTERS
ALPHA = c09_ext.ALPHA


def boundary(rng, w):
    lo, hi = -(1 << (w - 1)), (1 << w) - 1
    return rng.choice([lo, lo, -1, -1, hi, (1 << (w - 1)) - 1, 1 << (w - 1), lo + 1, -2, 0, hi - 1, -(1 << (w - 2))])


def in_range(rng, w):
    lo, hi = -(1 << (w - 1)), (1 << w) - 1
    r = rng.random()
    if r < 0.35:
        return rng.randrange(lo, 0)
    if r < 0.5:
        return boundary(rng, w)
    return rng.randrange(0, hi + 1)


def out_of_range(rng, w):
    lo, hi = -(1 << (w - 1)), (1 << w) - 1
    if rng.random() < 0.12:
        return rng.choice([1, -1]) * (1 << rng.choice([32, 33, 40, 62])) + rng.randrange(lo, hi + 1)    # in range modulo 2^32
    return rng.choice([lo - 1, hi + 1, lo - 2, hi + 2, 2 * hi, 2 * lo, (1 << 63) - 1, -(1 << 63) + 1, rng.randrange(hi + 1, 4 * hi), rng.randrange(4 * lo, lo)])


def t_string(rng, maxlen=5):
    n = rng.choice([0, 1, 1, 2, 2, 3, 3, 4, maxlen])
    pool = LETTERS[:12] if rng.random() < 0.6 else ALPHA
    return ("s", bytes(rng.choice(pool) for _ in range(n)))


def t_chr(rng, chars):
    n = rng.choice([1, 1, chars, chars, chars + 1, max(1, chars - 1)])
    return ("c", bytes(rng.choice(LETTERS[:12]) for _ in range(n)))


def n_elems(op, a):
    """elements an argument contributes"""
    if a[0] == "s":
        return len(a[1])
    if a[0] == "c":
        return 1 if len(a[1]) <= OPS[op]["chars"] else len(a[1])
    return 1


def t_neighbour(rng, op):
    w, chars = OPS[op]["bits"], OPS[op]["chars"]
    r = rng.random()
    if r < 0.22:
        return t_string(rng)
    if r < 0.3:
        return t_chr(rng, chars)
    return ("i", in_range(rng, w))


def t_stmt(c09, rng, tgt, stats):
    op = rng.choices([o for o, _ in OP_WEIGHTS], [w for _, w in OP_WEIGHTS])[0]
    if op == "D":
        stats["t:data"] += 1
        return dict(op="D", args=c09_data.d_stmt(c09, rng, tgt, stats))
    w = OPS[op]["bits"]
    n = rng.choice([1, 2, 2, 3, 3, 4, 4, 5, 6])
    r = rng.random()
    if r < 0.55:
        shape = "sweep"
        args = [t_neighbour(rng, op) for _ in range(n)]
        p = rng.randrange(n)
        args[p] = ("i", boundary(rng, w))
        if rng.random() < 0.3:                       # a second boundary value next to it
            q = min(n - 1, p + 1) if rng.random() < 0.5 else max(0, p - 1)
            args[q] = ("i", boundary(rng, w))
    elif r < 0.9:
        shape = "random"
        args = [t_neighbour(rng, op) for _ in range(n)]
    else:
        shape = "out-of-range"
        args = [t_neighbour(rng, op) for _ in range(n)]
        args[rng.randrange(n)] = ("i", out_of_range(rng, w))
    if rng.random() < 0.01:
        args[rng.randrange(n)] = ("f", c09.dbits(1.5))
        stats["t:float"] += 1
    stats["t:%s:%s" % (OPS[op]["mn"], shape)] += 1
    # which lanes did the integers reach
    pos = 0
    for a in args:
        if a[0] == "i" and op in ("S", "R"):
            sign = "neg" if a[1] < 0 else "nonneg"
            stats["t:%s:int-%s-in-%s-byte" % (OPS[op]["mn"], sign, "2nd" if pos % 2 else "1st")] += 1
        if a[0] in ("s", "c") and op in ("S", "R") and n_elems(op, a) % 2 == 1:
            stats["t:%s:odd-string" % OPS[op]["mn"]] += 1
        pos += n_elems(op, a)
    if op in ("S", "R"):
        stats["t:%s:total-%s" % (OPS[op]["mn"], "odd" if pos % 2 else "even")] += 1
    return dict(op=op, args=args)


def t_units(tgt, st):
    """upper bound of the address units a statement occupies"""
    if st["op"] == "D":
        return c09_data.d_units(tgt, st["args"])
    n = sum(max(1, n_elems(st["op"], a)) for a in st["args"])
    return {"S": (n + 1) // 2, "R": (n + 1) // 2, "B": n, "W": n, "L": 2 * n}[st["op"]]


def t_sentinel():
    return dict(op="D", args=[("i", 0xa5)])


def t_src(c09, rng, tgt, st):
    return "\t%s %s" % (OPS[st["op"]]["mn"], ",".join(c09_data.src_warg(c09, rng, a, tgt["syn"]) for a in st["args"]))


def t_case(c09, rng, tgt, stats, tries=0):
    ops = c09_ext.gen_charset(rng, stats) if rng.random() < 0.25 else []
    tstmts = [t_stmt(c09, rng, tgt, stats)]
    r = rng.random()
    if r < 0.35:
        tstmts.append(t_stmt(c09, rng, tgt, stats))
    if r < 0.1:
        tstmts.append(t_stmt(c09, rng, tgt, stats))
    tstmts.append(t_sentinel())
    pc0 = rng.choice([0, 0, 1, 2])
    if pc0 + sum(t_units(tgt, s) for s in tstmts) > tgt["slot"] - 2:
        if tries > 30:
            tstmts = [dict(op="S", args=[("i", 1), ("i", -1)]), t_sentinel()]
        else:
            return t_case(c09, rng, tgt, stats, tries + 1)
    frame = "codepage" if (ops and rng.random() < 0.4) else "charset"
    return finish_case(c09, rng, dict(tgt=tgt, pc0=pc0, tstmts=tstmts, csops=ops, frame=frame))


def finish_case(c09, rng, c):
    """source lines of the slot (c09_data.d_build_source takes them as they are)"""
    tgt = c["tgt"]
    c["stmts"] = [s["args"] for s in c["tstmts"]]
    c["srcs"] = [t_src(c09, rng, tgt, s) for s in c["tstmts"]]
    c["cs_srcs"] = [c09_ext.src_csop(o) for o in c["csops"]]
    c["cs_end"] = []
    if c["csops"]:
        if c["frame"] == "codepage":
            c["cs_srcs"] = ["\tcodepage cpt%d,standard" % rng.randrange(1 << 30)] + c["cs_srcs"]
            c["cs_end"] = ["\tcodepage standard"]
        else:
            c["cs_end"] = ["\tcharset"]
    return c


def t_hand_cases(c09, rng):
    T = {t["name"]: t for t in TT}
    out = []

    def add(tn, stmts, csops=(), pc0=0):
        out.append(finish_case(c09, rng, dict(tgt=T[tn], pc0=pc0, tstmts=[dict(op=o, args=a) for o, a in stmts] + [t_sentinel()],
                                              csops=list(csops), frame="charset", hand=True)))
    S = lambda x: ("s", x)
    I = lambda *v: [("i", x) for x in v]
    for tn in ("320C25", "320C50", "320C541"):
        add(tn, [("S", I(1, 2, 255)), ("S", [S(b"AB"), ("i", 200)])])
        add(tn, [("S", I(0)), ("S", I(255)), ("S", I(-128))])
        add(tn, [("R", I(1, 2, 3)), ("R", [S(b"abc"), ("c", b"a"), ("c", b"ab")])])
        add(tn, [("B", I(1, 255, -128) + [S(b"ab")])])
        add(tn, [("W", I(-32768, 65535) + [("c", b"ab"), ("c", b"abc"), S(b"a")])])
        add(tn, [("L", I(-2147483648, 4294967295, 0x12345678) + [("c", b"abcd"), S(b"a")])])
        add(tn, [("S", I(256))])
        add(tn, [("R", I(-129))])
    add("320C25", [("S", [S(b"abc"), S(b"abc")])], csops=[("range", 97, 121, 98)])
    add("320C25-data", [("S", I(1, 2, 3)), ("D", [S(b"abc"), ("i", 1)])])
    return out


def probe_cut32(c09, bdir, wd):
    """self-calibration: does pseudo_store still hand the value to its callbacks through a 32-bit parameter
    (`byte 100000001h` accepted and laid as 0001: True) or range-check the full-width value (statement refused: False)?"""
    rc, out, data = c09.assemble(bdir, wd, "probe_cut32", "\tcpu 320c25\n\torg 100h\n\tbyte 100000001h\n\tword 55aah\n")
    if rc != 0:
        # the repaired code reports 'range overflow' for the first statement; make sure that is the reason
        rc2, out2, data2 = c09.assemble(bdir, wd, "probe_cut32b", "\tcpu 320c25\n\torg 100h\n\tbyte 1\n\tword 55aah\n")
        return False if rc2 == 0 and data2 is not None else None
    if data is None:
        return None
    for seg, gran, start, bs in c09_ext.parse_records(data) or []:
        if start == 0x100 and bs[:4] in (b"\x01\x00\xaa\x55", b"\x00\x01\x55\xaa"):
            return True
    return None


def t_request(c, cut=False):
    t = c["tgt"]
    toks = ["cut=1" if cut else "cut=0", t["key"], str(t["seg"]), t["typ"], str(t["bits"]), t["pack"], str(c["pc0"]), str(len(c["csops"]))]
    for o in c["csops"]:
        toks += c09_ext.ser_csop(o)
    toks.append(str(len(c["tstmts"])))
    for st in c["tstmts"]:
        toks.append("%s:%d" % (st["op"], len(st["args"])))
        toks += [c09_data.ser_warg(a) for a in st["args"]]
    if c["real"] == "ERR":
        toks.append("ERR")
    else:
        toks.append("OK")
        for off, bs in c["real"]:
            toks.append("%d:%s" % (off, bs.hex()))
    return " ".join(toks)


def t_classify(c, cut32=True):
    """signature of the input class of a spec failure"""
    if c["real"] != "ERR":
        # accepted although an integer is out of range: every such integer is out of the 32-bit range as well
        # (its low 32 bits were what the range check saw).  Since /repo commit 5ab0322 (probe cut32 = False) only LONG
        # (wr_code_long: no range check at all) is left of that class - a defect the probe shows to be absent
        # cannot explain a failure of the other statements.
        bad = [(st["op"], a[1]) for st in c["tstmts"] if st["op"] != "D" for a in st["args"]
               if a[0] == "i" and not (-(1 << (OPS[st["op"]]["bits"] - 1)) <= a[1] < (1 << OPS[st["op"]]["bits"]))]
        if not cut32 and any(op != "L" for op, _ in bad):
            return None
        if bad and all(not (-(1 << 31) <= v < (1 << 31)) for _, v in bad):
            return "ti-pseudo-store-value-cut-to-32-bit-before-range-check"
    return None


def run_part(c09, args, bdir, wd, ok, probes):
    thorough = args.tier != "quick"
    stats, dist = Counter(), Counter()
    spec_fail, corr_fail, samples, problems = [], [], [], []
    distinct = set()
    known_hits = Counter()
    rng = common.rng_for(args.seed, "C09T")
    n_cases = 16000 if thorough else 1400
    by_t = {}
    for c in t_hand_cases(c09, rng):
        by_t.setdefault(c["tgt"]["name"], []).append(c)
    weights = [t["weight"] for t in TT]
    for _ in range(n_cases):
        tgt = rng.choices(TT, weights)[0]
        by_t.setdefault(tgt["name"], []).append(t_case(c09, rng, tgt, stats))
    all_cases = []
    bno = 0
    for tn, cs in by_t.items():
        tgt = next(t for t in TT if t["name"] == tn)
        for i in range(0, len(cs), tgt["nslot"]):
            batch = cs[i:i + tgt["nslot"]]
            for p in c09_data.d_run_batch(c09, bdir, wd, rng, tgt, batch, "t%d" % bno):
                corr_fail.append(dict(tag="harness", why=p))
            bno += 1
            all_cases += batch
    cut32 = probe_cut32(c09, bdir, wd)
    if cut32 is None:
        problems.append("self-calibration probe cut32 failed (`byte 100000001h` on the 320C25 neither assembles to 0001 nor is refused alone)")
    reqs, metas = [], []
    for c in all_cases:
        if c["real"] == "LOST":
            continue
        reqs.append(t_request(c, bool(cut32)))
        metas.append(c)
    answers = common.driver("c09t", reqs, timeout=3600) if ok and reqs else []
    n = 0
    for c, rq, ans in zip(metas, reqs, answers):
        kv = dict(x.split("=", 1) for x in ans.split() if "=" in x)
        n += 1
        t = c["tgt"]
        dist["t-target:" + t["name"]] += 1
        dist["t-outcome:" + ("error" if c["real"] == "ERR" else "bytes")] += 1
        dist["t-charset:" + ("active" if [o for o in c["csops"] if o[0] != "reset"] else "identity")] += 1
        for st in c["tstmts"][:-1]:
            dist["t-stmt:" + OPS[st["op"]]["mn"]] += 1
        key = " ".join(rq.split()[:-1]) if c["real"] == "ERR" else rq
        if kv.get("mres") not in (None, "1", "2") or c["real"] == "ERR":
            distinct.add("t " + key)
        if len(samples) < 3 and (n % 197 == 9 or (c.get("hand") and len(samples) < 1)):
            samples.append(dict(target=t["name"], source=c["source"], real=(c["real"] if isinstance(c["real"], str) else [(o, bb.hex()) for o, bb in c["real"]]),
                                verdict=ans[:200]))
        if "model" not in kv:
            problems.append("driver rejected a request: %s / %s" % (ans, rq[:300]))
            continue
        realtxt = c["real"] if isinstance(c["real"], str) else [(o, bb.hex()) for o, bb in c["real"]]
        # hypothesis of the whole-slot theorem C09_ti_slot_model_eq_spec evaluated by the driver on this case
        dist["t-theorem-hypothesis:" + ("met" if kv.get("pre") == "1" else "not-met")] += 1
        if kv.get("thm") != "ok":
            problems.append("C09_ti_slot_model_eq_spec contradicted by the executable definitions: %s / %s" % (ans[:200], rq[:300]))
        if kv.get("pre") == "1" and kv["model"] == "eq" and kv["spec"] != "ok":
            problems.append("case inside the proved domain (model = spec) with model = real but spec != real: %s" % rq[:300])
        if kv["spec"] != "ok":
            sig = t_classify(c, cut32 is not False) if kv["model"] == "eq" else None
            known_hits[str(sig)] += 1
            spec_fail.append(dict(sig=sig, target=t["name"], source=c["source"], request=rq, mode="c09t",
                                  why="real output differs from the specification of STRING/RSTRING/BYTE/WORD/LONG (each element in its own lane): real=%s spec(units)=%s"
                                      % (realtxt, kv.get("sout", "?"))))
        if kv["model"] != "eq":
            corr_fail.append(dict(tag="TI-pseudo", target=t["name"], source=c["source"], request=rq, mode="c09t",
                                  why="real output differs from the Lean model: real=%s model=%s" % (realtxt, kv.get("mout", "?"))))
    return dict(spec_fail=spec_fail, corr_fail=corr_fail, evaluations=len(answers), distinct=distinct, dist=dist, stats=stats,
                samples=samples, problems=problems, known_hits=known_hits, probes=dict(cut32=cut32))
