"""C16 - spelling the manual declares irrelevant does not change the code.

(C) metamorphic oracle on the golden corpus: every golden source is rewritten per line with seeded choices among the
    rewrites the manual declares immaterial, assembled like test_driver.c does, converted with p2bin and compared with the
    recorded tests/<t>/<t>.ori.  A changed image (or a rejected source) is a VIOLATION with the rewritten source as replay.
(B) correspondence: (1) every rewritten logical line goes through the Lean model of SplitLine before/after the rewrite
    (fields must be equal up to letter case of op/attr; a pair the model rejects is NOT applied and counted);
    (2) generated probe files (labels, colons, attributes, blanks, quotes, brackets, comments, CR-LF, ^Z, continuation)
    are assembled by the real asl under -U with a reporting macro (MESSAGE "<label|attr|args..|ARGCOUNT>") and the
    observed fields are compared with Model/Split.lean (ReadLnCont + SplitLine), on three QualifyQuote variants
    (68000: NULL, Z80: AF', SC/MP: H'..' constants);
    (3) the SPEC's structured lines are rendered and the theorem instance split(render l) = fields l is evaluated.

Statements that prepare state for the next one / prefix-style statements (added after seeded changes C16-e/f were missed):
  * every second run of a golden source gets a blank or comment-only line between (nearly) every two lines, so that each directive that acts
    on "the instruction following directly" (Z380 DDIR), each parallel / continued instruction (TMS320C6x `||`, uPD772x OP sub-operations) is
    separated from its partner by a line without an instruction at least once per run;
  * the separator runs label->mnemonic and mnemonic->parameters are also *respelled* (blank <-> tab), not only extended;
  * for the prefix-style statements of PREFIX_KINDS the gaps inside the first parameter (prefix word -> inner mnemonic -> first operand) are
    respelled and the inner mnemonic recased; `#define NAME text` lines are respelled in their two gaps; the Lean model judges each such
    line with the code generator's own second-level split (driver modes c16px / c16def);
  * vlib/props/c16_prefix.py: generated and hand-written prefix texts for six families in plain / tab-first / blank-first / mixed spellings and
    with blank, comment-only and label-only lines between all statements; Z380 DDIR/JP programs against Model/PrefixCarry + Spec/PrefixCarry.

Long lines and definitions that carry more than a value (added after seeded changes C16-g/h were missed): vlib/props/c16_long.py
  * generated data lines with many operands whose argument field / comment / single argument / whole line sweeps in steps of one over the sizes of
    SplitLine's component buffers (STRINGSIZE = 1024 and the growth steps 1152, 1280, ...) by changing only blanks, tabs and the comment; every line
    against the bytes written in it and against Model/Split.lean splitBufRun (driver mode c16sweep; Props/C16_Long.lean: no buffer copy loses a character);
  * texts on targets where the definition of a symbol carries a data size, a register, a bit position or a segment (8086 DB/DW/STRUCT, REG, BIT, SFR,
    PORT, 8051 segments), plain vs to-macro / to-include / REPT 1 / IRP with one value / nested macros.

Lines moved into INCLUDE files where the INCLUDE line itself would act as a statement (added after seeded change C16-i was missed): vlib/props/c16_incl.py
  * the to-include runs of the corpus sweep cut the rewritten golden source at random statement boundaries into include files nested up to 3 (preferably
    directly behind a label-only line, in front of a parallel `||` instruction, next to SAVE / RESTORE / ON-OFF statements) instead of moving the whole text;
  * generated source trees on the four targets that pad instruction words to even addresses (68000, MSP430, TMS9900, AVR byte mode): labels on lines of their
    own / on the INCLUDE line / on a macro call in front of padded objects, IF 1 / ENDIF and SAVE / RESTORE across file boundaries, macro definitions inside
    include files, reserved space; tree spelling and flat spelling against Spec/InclPad (the PADDING paragraph as layout) and Model/InclPad (asmlabel.c,
    InsertPadding, ResetLastLabel of Produce_Code); Props/C16_Incl.lean: tree = flat on the model for every tree.

Letter case inside one token and in the parameter field (added after seeded change C16-k was missed: the upper-casing of the M16C format letter in `MOV.B:s`):
  * the mnemonic field of the targets with AttrChars ".:" (`MOV.B:G`, `BCLR:G`) was not recognised as a mnemonic with attribute and never recased; it is now, with
    per-letter and per-part styles (`MoV.b:s`), and the Lean gate splits such lines with the target's own AttrChars (pspec 2e3a);
  * the parameter field of every statement without character / string constants is recased word by word (registers, hex digits, `h`/`x` number letters, symbols,
    functions); the model gate for such a line is "fields equal up to letter case of mnemonic, attribute and parameters" (Spec/SrcLine.lean normAll, c16pair eqc);
  * Model/AttrPart.lean (DecodeAttrPart_M16C + CheckFormat) and Props/C16_Attr.lean: C16_attr_case_m16c - two spellings of an attribute that differ only in letter
    case give the same size, format text and error decision, for every AttrSplit and every previous content of the Format buffer.

The rewrite generator is deliberately conservative (a false alarm is worse than a miss); every exclusion is listed in
EXCLUSIONS below and counted in the evidence.
"""
import json
import os
import re
import shutil

from .. import common
from ..common import log
from . import c16_prefix
from . import c16_long
from . import c16_incl

EXCLUSIONS = [
    "lines ending in a backslash (continuation) and the line after them: nothing is inserted or changed (only the line end may become CR-LF)",
    "MACRO/IRP/IRPC/IRPN/REPT/WHILE header lines, their bodies and the ENDM line: untouched (parameters may be stringified / re-split)",
    "lines containing \\{ (string interpolation): untouched; '#' preprocessor lines: only '#define NAME text' / '#undef NAME' are respelled, and only in the "
    "gaps between directive, name and text, the case of the directive word and trailing blanks (no comment is added: Preprocess() does not cut comments)",
    "letter case of the mnemonic field (incl. attribute): only if it is a plain [A-Za-z_][A-Za-z0-9_]* word with optional .attr - on the targets whose SwitchTo function sets "
    "AttrChars = '.:' (read from the current /repo sources: M16C, M16, H8/500, H16, 97C241) with up to three .attr / :attr parts in either order; upper, lower, per-letter random, or "
    "every part (mnemonic, size, format) in a style of its own; with -U in asflags never for names defined as MACRO/STRUCT/UNION in the file",
    "letter case of the parameter field (register names, hex digits, number-system letters, symbols, built-in functions, keywords - every word that contains a letter gets a style of its "
    "own): never with -U; never in a parameter field that holds a quote or a backslash (character / string constants keep their spelling); not for INCLUDE/BINCLUDE/READ/CPU/PAGE/END, "
    "not on calls of macros / structures defined in the file (parameters may be stringified), not on prefix-style statements (PREFIX_KINDS) and not on ST9 targets (the manual's ST9 "
    "hints: general registers `R...` vs working registers `r...` - the case of a register name is its meaning there); label fields keep their spelling; on DSP56xxx sources the "
    "free-standing accumulator names A / B keep the golden spelling in runs that also get a whole-file rewrite (the known finding " + "dsp56k-parallel-move-accumulator-spelled-in-two-cases-refused" + " is "
    "then only reachable in plain runs, where it is attributed exactly: same run with A / B restored must reproduce the .ori)",
    "blanks: only trailing, before the mnemonic (where a blank already is; the whole run may be respelled blank<->tab), between mnemonic and argument field (inserted or the "
    "whole run respelled), and directly after a top-level ',' of the argument field; never inside an operand.  Inside the first parameter only for the prefix-style "
    "statements of PREFIX_KINDS (MSP430X RPTC/RPTZ, TMS320C6x ||/[cond], uPD772x OP, Rabbit 2000 ALTD), where the first parameter carries a further mnemonic: the gaps "
    "prefix word -> mnemonic -> first operand are gaps between components of the line",
    "uPD77230 multi-instruction lines (several mnemonics with operands on one line, divided where the operand count of each mnemonic says): inner gaps NOT respelled "
    "(where the line divides is not a property of the spelling alone; not modelled)",
    "SH7000 DCT/DCF prefix: not used as material (code7000.c DecodeDCT_DCF only splits its argument and emits nothing - the DSP instructions are not implemented)",
    "argument-separator blanks, comment append/removal: not on lines containing a single quote (per-target QualifyQuote rules: AF' on Z80, H'12' constants) and only where label/mnemonic contain no quote/bracket/backslash",
    "comment is appended only where the quote/bracket scan of the line ends outside quotes and brackets; appended text never ends in a backslash",
    "sources that select a DSP56xxx CPU: no blanks after ',' (the manual: 'exception: DSP56xxx, its parallel data transfers are separated with blanks')",
    "colon: only for a non-empty label in column 1 followed by a blank or the line end; 'lab:op' without blank is left alone",
    "blank/comment-only lines are not inserted after a continuation line nor inside macro/repetition bodies; sources using MOMLINE are not given extra lines; "
    "label-only lines are inserted only in the generated prefix texts (c16_prefix.py), never into golden sources (a new global label changes what '.local' style "
    "and nameless temporary labels of the source attach to)",
    "every rewritten line must have model fields equal to the original's (Lean c16pair); otherwise the rewrite of that line is dropped (counted as model_rejected)",
    "to-macro: only sources without MACRO/ENDM/IRP*/REPT/WHILE/EXITM/SHIFT/END/'#' lines, continuation lines, ATTRIBUTE/ALLARGS/ARGCOUNT/__LABEL__ words "
    "(texts that define/call macros and repetitions referring to their own labels are covered by the generated wrap texts instead)",
    "cut-into-includes (c16_incl.py): cuts only at statement boundaries outside macro / repetition bodies and never behind a continuation line; a run that goes into a "
    "file is balanced in its IF / SWITCH structure (an INCLUDE line inside a skipped region is not executed, so conditional lines of its file would not be seen); END and "
    "the text behind it stay in the main file; sources that read MOMLINE / MOMFILE keep the whole-text form; no label is put on the INCLUDE line of a golden source "
    "(generated trees do that); generated trees: no reserved space on AVR (RES is itself word-aligned there), IF 1 / ENDIF across files only in trees without macro calls",
    "long-line sweeps (c16_long.py): the swept lines carry no label (all spellings of one line stand in one source); operands are decimal numbers, '(d)' and 'd+d' "
    "only (no quotes: per-target QualifyQuote rules); a sweep wrapped into MACRO / IRP whose lines contain TABs and reach the line buffer in TAB-expanded form is "
    "attributed to the known finding macro-body-line-with-tabs-expands-beyond-line-buffer (the quick tier wraps TAB-free sweeps into MACRO / IRP for that reason)",
    "golden sources, long argument fields: only the gap mnemonic -> parameters is widened (to argument fields of 1023..1281 characters), on at most nine statements per "
    "source, not on continuation lines, macro/repetition bodies, '#' lines, lines whose head contains quotes or brackets",
]

SPACES = " \t\n\x0b\x0c\r"
PSPEC = "2c/1/2e/3b/n"

# prefix-style statements: the code generator splits the first parameter once more at blanks/tabs.
# CPU name (as in the CPU statement, upper case) -> (model kind of Model/Split.lean resplit, parameter spec of the target's SplitLine)
PREFIX_KINDS = {
    "32060": ("c6x", "2c/1/2e/3b/n"),
    "MSP430X": ("rpt", "2c/1/2e/3b/n"),
    "7720": ("op", "2c/0/2e/3b/n"),
    "7725": ("op", "2c/0/2e/3b/n"),
    "RABBIT2000": ("altd", "2c/0/2e/3b/z"),
}
PREFIX_OPS = {"c6x": None, "rpt": {"RPTC", "RPTZ"}, "op": {"OP"}, "altd": {"ALTD"}}


def hx(s):
    return s.encode("latin-1").hex() or "-"


def unhx(h):
    return "" if h in ("-", ".", "") else bytes.fromhex(h).decode("latin-1")


# ------------------------------------------------------------------------------------------------
# harness-side line analysis (plumbing for *where* to rewrite; the Lean model judges the result)

def toplevel(s):
    """QuotPosCore with QualifyQuote = NULL: top[i] = position i is outside quotes and brackets; final neutrality"""
    brack = ang = 0
    sgl = dbl = esc = False
    top = []
    for ch in s:
        top.append(not ang and not brack and not sgl and not dbl)
        nxt = False
        if ch == '"':
            if not sgl and not esc:
                dbl = not dbl
        elif ch == "'":
            if not dbl and not esc:
                sgl = not sgl
        elif ch == "\\":
            if (sgl or dbl) and not esc:
                nxt = True
        elif ch == "(":
            if not ang and not dbl and not sgl:
                brack += 1
        elif ch == ")":
            if not ang and not dbl and not sgl:
                brack -= 1
        elif ch == "[":
            if not brack and not dbl and not sgl:
                ang += 1
        elif ch == "]":
            if not brack and not dbl and not sgl:
                ang -= 1
        esc = nxt
    return top, (not ang and not brack and not sgl and not dbl)


_ANALYZE_CACHE = {}


def analyze(line):
    """cached; the returned dict must not be modified"""
    a = _ANALYZE_CACHE.get(line)
    if a is None:
        if len(_ANALYZE_CACHE) > 400000:
            _ANALYZE_CACHE.clear()
        a = _ANALYZE_CACHE[line] = _analyze(line)
    return a


def _analyze(line):
    top, neutral = toplevel(line)
    cpos = None
    for i, ch in enumerate(line):
        if ch == ";" and top[i]:
            cpos = i
            break
    body = line if cpos is None else line[:cpos]
    n = len(body)
    a = dict(cpos=cpos, neutral=neutral, label=None, label_col1=False, op=None, argstart=n, commas=[], body_len=n)
    i = 0
    if n and body[0] not in SPACES:
        j = 0
        while j < n and body[j] not in SPACES and body[j] != ":":
            j += 1
        a["label"] = (0, j)
        a["label_col1"] = True
        i = j + 1 if j < n else n
    guard = 0
    while guard < 50:
        guard += 1
        while i < n and body[i] in SPACES:
            i += 1
        if i >= n:
            break
        if body[i] == ",":
            a["argstart"] = i
            break
        j = i
        while j < n and body[j] not in SPACES:
            j += 1
        tok = body[i:j]
        if (a["label"] is None or a["label"][0] == a["label"][1]) and tok.endswith(":"):
            a["label"] = (i, j - 1)
            a["label_col1"] = False
            i = j + 1 if j < n else n
            continue
        a["op"] = (i, j)
        a["argstart"] = min(j + 1, n)
        break
    a["commas"] = [k for k in range(a["argstart"], n) if body[k] == "," and top[k]]
    return a


OP_RE = re.compile(r"^[A-Za-z_][A-Za-z0-9_]*(\.[A-Za-z0-9_]+)?$")
# targets whose SwitchTo_*() sets AttrChars = ".:" (mnemonic.size:format / mnemonic:format.size): the whole attribute, with both separators, is mnemonic field
OP_RE_COLON = re.compile(r"^[A-Za-z_][A-Za-z0-9_]*([.:][A-Za-z0-9_]+){0,3}$")
PSPEC_COLON = "2c/1/2e3a/3b/n"
_ATTR_COLON_CPUS = None


def attr_colon_cpus():
    """CPU names (upper case) of the code generators whose SwitchTo function sets AttrChars to a set containing ':' - read from the current /repo sources"""
    global _ATTR_COLON_CPUS
    if _ATTR_COLON_CPUS is None:
        out = set()
        try:
            for fn in sorted(os.listdir(common.REPO)):
                if not (fn.startswith("code") and fn.endswith(".c")):
                    continue
                t = open(os.path.join(common.REPO, fn), "rb").read().decode("latin-1")
                if re.search(r'AttrChars\s*=\s*"[^"]*:[^"]*"', t):
                    out |= {m.upper() for m in re.findall(r'AddCPU\w*\(\s*"([^"]+)"', t)}
        except OSError:
            pass
        _ATTR_COLON_CPUS = out
    return _ATTR_COLON_CPUS
BODY_OPEN = {"MACRO", "IRP", "IRPC", "IRPN", "REPT", "WHILE"}


def op_upper(line):
    a = analyze(line)
    if a["op"] is None:
        return "", a
    return line[a["op"][0]:a["op"][1]].upper().split(".")[0], a


def classify(lines):
    """frozen[i] = line i must stay byte-identical (except its line end); noinsert[i] = no line may be inserted before i"""
    frozen = [False] * len(lines)
    noinsert = [False] * len(lines)
    depth = 0
    prev_cont = False
    names = set()
    for i, l in enumerate(lines):
        opu, a = op_upper(l)
        labu = l[a["label"][0]:a["label"][1]].upper() if a["label"] else ""
        if prev_cont:
            frozen[i] = True
            noinsert[i] = True
        cont = l.endswith("\\")
        if cont:
            frozen[i] = True
        prev_cont = cont
        if "\\{" in l:
            frozen[i] = True
        if depth > 0:
            frozen[i] = True
            noinsert[i] = True
        if opu in BODY_OPEN:
            depth += 1
            frozen[i] = True
        elif (opu == "ENDM" or labu == "ENDM") and depth > 0:
            depth -= 1
            frozen[i] = True
        if opu in ("MACRO", "STRUCT", "UNION") and labu:
            names.add(labu)
    return frozen, noinsert, names


def prefix_sites(line, a, kind):
    """prefix-style statement of the given kind: (blank runs inside the first parameter that separate prefix word(s), inner mnemonic and
    first operand, span of the inner mnemonic); ([], None) if the line is no such statement or its first parameter is not plain"""
    if a["op"] is None or kind is None:
        return [], None
    body = line[:a["body_len"]]
    opu = body[a["op"][0]:a["op"][1]].upper()
    if kind == "c6x":
        is_px = opu == "||" or opu.startswith("[")
    else:
        is_px = opu in PREFIX_OPS[kind]
    if not is_px:
        return [], None
    n = len(body)
    i = a["argstart"]
    while i < n and body[i] in SPACES:
        i += 1
    end = a["commas"][0] if a["commas"] else n
    words, runs = [], []
    j = i
    while j < end:
        k = j
        while k < end and body[k] not in " \t":
            k += 1
        words.append((j, k))
        r = k
        while r < end and body[r] in " \t":
            r += 1
        if k < r < end:
            runs.append((k, r))
        j = r
    if not words:
        return [], None
    lead = 0
    if kind == "c6x":
        if opu == "||":
            while lead < len(words) and body[words[lead][0]] == "[":
                lead += 1
    elif kind == "rpt":
        lead = 1
    nsep = lead + 1
    runs = runs[:nsep]
    upto = runs[-1][1] if runs else words[min(lead, len(words) - 1)][1]
    seg = body[i:upto]
    if any(c in seg for c in "\"'()\;"):
        return [], None
    for (ws, we) in words[:nsep]:
        w = body[ws:we]
        if ("[" in w or "]" in w) and not (kind == "c6x" and w.startswith("[") and w.endswith("]") and w.count("[") == 1 and w.count("]") == 1):
            return [], None
    mn = words[lead] if lead < len(words) else None
    return runs, mn


DEFINE_RE = re.compile(r"^([ \t]*)#([A-Za-z]+)([ \t]+)(\S+)(?:([ \t]+)(\S(?:.*\S)?))?([ \t]*)$")


def rewrite_define(rng, line):
    """'#define NAME text' / '#undef NAME': gaps respelled, directive word recased, trailing blanks; everything else untouched"""
    m = DEFINE_RE.match(line)
    if not m or m.group(2).upper() not in ("DEFINE", "UNDEF"):
        return line, []
    if m.group(2).upper() == "UNDEF" and m.group(6) is not None:
        return line, []
    lead, word, g1, name, g2, text, trail = m.groups()
    kinds = []
    if rng.random() < 0.5:
        nw = recase(rng, word)
        if nw != word:
            word = nw
            kinds.append("define-case")
    if rng.random() < 0.7:
        g1 = blanks(rng)
        kinds.append("define-gap")
    if g2 is not None and rng.random() < 0.7:
        g2 = blanks(rng)
        if "define-gap" not in kinds:
            kinds.append("define-gap")
    if rng.random() < 0.3:
        trail = blanks(rng)
        kinds.append("trailing-blanks")
    return lead + "#" + word + g1 + name + (g2 + text if g2 is not None else "") + trail, kinds


COMMENTS = ["c16", " rewritten", "x 'y", ' "q', ";;", " (", "\ttab [", " 1,2", "\\ x"]


def blanks(rng):
    return "".join(rng.choice(" \t") for _ in range(rng.choice([1, 1, 2, 3, 7])))


def recase(rng, s):
    k = rng.randrange(4)
    if k == 0:
        return s.upper()
    if k == 1:
        return s.lower()
    if k == 2:
        # every component (mnemonic, each attribute part) in a style of its own: MOV.b:G, mov.B:s
        return "".join(p if p in ".:" else (p.upper(), p.lower(), "".join(c.upper() if rng.random() < 0.5 else c.lower() for c in p))[rng.randrange(3)]
                       for p in re.split(r"([.:])", s))
    return "".join(c.upper() if rng.random() < 0.5 else c.lower() for c in s)


# ---- letter case in the parameter field (register names, hex digits, number-system letters, symbols, built-in functions, keywords)
# ST9: the manual's ST9 hints distinguish general registers `R...` (register file) from working registers `r...`: the case of a register name is its meaning there
ARGCASE_CASE_MEANS_CPUS = ("ST90",)
KNOWN_56K_SIG = "dsp56k-parallel-move-accumulator-spelled-in-two-cases-refused"
ACC_WORD_RE = re.compile(r"(?<![A-Za-z0-9_.$@?])[aAbB](?![A-Za-z0-9_.$@?])")
ARGCASE_SKIP_OPS = {"INCLUDE", "BINCLUDE", "READ", "CPU", "PAGE", "ENDM", "END"}
ARG_WORD_RE = re.compile(r"[A-Za-z0-9_.$@?]*[A-Za-z][A-Za-z0-9_.$@?]*")


def recase_args(rng, argtext):
    """every word of the parameter field (maximal run of name / number characters that contains a letter) gets a style of its own: upper, lower, per-letter random, unchanged"""
    def one(m):
        w = m.group(0)
        k = rng.randrange(5)
        if k == 0:
            return w.upper()
        if k == 1:
            return w.lower()
        if k == 2:
            return w
        return "".join(c.upper() if rng.random() < 0.5 else c.lower() for c in w)
    return ARG_WORD_RE.sub(one, argtext)


def rewrite_line(rng, line, caseok_names, stats, blank_divides=False, kind=None, colon_attr=False, argcase=None):
    """returns (new line, list of rewrite kinds applied)"""
    a = analyze(line)
    kinds = []
    body = line[:a["body_len"]]
    comment = line[a["body_len"]:]
    has_sq = "'" in line
    head_end = a["argstart"]
    head_plain = not any(c in body[:head_end] for c in "\"'()[]\\")
    edits = []  # (position in body, delete count, insert text), applied right to left

    # colon after a column-1 label (decided first: a respelled run next to the label must not collide with it)
    label_edit = False
    if a["label"] and a["label_col1"] and a["label"][1] > 0 and rng.random() < 0.4:
        e = a["label"][1]
        nxt = body[e] if e < len(body) else ""
        if nxt == ":":
            after = body[e + 1] if e + 1 < len(body) else ""
            if after == "" or after in " \t":
                if after == "" and not comment:
                    edits.append((e, 1, ""))
                    kinds.append("colon-removed")
                elif after != "":
                    edits.append((e, 1, ""))
                    kinds.append("colon-removed")
                elif comment:
                    edits.append((e, 1, " "))
                    kinds.append("colon-removed")
                label_edit = True
        elif nxt == "" or nxt in " \t":
            edits.append((e, 0, ":"))
            kinds.append("colon-added")
            label_edit = True
    # letter case of mnemonic/attribute
    if a["op"] and rng.random() < 0.5:
        s, e = a["op"]
        tok = body[s:e]
        if (OP_RE_COLON if colon_attr else OP_RE).match(tok) and re.split(r"[.:]", tok.upper())[0] not in caseok_names:
            nt = recase(rng, tok)
            if nt != tok:
                edits.append((s, e - s, nt))
                kinds.append("case")
                if ":" in tok:
                    kinds.append("case-colon-attr")
    # letter case of the parameter field: only where it holds no quote / backslash (character and string constants keep their spelling) and the statement is
    # not one whose parameters are file names or (ARGCASE_SKIP_OPS) / a call of a macro defined in this file (parameters may be stringified in the body)
    args_new = None
    if argcase is not None and a["op"] and a["argstart"] < len(body) and rng.random() < 0.4:
        opu_ = re.split(r"[.:]", body[a["op"][0]:a["op"][1]].upper())[0]
        argtext = body[a["argstart"]:]
        if not any(c in argtext for c in "\"'\\") and opu_ not in ARGCASE_SKIP_OPS and opu_ not in argcase:
            na = recase_args(rng, argtext)
            if na != argtext:
                args_new = na      # same length: applied in place before the positional edits below
                kinds.append("case-args")
    # blanks before the mnemonic: inserted, or the whole run respelled (blank <-> tab)
    if a["op"] and rng.random() < 0.35:
        s = a["op"][0]
        if s > 0 and body[s - 1] in " \t":
            rs = s
            while rs > 0 and body[rs - 1] in " \t":
                rs -= 1
            lab_end = a["label"][1] if a["label"] else 0
            if not label_edit and head_plain and rs >= lab_end and rng.random() < 0.5 and (rs > 0 or not a["label"]):
                edits.append((rs, s - rs, blanks(rng)))
                kinds.append("gap-before-op-respelled")
            else:
                edits.append((s, 0, blanks(rng)))
                kinds.append("gap-before-op")
    # blanks after the mnemonic: inserted, or the whole run respelled
    if a["op"] and rng.random() < 0.35:
        e = a["op"][1]
        if e < len(body) and body[e] in " \t" and body[e + 1:].strip(SPACES):
            re_ = e
            while re_ < len(body) and body[re_] in " \t":
                re_ += 1
            if rng.random() < 0.5:
                edits.append((e, re_ - e, blanks(rng)))
                kinds.append("gap-after-op-respelled")
            else:
                edits.append((e + 1, 0, blanks(rng)))
                kinds.append("gap-after-op")
    # prefix-style statements: the gaps inside the first parameter (prefix word -> mnemonic -> first operand), case of the inner mnemonic
    if kind is not None and head_plain:
        runs, mn = prefix_sites(line, a, kind)
        for (rs, re_) in runs:
            if rng.random() < 0.7:
                edits.append((rs, re_ - rs, blanks(rng)))
                if "prefix-inner-gap" not in kinds:
                    kinds.append("prefix-inner-gap")
        if mn is not None and rng.random() < 0.4:
            tok = body[mn[0]:mn[1]]
            if OP_RE.match(tok) and tok.upper().split(".")[0] not in caseok_names:
                nt = recase(rng, tok)
                if nt != tok:
                    edits.append((mn[0], mn[1] - mn[0], nt))
                    kinds.append("prefix-inner-case")
    # blanks after argument separators
    if a["commas"] and not has_sq and head_plain and not blank_divides and rng.random() < 0.5:
        for k in a["commas"]:
            if rng.random() < 0.6:
                edits.append((k + 1, 0, blanks(rng)))
                if "gap-after-comma" not in kinds:
                    kinds.append("gap-after-comma")
    if args_new is not None:
        body = body[:a["argstart"]] + args_new
    # right to left; at one position the replacement first, then the insertion in front of it
    for pos, dele, ins in sorted(edits, key=lambda t: (-t[0], t[1] == 0)):
        body = body[:pos] + ins + body[pos + dele:]
    # comment
    r = rng.random()
    if comment:
        if r < 0.25 and not has_sq and head_plain:
            comment = ""
            kinds.append("comment-removed")
        elif r < 0.4:
            comment = comment + blanks(rng)
            kinds.append("trailing-blanks")
    else:
        if r < 0.25 and a["neutral"] and not has_sq and head_plain:
            comment = rng.choice(["", " ", "\t"]) + ";" + rng.choice(COMMENTS)
            if comment.endswith("\\"):
                comment += "."
            kinds.append("comment-added")
        elif r < 0.45:
            comment = blanks(rng)
            kinds.append("trailing-blanks")
    return body + comment, kinds


def _restore_acc(orig, rewritten):
    """the rewritten line with every free-standing accumulator name A / B spelled as in the original (recasing keeps positions only without the positional edits,
    so the words are matched in order)"""
    ow = ACC_WORD_RE.findall(orig)
    it = iter(ow)
    if len(ACC_WORD_RE.findall(rewritten)) != len(ow):
        return orig
    return ACC_WORD_RE.sub(lambda m: next(it), rewritten)


def split_lines(raw):
    """physical lines of a source (latin-1 text) with their line ends"""
    out = []
    for m in re.finditer(r"([^\n]*)(\n|$)", raw):
        if m.group(0) == "":
            break
        l = m.group(1)
        eol = m.group(2)
        if l.endswith("\r") and eol:
            l = l[:-1]
            eol = "\r\n"
        out.append((l, eol))
    return out


def rewrite_source(rng, raw, flags, stats, mode):
    """mode: 'lines' per-line rewrites; returns (physical lines, texts, rewritten lines, pairs for the model gate, ...)
    pairs: (line index, original, rewritten, gate) with gate = ("pair",) | ("px", kind, pspec) | ("def",)"""
    pl = split_lines(raw)
    lines = [l for l, _ in pl]
    frozen, noinsert, names = classify(lines)
    case_sensitive = any(f.startswith("-U") or f == "-u" for f in flags)
    case_names = names if case_sensitive else set()
    uses_momline = "MOMLINE" in raw.upper()
    # DSP56xxx: blanks separate parallel moves (DivideChars = " \t"), so a blank after ',' is NOT immaterial there
    blank_divides = any(f.lower().startswith("56") for f in flags) or any(
        op_upper(l)[0] == "CPU" and l[op_upper(l)[1]["argstart"]:].strip(SPACES).startswith("56") for l in lines)
    stats["blank_divides"] = blank_divides
    new = []
    pairs = []
    cur_cpu = None
    for i, l in enumerate(lines):
        opu, a = op_upper(l)
        if opu == "CPU":
            cur_cpu = l[a["argstart"]:a["body_len"]].strip(SPACES).upper()
        if frozen[i]:
            new.append((l, []))
            stats["frozen_lines"] += 1
            continue
        if l.lstrip(SPACES).startswith("#"):
            nl, kinds = rewrite_define(rng, l)
            new.append((nl, kinds))
            if nl != l:
                pairs.append((i, l, nl, ("def",)))
            else:
                stats["frozen_lines"] += 1
            continue
        kp = PREFIX_KINDS.get(cur_cpu)
        colon_attr = cur_cpu in attr_colon_cpus()
        nl, kinds = rewrite_line(rng, l, case_names, stats, blank_divides, kp[0] if kp else None, colon_attr=colon_attr,
                                 argcase=None if (case_sensitive or kp or (cur_cpu or "").startswith(ARGCASE_CASE_MEANS_CPUS)) else names)
        new.append((nl, kinds))
        if nl != l:
            pairs.append((i, l, nl, ("px", kp[0], kp[1]) if any(k.startswith("prefix-inner") for k in kinds)
                          else ("pair", PSPEC_COLON if colon_attr else PSPEC, "case-args" in kinds)))
    return pl, lines, new, pairs, frozen, noinsert, uses_momline


INSERTED = ["", "   ", "\t", "; c16 inserted", " \t; inserted"]


def assemble_text(rng, pl, new, noinsert, uses_momline, eol_mode, stats, counts, dense=False, inserted=None):
    """dense: a blank / comment-only line between (nearly) every two lines - in particular directly behind every statement that prepares
    state for the next one (directive prefixes, parallel / continued instructions); inserted: list that receives (index of the line it precedes, text)"""
    out = []
    n = len(new)
    p_ins = 0.6 if dense else 0.06
    for i, (l, kinds) in enumerate(new):
        if not uses_momline and not noinsert[i] and rng.random() < p_ins:
            t = rng.choice(INSERTED)
            out.append(t)
            if inserted is not None:
                inserted.append((i, t))
            counts["blank-line-inserted"] = counts.get("blank-line-inserted", 0) + 1
        out.append(l)
    # line ends
    text = []
    for l in out:
        if eol_mode == "crlf":
            e = "\r\n"
        elif eol_mode == "lf":
            e = "\n"
        else:
            e = rng.choice(["\n", "\r\n"])
        text.append(l + e)
    return "".join(text)


# ------------------------------------------------------------------------------------------------
# real runs

def build_image(bdir, d, name, flags, incdirs, timeout=120):
    """asl + p2bin like test_driver.c; returns (image bytes or None, diagnostic text)"""
    f = os.path.join(d, name + ".asm")
    extra = []
    for x in incdirs:
        extra += ["-i", x]
    for ext in (".p", ".bin", ".h"):
        try:
            os.unlink(os.path.join(d, name + ext))
        except OSError:
            pass
    rc, so, se, p = common.assemble_test(bdir, d, name, f, flags, extra_flags=extra, timeout=timeout)
    if rc != 0:
        return None, "asl rc=%s: %s" % (rc, (so + se).decode("latin-1")[-600:])
    rc2, so2, se2 = common.run_tool(bdir, "p2bin", ["-q", "-k", "-l", "0", "-r", "0x-0x", os.path.join(d, name)], d)
    b = os.path.join(d, name + ".bin")
    if rc2 != 0 or not os.path.exists(b):
        return None, "p2bin rc=%s: %s" % (rc2, (so2 + se2).decode("latin-1")[-300:])
    return open(b, "rb").read(), ""


LONG_SEQ = [1024, 1025, 1023, 1152, 1153, 1151, 1280, 1281, 1279]      # each buffer size first: it is met at the capacity the buffer has at that moment


def long_gap_sites(rng, lines, frozen):
    """[(line index, line with the gap mnemonic -> parameters widened)]: statements with parameters, in source order, whose argument field (everything behind the
    one separator after the mnemonic, up to the comment) becomes LONG_SEQ[0], LONG_SEQ[1], ... characters long"""
    cands = []
    for i, l in enumerate(lines):
        if frozen[i] or l.lstrip(SPACES).startswith("#") or len(l) >= 200 or "\\" in l:
            continue
        opu, a = op_upper(l)
        if a["op"] is None or opu in BODY_OPEN or opu in ("ENDM", "END", "") or not OP_RE.match(l[a["op"][0]:a["op"][1]]):
            continue
        body = l[:a["body_len"]]
        e = a["op"][1]
        if not (e < len(body) and body[e] in " \t" and body[e + 1:].strip(SPACES)):
            continue
        if any(c in body[:a["argstart"]] for c in "\"'()[]"):
            continue
        cands.append(i)
    if not cands:
        return []
    pick = sorted(rng.sample(cands, min(len(cands), len(LONG_SEQ))))
    out = []
    for tgt, i in zip(LONG_SEQ, pick):
        l = lines[i]
        a = analyze(l)
        e = a["op"][1]
        k = tgt - (a["body_len"] - e - 1)
        out.append((i, l[:e + 1] + " " * k + l[e + 1:]))
    return out


MACRO_BLOCK = re.compile(r"\b(MACRO|ENDM|IRP|IRPC|IRPN|REPT|WHILE|EXITM|SHIFT|END|ATTRIBUTE|ALLARGS|ARGCOUNT|__LABEL__|MOMLINE|SECTION|ENDSECTION|STRUCT|ENDSTRUCT|UNION|ENDUNION|INCLUDE|BINCLUDE|LOCAL)\b", re.I)


ONOFF = {"BIGENDIAN", "BRANCHEXT", "COMPLITERALS", "DOTTEDSTRUCTS", "DSP", "EXTMODE", "FPU", "FULLPMMU", "LWORDMODE", "MAXMODE",
         "PACKING", "PADDING", "PMMU", "SRCMODE", "WRAPMODE", "SUPMODE", "CPU"}


def builtin_sets(raw):
    """number of statements that (re)define a built-in changeable symbol (CPU -> MOMCPU/MOMCPUNAME and the flag symbols, ON/OFF statements)"""
    return sum(1 for l in raw.split("\n") if op_upper(l.rstrip("\r"))[0] in ONOFF)


def macro_applicable(raw):
    if "#" in "".join(l.lstrip(SPACES)[:1] for l in raw.split("\n")):
        return False
    for l in raw.split("\n"):
        if l.rstrip("\r").endswith("\\"):
            return False
        opu, a = op_upper(l.rstrip("\r"))
        lab = l[a["label"][0]:a["label"][1]].upper() if a["label"] else ""
        if MACRO_BLOCK.fullmatch(opu or "x_") or MACRO_BLOCK.fullmatch(lab or "x_"):
            return False
        if re.search(r"\b(ATTRIBUTE|ALLARGS|ARGCOUNT|__LABEL__|MOMLINE)\b", l, re.I):
            return False
    return True


# ------------------------------------------------------------------------------------------------
# generated whole-text rewrites: texts that themselves define/call macros and repetitions referring to the text's own labels
# (the corpus stream excludes such sources from to-macro); oracle = the image of the unrewritten text, cross-checked by the harness's
# own expectation of the bytes (every statement is a data statement or a jump whose encoding the generator computes itself)

def gen_wrap_text(rng):
    """Z80 text; returns (lines, expected image from address 0)"""
    nlab = rng.randrange(2, 6)
    labs = ["L%d%s" % (i, rng.choice(["", "x", "_q"])) for i in range(nlab)]
    items = []          # ("lab", name) | ("bytes", [..]) with symbolic refs ("lo", name) / ("hi", name) / ("rel", name)
    src = ["\tcpu z80"]
    mname = "jt%d" % rng.randrange(100)
    dname = "em%d" % rng.randrange(100)
    src += ["%s\tmacro tgt" % mname, "\tjp tgt", "\tendm", "%s\tmacro v,w" % dname, "\tdb v,(w)&255", "\tendm"]
    todo = list(labs)
    rng.shuffle(todo)
    n = rng.randrange(6, 16)
    for k in range(n):
        if todo and (rng.random() < 0.35 or n - k <= len(todo)):
            l = todo.pop()
            src.append("%s:\tnop" % l if rng.random() < 0.5 else "%s\tnop" % l)
            items += [("lab", l), ("bytes", [0])]
            continue
        r = rng.random()
        t = rng.choice(labs)
        if r < 0.25:
            src.append("\t%s %s" % (mname if rng.random() < 0.5 else mname.upper(), t))
            items.append(("bytes", [0xc3, ("lo", t), ("hi", t)]))
        elif r < 0.45:
            c = rng.randrange(1, 4)
            src += ["\trept %d" % c, "\tdb %s&255" % t, "\tendm"]
            items.append(("bytes", [("lo", t)] * c))
        elif r < 0.6:
            vals = [rng.randrange(256) for _ in range(rng.randrange(1, 4))]
            src += ["\tirp zz,%s" % ",".join(str(v) for v in vals), "\tdb zz,(%s>>8)&255" % t, "\tendm"]
            b = []
            for v in vals:
                b += [v, ("hi", t)]
            items.append(("bytes", b))
        elif r < 0.75:
            v = rng.randrange(256)
            src.append("\t%s %d,%s" % (dname, v, t))
            items.append(("bytes", [v, ("lo", t)]))
        elif r < 0.85:
            # nested: a repetition inside a repetition referring to a label of the text
            src += ["\trept 2", "\tirpc ch,\"12\"", "\tdb ch,%s&255" % t, "\tendm", "\tendm"]
            items.append(("bytes", [1, ("lo", t), 2, ("lo", t)] * 2))
        elif r < 0.90:
            # string and character constants that end in an escaped backslash or contain escaped quotes, with further operands behind
            body_, bs_ = rng.choice([("C:\\\\", [67, 58, 92]), ("\\\\", [92]), ("a\\\"b", [97, 34, 98]), ("x\\\\\\\\", [120, 92, 92]), ("q;\\\\", [113, 59, 92])])
            v = rng.randrange(256)
            src.append("\tdb \"%s\",%d" % (body_, v))
            items.append(("bytes", bs_ + [v]))
        elif r < 0.93:
            # text of any 8-bit character set inside a string constant (and in the comment behind it): the manual places no
            # restriction on the characters of a string, whatever way the line reaches the assembler
            txt = "".join(rng.choice("Aaz09 \xe4\xf6\xfc\xdf\xc4\xa7\xb5\xff\x80\xe9") for _ in range(rng.randrange(1, 7)))
            src.append("\tdb \"%s\",%d\t; %s" % (txt, len(txt), txt))
            items.append(("bytes", list(txt.encode("latin-1")) + [len(txt)]))
        else:
            v = rng.randrange(256)
            src.append("\tdb %d" % v)
            items.append(("bytes", [v]))
    for l in todo:
        src.append("%s:\tnop" % l)
        items += [("lab", l), ("bytes", [0])]
    # layout
    addr = 0
    val = {}
    for it in items:
        if it[0] == "lab":
            val[it[1]] = addr
        else:
            addr += len(it[1])
    img = []
    for it in items:
        if it[0] == "bytes":
            for b in it[1]:
                if isinstance(b, tuple):
                    b = (val[b[1]] & 255) if b[0] == "lo" else (val[b[1]] >> 8) & 255
                img.append(b)
    return src, bytes(img)


def wrap_variants(rng, src):
    """(tag, files) for the spellings of the whole text the manual declares equivalent"""
    head, body = src[:1], src[1:]
    e = "\n"
    plain = e.join(src) + e
    out = [("plain", {"w.asm": plain})]
    out.append(("to-macro", {"w.asm": e.join(head + ["c16wrap\tmacro"] + body + ["\tendm", "\tc16wrap"]) + e}))
    out.append(("to-macro-after-other-expansion",
                {"w.asm": e.join(head + ["c16pre\tmacro", "\tendm", "\tc16pre", "c16wrap\tmacro"] + body + ["\tendm", "\tc16wrap"]) + e}))
    out.append(("to-include", {"w.asm": e.join(head + ["\tinclude \"c16body.inc\""]) + e, "c16body.inc": e.join(body) + e}))
    # comments and blanks are immaterial: a comment behind every line of the text (labels, macro/repetition headers, ENDM included)
    out.append(("comments-added", {"w.asm": e.join(head + [l + rng.choice(["\t; note", " ;x", ";", "\t\t; a 'quote\" ; in ; it"]) for l in body]) + e}))
    out.append(("to-include-in-macro", {"w.asm": e.join(head + ["c16wrap\tmacro", "\tinclude \"c16body.inc\"", "\tendm", "\tC16WRAP"]) + e,
                                        "c16body.inc": e.join(body) + e}))
    return out


# ------------------------------------------------------------------------------------------------
# probe files for the correspondence real splitter <-> model

PROBE_TARGETS = [
    dict(cpu="68000", pspec="2c/1/2e/3b/n", pool=["x", "(1,2)", "[3,4]", "'a,b'", "a+b", "1  2", "(a)", "#5", "''", "';'", "x'", "(", "q[1,2]z", "-(a7)", "')'", "'('", "a;b"]),
    dict(cpu="z80", pspec="2c/0/2e/3b/z", pool=["af'", "af", "AF'", "'a,b'", "(hl)", "x", "f'", "baf'", "a,b", "';'", "(1,2)", "Af' "]),
    dict(cpu="sc/mp", pspec="2c/0/2e/3b/s", pool=["h'12'", "H'1F", "x'ab", "b'101", "o'17,", "'a,b'", "x", "h'", "h'1g", "q'12", "b'12", "h'12+1", "(1,2)", "X'0A'"]),
]
OPS = ["tm", "TM", "Tm", "tM"]
OPS_COUNT = ["tc", "TC", "tC"]      # reporting macro that prints only label, attribute and ARGCOUNT: arguments may contain " \\ |
DQ_POOL = ['"a,b"', '("a,b")', '";"', '(";")', '"\\""', '"a\\",b"', "'\\''", '["x,y"]', '"it\'s"', "'\"'", '"(",x', '")"', 'a|b', '"\\\\",y',
           '(")")', '("(")', '[")"]', '("]")', "(')')", "['[']", '("),(")', '(\'"\')', '("\'")']


def corpus_lines(cpu):
    f = os.path.join(common.VERIF, "corpus", "C16", "probe_%s.txt" % cpu.replace("/", ""))
    if not os.path.exists(f):
        return []
    return [l.rstrip("\n") for l in open(f, encoding="latin-1") if not l.startswith("#") and l.strip()]


def gen_probe(rng, tgt, ncases):
    """returns text (latin-1) of one probe source; hand-written corpus lines come first"""
    L = ["\tcpu %s" % tgt["cpu"]]
    for o in OPS:
        attr = "ATTRIBUTE" if tgt["pspec"].split("/")[1] == "1" else ""   # ATTRIBUTE is only substituted on HasAttrs targets
        L += ["%s\tmacro {INTLABEL},a1,a2,a3,a4,a5" % o,
              '\tmessage "<__LABEL__|%s|a1|a2|a3|a4|a5|\\{ARGCOUNT}>"' % attr,
              "\tendm"]
    for o in OPS_COUNT:
        L += ["%s\tmacro {INTLABEL},a1,a2,a3,a4,a5,a6,a7,a8,a9,a10" % o,
              '\tmessage "<__LABEL__|%s|\\{ARGCOUNT}>"' % attr,
              "\tendm"]
    text = "".join(l + "\n" for l in L)
    stats = dict(cont=0, crlf=0, ctrlz=0, comment=0, label=0, colon=0, attr=0, args=0, corpus=0)
    for j, cl in enumerate(corpus_lines(tgt["cpu"])):
        text += '\tmessage "#%d"\n%s\n' % (ncases + j, cl)
        stats["corpus"] += 1
    for k in range(ncases):
        text += '\tmessage "#%d"\n' % k
        lab = ""
        r = rng.random()
        if r < 0.3:
            lab = rng.choice(["foo", "Bar_1", "l%d" % k, "x.y", "$$a"])
            stats["label"] += 1
            if rng.random() < 0.5:
                lab += ":"
                stats["colon"] += 1
            lab += rng.choice([" ", "\t", "  \t"]) if rng.random() < 0.9 or not lab.endswith(":") else ""
        elif r < 0.45:
            lab = rng.choice([" ", "\t", "   "]) + rng.choice(["foo", "L2", "zz"]) + ":" + rng.choice([" ", "\t ", "  "])
            stats["label"] += 1
            stats["colon"] += 1
        else:
            lab = rng.choice([" ", "\t", "    ", " \t "])
        count_only = rng.random() < 0.3
        op = rng.choice(OPS_COUNT if count_only else OPS)
        pool = (tgt["pool"] + DQ_POOL * 2) if count_only else tgt["pool"]
        if rng.random() < 0.3:
            op += rng.choice([".w", ".B", ".l.x", ".", ".W:g"])
            stats["attr"] += 1
        nargs = rng.choice([0, 1, 1, 2, 2, 3, 4, 5])
        args = []
        for _ in range(nargs):
            a = rng.choice(pool)
            args.append(rng.choice(["", "", " ", "\t", "  "]) + a + rng.choice(["", "", " ", "\t "]))
        stats["args"] += nargs
        line = lab + op
        if args:
            line += rng.choice([" ", "\t", "   ", " \t"]) + ",".join(args)
            if rng.random() < 0.08:
                line += ","
        elif rng.random() < 0.1:
            line += rng.choice([",", " ,", ", x"])
        if rng.random() < 0.3:
            line += rng.choice(["", " ", "\t"]) + ";" + rng.choice(["c", " 'x", ' "', " a,b", ";", " \\ "])
            stats["comment"] += 1
        if rng.random() < 0.2:
            line += rng.choice([" ", "\t", "  \t "])
        eol = "\n"
        if rng.random() < 0.35:
            eol = "\r\n"
            stats["crlf"] += 1
        # continuation: break the line at a blank outside quotes that follows the mnemonic
        if rng.random() < 0.15 and "|" not in line:
            top, _ = toplevel(line)
            cands = [i for i in range(len(lab + op) + 1, len(line)) if top[i]]
            if cands:
                i = rng.choice(cands)
                line = line[:i] + "\\" + eol + line[i:]
                stats["cont"] += 1
        if rng.random() < 0.05:
            line += "\x1a"
            stats["ctrlz"] += 1
        text += line + eol
    return text, stats


MSG_RE = re.compile(r"^<(.*)>$")


def run_probe(bdir, wd, text, tag):
    f = os.path.join(wd, "probe_%s.asm" % tag)
    open(f, "wb").write(text.encode("latin-1"))
    rc, so, se = common.run_tool(bdir, "asl", ["-q", "-U", f, "-o", os.path.join(wd, "probe_%s.p" % tag)], wd)
    obs = {}
    cur = None
    for l in so.decode("latin-1").split("\n"):
        l = l.rstrip("\r")
        if l.startswith("#") and l[1:].isdigit():
            cur = int(l[1:])
            continue
        m = MSG_RE.match(l)
        if m and cur is not None:
            obs.setdefault(cur, []).append(m.group(1))
    return obs, rc


def model_probe(text, pspec):
    """model side: ReadLnCont over the text, SplitLine on each logical line; returns {case: [field string]}"""
    ans = common.driver("c16read", [hx(text)])[0]
    kv = dict(x.split("=", 1) for x in ans.split())
    lls = [] if kv["lines"] == "." else [unhx(x.split(":")[0]) for x in kv["lines"].split(",")]
    res = common.driver("c16split", ["%s %s" % (pspec, hx(l)) for l in lls]) if lls else []
    exp = {}
    cur = None
    for l, r in zip(lls, res):
        f = dict(x.split("=", 1) for x in r.split())
        op = unhx(f["op"])
        rawop = unhx(f["rawop"])
        args = [] if f["args"] == "." else [unhx(x) for x in f["args"].split(",")]
        if op == "MESSAGE" and len(args) == 1 and args[0].startswith('"#'):
            cur = int(args[0][2:-1])
            continue
        if cur is not None and (rawop in OPS or rawop in OPS_COUNT):
            exp.setdefault(cur, []).append((unhx(f["lab"]), unhx(f["attr"]), args, l, rawop in OPS_COUNT))
    return exp


def judge_probe(exp, obs):
    """returns (n compared, list of disagreements)"""
    dis = []
    n = 0
    for k in sorted(set(exp) | set(obs)):
        e = exp.get(k, [])
        o = obs.get(k, [])
        for (lab, attr, args, line, count_only) in e[:1]:
            if count_only:
                if len(args) > 10:
                    continue
                want = "|".join([lab, attr, str(len(args))])
            else:
                if len(args) > 5 or any(("|" in a or '"' in a or "\\" in a) for a in args):
                    continue
                want = "|".join([lab, attr] + (args + [""] * 5)[:5] + [str(len(args))])
            n += 1
            got = o[0] if o else None
            if got != want:
                dis.append(dict(case=k, line=line, model=want, real=got))
        if not e and o:
            dis.append(dict(case=k, line=None, model=None, real=o[0]))
    return n, dis


# ------------------------------------------------------------------------------------------------
# SPEC instances: structured lines rendered by the Lean SPEC, theorem instance evaluated by the driver

def gen_spec_lines(rng, n):
    reqs = []
    for _ in range(n):
        lab = rng.choice(["", "", "foo", "L1", "x_y", "a.b"])
        colon = "1" if lab and rng.random() < 0.5 else "0"
        g1 = blanks(rng)
        op = rng.choice(["", "nop", "move", "LD", "dc", "jmp"])
        attr = "*"
        args = []
        g2 = ""
        if op:
            if rng.random() < 0.4:
                attr = hx(rng.choice(["w", "B", "l", "s"]))
            na = rng.choice([0, 0, 1, 2, 3])
            if na:
                g2 = blanks(rng)
            for i in range(na):
                t = rng.choice(["x", "(1,2)", "[3,4]", "'a,b'", '"p;q"', "a+b", "#5", "(a0)+", "d0", "'\\''", "x y"])
                pre = "" if i == 0 else rng.choice(["", " ", "\t "])
                post = rng.choice(["", "", " ", "  \t"])
                args.append("%s:%s:%s" % (hx(pre), hx(t), hx(post)))
        else:
            g1 = rng.choice(["", g1]) if not lab or colon == "1" or True else g1
        comm = "*" if rng.random() < 0.6 else hx(rng.choice(["c", " 'x", ' "', ";", " a,b"]))
        reqs.append(" ".join([PSPEC, hx(lab), colon, hx(g1), hx(op), attr, hx(g2), comm] + args))
    return reqs


# ------------------------------------------------------------------------------------------------

def run(args):
    res = common.Result("C16", args.tier, args.seed, "proof")
    import time
    t0 = time.time()
    bdir, audit, proof_problems = common.standard_setup(res, "C16", [])
    log("C16: setup %.1fs" % (time.time() - t0))
    if bdir is None:
        return res.finish()
    drv_ok = not any(p.startswith("driver does not build") for p in proof_problems)
    spec_fail = []
    corr_fail = []
    samples = []
    dist = dict(tests=0, runs=0, frozen_lines=0, lines_rewritten=0, model_rejected=0, baseline_mismatch=0,
                to_include=0, to_macro=0, to_macro_not_applicable=0, eol_crlf=0, eol_lf=0, eol_mixed=0, boundary_pad_runs=0)
    kinds_total = {}
    distinct = set()
    tests = common.corpus_tests()
    rng0 = common.rng_for(args.seed, "C16/select")
    if args.tier == "quick":
        nseeds = 2
        sel = tests
    else:
        nseeds = 10
        sel = tests
    evaluations = 0
    with common.Workdir("c16") as wd:
        # ---------------- (B2) probes: real splitter vs model
        probe_n = 0
        probe_stats = {}
        if drv_ok:
            ncase = 400 if args.tier == "quick" else 4000
            for ti, tgt in enumerate(PROBE_TARGETS):
                rng = common.rng_for(args.seed, "C16/probe/%s" % tgt["cpu"])
                text, st = gen_probe(rng, tgt, ncase)
                for k, v in st.items():
                    probe_stats[k] = probe_stats.get(k, 0) + v
                obs, rc = run_probe(bdir, wd, text, str(ti))
                exp = model_probe(text, tgt["pspec"])
                n, dis = judge_probe(exp, obs)
                probe_n += n
                for d in dis[:3]:
                    corr_fail.append(dict(tag="probe:%s" % tgt["cpu"], why="real asl's split fields (seen through a reporting macro) differ from Model/Split.lean", **d))
                if len(samples) < 2 and exp:
                    k0 = sorted(exp)[len(exp) // 2]
                    samples.append(dict(kind="probe", cpu=tgt["cpu"], line=exp[k0][0][3], model_fields=exp[k0][0][:3], real=obs.get(k0)))
                dist["probe_count_only_lines"] = dist.get("probe_count_only_lines", 0) + sum(1 for v in exp.values() if v[0][4])
            # (B3) SPEC instances
            rng = common.rng_for(args.seed, "C16/spec")
            reqs = gen_spec_lines(rng, 600 if args.tier == "quick" else 6000)
            ans = common.driver("c16spec", reqs)
            bad = [(r, a) for r, a in zip(reqs, ans) if "thm=1" not in a]
            dist["spec_instances"] = len(reqs)
            dist["spec_instances_bad"] = len(bad)
            for r, a in bad[:2]:
                proof_problems.append("model split of SPEC render differs from SPEC fields (theorem instance false): %s -> %s" % (r, a))
        dist["probe_lines_compared"] = probe_n
        dist["probe_features"] = probe_stats

        log("C16: probes done %.1fs" % (time.time() - t0))
        import sys as _sys
        cut_stats = {}
        # ---------------- (C) metamorphic corpus runs
        for tidx, (name, asm, flags) in enumerate(sel):
            raw = open(asm, "rb").read().decode("latin-1")
            ori = open(asm[:-4] + ".ori", "rb").read()
            tdir = os.path.dirname(asm)
            d = os.path.join(wd, name)
            os.makedirs(d, exist_ok=True)
            dist["tests"] += 1
            for s in range(nseeds):
                rng = common.rng_for(args.seed, "C16/%s/%d" % (name, s))
                stats = dict(frozen_lines=0)
                pl, lines, new, pairs, frozen, noinsert, uses_momline = rewrite_source(rng, raw, flags, stats, "lines")
                # model gate
                rejected = 0
                if pairs and drv_ok:
                    answers = {}
                    for mode_, sel_ in (("c16pair", "pair"), ("c16px", "px"), ("c16def", "def")):
                        sub = [(j, pr) for j, pr in enumerate(pairs) if pr[3][0] == sel_]
                        if not sub:
                            continue
                        if sel_ == "pair":
                            reqs = ["%s %s %s" % (g[1], hx(a), hx(b)) for _, (_, a, b, g) in sub]
                        elif sel_ == "px":
                            reqs = ["%s %s %s %s" % (g[2], g[1], hx(a), hx(b)) for _, (_, a, b, g) in sub]
                        else:
                            reqs = [hx(a) for _, (_, a, b, _) in sub] + [hx(b) for _, (_, a, b, _) in sub]
                        ans = common.driver(mode_, reqs)
                        for q, (j, pr) in enumerate(sub):
                            if sel_ == "pair":
                                # a line whose parameter field was recased: fields equal up to letter case of mnemonic, attribute AND parameters (eqc)
                                answers[j] = ((" eqc=1" in ans[q]) if pr[3][2] else ("eq=1" in ans[q].split()), ans[q])
                            elif sel_ == "px":
                                answers[j] = ("eq=1" in ans[q] and "px=1" in ans[q] and "ok=1" in ans[q], ans[q])
                            else:
                                answers[j] = (ans[q] == ans[q + len(sub)] and ans[q].startswith("def=1"), ans[q] + " / " + ans[q + len(sub)])
                    for j, (i, a, b, g) in enumerate(pairs):
                        ok_, r = answers[j]
                        if not ok_:
                            rejected += 1
                            if len([x for x in samples if x.get("kind") == "model-rejected"]) < 3:
                                samples.append(dict(kind="model-rejected", test=name, orig=a, rewritten=b, gate=g[0], answer=r))
                            new[i] = (lines[i], [])
                if stats.get("blank_divides") and (tidx + s + args.seed) % 3 != 0:
                    # DSP56xxx, runs that also get a whole-file rewrite: the accumulator names A / B keep the golden spelling, so that the known finding
                    # KNOWN_56K_SIG can only arise in the plain runs, where it is attributed exactly (see the failure branch below)
                    new = [((_restore_acc(lines[i], l), k) if "case-args" in k else (l, k)) for i, (l, k) in enumerate(new)]
                    dist["dsp56_acc_spelling_kept_runs"] = dist.get("dsp56_acc_spelling_kept_runs", 0) + 1
                counts = {}
                nrew = 0
                for i, (l, kinds) in enumerate(new):
                    if l != lines[i]:
                        nrew += 1
                    for k in kinds:
                        counts[k] = counts.get(k, 0) + 1
                eol_mode = ["crlf", "lf", "mixed"][(tidx // 3 + s) % 3] if s < 3 else rng.choice(["crlf", "lf", "mixed"])
                dist["eol_" + eol_mode] += 1
                # every second run of a source: an empty line between (nearly) every two lines (not when a source of more than 8000 lines
                # is going to be wrapped into a macro: asl's expansion time is quadratic in the body length, t_m16 alone would take a minute)
                dense = (s % 2 == 1) and not ((tidx + s + args.seed) % 3 == 2 and len(lines) > 8000)
                inserted = []
                text = assemble_text(rng, pl, new, noinsert, uses_momline, eol_mode, stats, counts, dense=dense, inserted=inserted)
                dist["dense_insertion_runs"] = dist.get("dense_insertion_runs", 0) + (1 if dense else 0)
                whole = None
                # whole-file rewrites on some seeds
                files = {name + ".asm": text}
                wmode = (tidx + s + args.seed) % 3
                if wmode == 1:
                    whole = "to-include"
                    e_ = "\r\n" if eol_mode == "crlf" else "\n"
                    files = {name + ".asm": "\tinclude \"c16body.inc\"" + e_, "c16body.inc": text}
                    dist["to_include"] += 1
                    # three of four times: the text is cut at random statement boundaries into include files nested up to 3 (c16_incl.py)
                    if rng.random() < 0.75 and not uses_momline and "MOMFILE" not in raw.upper():
                        cut = c16_incl.cut_into_includes(_sys.modules[__name__], rng, text, e_, cut_stats)
                        if cut:
                            whole = "cut-into-includes"
                            files = {(name + ".asm" if k_ is None else k_): v_ for k_, v_ in cut.items()}
                            dist["cut_into_includes"] = dist.get("cut_into_includes", 0) + 1
                elif wmode == 2:
                    if macro_applicable(raw):
                        whole = "to-macro"
                        e = "\r\n" if eol_mode == "crlf" else "\n"
                        files = {name + ".asm": "c16wrap\tmacro" + e + text + "\tendm" + e + "\tc16wrap" + e}
                        dist["to_macro"] += 1
                    else:
                        dist["to_macro_not_applicable"] += 1
                for fn in os.listdir(d):
                    os.unlink(os.path.join(d, fn))
                for fn, t in files.items():
                    open(os.path.join(d, fn), "wb").write(t.encode("latin-1"))
                img, diag = build_image(bdir, d, name, flags, [tdir])
                evaluations += 1
                dist["runs"] += 1
                dist["frozen_lines"] += stats["frozen_lines"]
                dist["lines_rewritten"] += nrew
                dist["model_rejected"] += rejected
                for k, v in counts.items():
                    kinds_total[k] = kinds_total.get(k, 0) + v
                if nrew or whole:
                    distinct.add(hash(text) ^ hash(whole))
                if len([x for x in samples if x.get("kind") == "rewrite"]) < 4 and nrew:
                    i0 = [i for i, (l, k) in enumerate(new) if l != lines[i]][nrew // 2]
                    samples.append(dict(kind="rewrite", test=name, seed=s, orig=lines[i0], rewritten=new[i0][0], kinds=new[i0][1], eol=eol_mode, whole=whole))
                if img != ori:
                    # is the identity spelling still fine? (otherwise the golden test itself fails: still a failure, other signature)
                    for fn in os.listdir(d):
                        os.unlink(os.path.join(d, fn))
                    open(os.path.join(d, name + ".asm"), "wb").write(raw.encode("latin-1"))
                    img0, diag0 = build_image(bdir, d, name, flags, [tdir])
                    if img0 != ori:
                        dist["baseline_mismatch"] += 1
                        spec_fail.append(dict(tag="%s/identity" % name, sig="golden-test-fails-unrewritten",
                                              why="the unrewritten golden source no longer reproduces its .ori: " + diag0[:300], test=name, flags=flags))
                        break
                    fail = dict(tag="%s/seed%d" % (name, s), test=name, flags=flags, whole=whole, eol=eol_mode,
                                why="image of the rewritten source differs from %s.ori%s" % (name, (": " + diag[:400]) if diag else ""),
                                files=files, incdir=tdir,
                                changed_lines=[dict(line=i + 1, orig=lines[i], rewritten=l, kinds=k) for i, (l, k) in enumerate(new) if l != lines[i]][:400])
                    if whole == "to-macro" and "symbol double defined" in diag and builtin_sets(raw) >= 2:
                        fail["sig"] = "to-macro-second-cpu-or-flag-statement-double-defined"
                    if stats.get("blank_divides") and whole is None and any("case-args" in k for _, k in new):
                        # DSP56xxx `MOVE acc,X:<ea> X0,acc` / `MOVE Y0,acc acc,Y:<ea>`: is the run clean once the accumulator names A / B stand as in the golden source
                        # in every parameter field (all other rewrites of the run kept)?  Then the one thing wrong is the known case-sensitive comparison of the two.
                        new2 = [(l if "case-args" not in k else _restore_acc(lines[i], l), k) for i, (l, k) in enumerate(new)]
                        if any(a_[0] != b_[0] for a_, b_ in zip(new, new2)):
                            e_ = "\r\n" if eol_mode == "crlf" else "\n"
                            for fn in os.listdir(d):
                                os.unlink(os.path.join(d, fn))
                            stats2 = dict(frozen_lines=0)
                            text2 = assemble_text(common.rng_for(args.seed, "C16/%s/%d/acc" % (name, s)), pl, new2, noinsert, uses_momline, eol_mode, stats2, {}, dense=False)
                            open(os.path.join(d, name + ".asm"), "wb").write(text2.encode("latin-1"))
                            img2, _ = build_image(bdir, d, name, flags, [tdir])
                            if img2 == ori:
                                fail["sig"] = KNOWN_56K_SIG
                    minimise(bdir, d, name, flags, tdir, ori, lines, new, pl, fail, whole, eol_mode, inserted)
                    spec_fail.append(fail)
            shutil.rmtree(d, ignore_errors=True)

        log("C16: corpus sweep done %.1fs" % (time.time() - t0))
        # ---------------- generated texts with macros/repetitions referring to their own labels: plain vs wrapped vs included
        nwrap = 40 if args.tier == "quick" else 600
        dist["wrap_texts"] = nwrap
        dist["wrap_runs"] = 0
        d = os.path.join(wd, "wrapgen")
        for wi in range(nwrap):
            rng = common.rng_for(args.seed, "C16/wrap/%d" % wi)
            src, expect = gen_wrap_text(rng)
            for tag, files in wrap_variants(rng, src):
                shutil.rmtree(d, ignore_errors=True)
                os.makedirs(d)
                for fn, t in files.items():
                    open(os.path.join(d, fn), "wb").write(t.encode("latin-1"))
                img, diag = build_image(bdir, d, "w", "", [d])
                evaluations += 1
                dist["wrap_runs"] += 1
                distinct.add(hash(files["w.asm"]))
                if img != expect:
                    spec_fail.append(dict(tag="wrapgen/%d/%s" % (wi, tag), whole=tag, test="generated", flags="",
                                          sig=None if tag != "plain" else "generated-text-plain-spelling-wrong",
                                          why="image of the %s spelling of a generated text differs from the bytes the text specifies%s: expected %s got %s"
                                              % (tag, (" (" + diag[:300] + ")") if diag else "", expect.hex(), (img or b"").hex()),
                                          expect=expect.hex(), files=files, incdir=d))
                    if tag == "plain":
                        break
        shutil.rmtree(d, ignore_errors=True)
        log("C16: generated wrap texts done %.1fs" % (time.time() - t0))
        # ---------------- boundary: lines padded with trailing blanks to the line-buffer sizes, CR-LF ends
        for name, asm, flags in (sel if args.tier == "thorough" else rng0.sample(sel, 40)):
            raw = open(asm, "rb").read().decode("latin-1")
            if "\\\n" in raw or "\\\r\n" in raw:
                continue
            ori = open(asm[:-4] + ".ori", "rb").read()
            rng = common.rng_for(args.seed, "C16/pad/%s" % name)
            pl = split_lines(raw)
            lines = [l for l, _ in pl]
            frozen, noinsert, _names = classify(lines)
            out = []
            npad = 0
            for i, l in enumerate(lines):
                if not frozen[i] and not l.lstrip(SPACES).startswith("#") and len(l) < 200 and rng.random() < 0.2:
                    tgtlen = rng.choice([253, 254, 254, 255, 255, 256, 257])
                    l = l + " " * (tgtlen - len(l))
                    npad += 1
                out.append(l + "\r\n")
            # long lines: up to nine statements of the source get so many blanks between mnemonic and parameters that their argument field is
            # 1023, 1024, 1025, 1151 ... 1281 characters long, in this order (the sizes SplitLine's ArgPart buffer passes through on its way up)
            longs = long_gap_sites(rng, lines, frozen)
            if longs and drv_ok:
                ans = common.driver("c16pair", ["%s %s %s" % (PSPEC, hx(lines[i]), hx(nl)) for i, nl in longs])
                rej = [k for k, a in enumerate(ans) if "eq=1" not in a]
                dist["model_rejected"] += len(rej)
                longs = [x for k, x in enumerate(longs) if k not in rej]
            out_long = list(out)
            for i, nl in longs:
                out_long[i] = nl + "\r\n"
            kinds_total["gap-after-op-to-argument-buffer-size"] = kinds_total.get("gap-after-op-to-argument-buffer-size", 0) + len(longs)
            d = os.path.join(wd, name)
            os.makedirs(d, exist_ok=True)
            open(os.path.join(d, name + ".asm"), "wb").write("".join(out_long).encode("latin-1"))
            img, diag = build_image(bdir, d, name, flags, [os.path.dirname(asm)])
            evaluations += 1
            dist["boundary_pad_runs"] += 1
            kinds_total["pad-to-buffer-size+crlf"] = kinds_total.get("pad-to-buffer-size+crlf", 0) + npad
            if img != ori:
                img_s, diag_s = img, diag
                if longs:
                    open(os.path.join(d, name + ".asm"), "wb").write("".join(out).encode("latin-1"))
                    img_s, diag_s = build_image(bdir, d, name, flags, [os.path.dirname(asm)])
                if img_s != ori:
                    spec_fail.append(dict(tag="%s/pad" % name, sig="crlf-at-line-buffer-boundary", test=name, flags=flags,
                                          why="trailing blanks up to 253..257 characters + CR-LF change the image: " + diag_s[:300],
                                          files={name + ".asm": "".join(out)}, incdir=os.path.dirname(asm)))
                else:
                    # which long line? (each alone; the argument buffer has its initial size then, so only some reproduce alone)
                    culprit = None
                    for i, nl in longs:
                        t = [x + "\r\n" for x in lines]
                        t[i] = nl + "\r\n"
                        open(os.path.join(d, name + ".asm"), "wb").write("".join(t).encode("latin-1"))
                        img1, diag1 = build_image(bdir, d, name, flags, [os.path.dirname(asm)])
                        if img1 != ori:
                            culprit = dict(line=i + 1, orig=lines[i], blanks_after_mnemonic=len(nl) - len(lines[i]) + 1, files={name + ".asm": "".join(t)}, diag=diag1[:200])
                            break
                    spec_fail.append(dict(tag="%s/long-gap" % name, test=name, flags=flags, whole="long-lines",
                                          why="blanks between mnemonic and parameters up to an argument field of 1023..1281 characters change the image%s: %s"
                                              % ((" (line %d alone: %r + %d blanks)" % (culprit["line"], culprit["orig"][:60], culprit["blanks_after_mnemonic"])) if culprit else "", diag[:300]),
                                          files=culprit["files"] if culprit else {name + ".asm": "".join(out_long)}, incdir=os.path.dirname(asm),
                                          changed_lines=[dict(line=i + 1, orig=lines[i], argument_field=len(nl) - op_upper(nl)[1]["op"][1] - 1) for i, nl in longs]))
            shutil.rmtree(d, ignore_errors=True)

        # ---------------- prefix-style statements / statements that prepare state for the next one: vlib/props/c16_prefix.py,
        #                  Model/PrefixCarry.lean + Spec/PrefixCarry.lean, Model/Split.lean resplit/preprocess, Props/C16_Prefix.lean
        import sys as _sys
        pp = c16_prefix.run_part(_sys.modules[__name__], args, bdir, wd, drv_ok)
        spec_fail += pp["spec_fail"]
        corr_fail += pp["corr_fail"]
        proof_problems += pp["problems"]
        evaluations += pp["evaluations"]
        distinct |= pp["distinct"]
        samples += pp["samples"][:6]
        dist["prefix_part"] = pp["dist"]
        log("C16: prefix-style statements done %.1fs" % (time.time() - t0))

        # ---------------- lines moved into INCLUDE files / parameterless macros where the INCLUDE line would act as a statement (labels in front
        #                  of padded objects): vlib/props/c16_incl.py, Model/InclPad.lean + Spec/InclPad.lean, Props/C16_Incl.lean
        ip = c16_incl.run_part(_sys.modules[__name__], args, bdir, wd, drv_ok)
        spec_fail += ip["spec_fail"]
        corr_fail += ip["corr_fail"]
        proof_problems += ip["problems"]
        evaluations += ip["evaluations"]
        distinct |= ip["distinct"]
        samples += ip["samples"][:2]
        dist["include_part"] = ip["dist"]
        dist["cut_stats"] = cut_stats
        log("C16: include trees done %.1fs" % (time.time() - t0))

        # ---------------- long lines (length sweeps across the component buffer sizes of SplitLine) and wrapped texts whose definitions carry
        #                  more than a value: vlib/props/c16_long.py, Model/Split.lean splitBuf/splitBufRun, Props/C16_Long.lean
        lp = c16_long.run_part(_sys.modules[__name__], args, bdir, wd, drv_ok)
        spec_fail += lp["spec_fail"]
        corr_fail += lp["corr_fail"]
        proof_problems += lp["problems"]
        evaluations += lp["evaluations"]
        distinct |= lp["distinct"]
        samples += lp["samples"][:4]
        dist["long_part"] = lp["dist"]
        log("C16: long lines / definition-carrying wrap texts done %.1fs" % (time.time() - t0))

    nk = sum(1 for f in spec_fail if f.get("sig") == "to-macro-second-cpu-or-flag-statement-double-defined")
    if nk:
        log("C16: %d to-macro runs hit the known CPU/flag-symbol finding: %s" % (nk, ", ".join("%s [%s]" % (f.get("tag"), f.get("why", "")[-160:].replace("\n", " | ")) for f in spec_fail if f.get("sig") == "to-macro-second-cpu-or-flag-statement-double-defined")[:900]))
    dist["to_macro_known_finding_hits"] = nk
    nkt = sum(1 for f in spec_fail if f.get("sig") == c16_long.KNOWN_TAB_SIG)
    if nkt:
        log("C16: %d runs hit the known finding %s: %s" % (nkt, c16_long.KNOWN_TAB_SIG, ", ".join(f.get("tag") for f in spec_fail if f.get("sig") == c16_long.KNOWN_TAB_SIG)[:600]))
    nlog = 0
    for f in spec_fail:
        if f.get("sig") in ("to-macro-second-cpu-or-flag-statement-double-defined", "upd772x-op-operandless-inner-mnemonic-case-sensitive", c16_long.KNOWN_TAB_SIG, KNOWN_56K_SIG):
            continue
        nlog = nlog + 1
        if nlog <= 16:
            log("C16 spec failure:", f.get("tag"), f.get("whole"), f.get("why", "")[:160].replace("\n", " | "), json.dumps(f.get("minimised"))[:400])
    if nlog > 16:
        log("C16: ... and %d more spec failures" % (nlog - 16))
    for f in corr_fail[:6]:
        log("C16 correspondence failure:", json.dumps(f)[:500])
    if len(corr_fail) > 6:
        log("C16: ... and %d more correspondence failures" % (len(corr_fail) - 6))
    res.coverage = common.proof_coverage(audit, "C16", [
        "correspondence: real asl's splitter seen through a reporting macro vs Model/Split.lean on generated probe lines (differential test)",
        "oracle of the corpus sweep: recorded tests/<t>/<t>.ori images (trusted recorded output)",
        "harness line analyser (vlib/props/c16.py analyze/classify/prefix_sites) decides where rewrites are placed; every rewritten line is re-judged by the Lean model "
        "(c16pair; prefix-style statements: c16px = SplitLine + the code generator's own split; #define lines: c16def = Preprocess)",
        "generated prefix-statement texts: oracle = image of the plain spelling of the same text (current binary); Z380 DDIR/JP programs: oracle = Spec/PrefixCarry.code",
        "include trees (c16_incl.py): oracle = Spec/InclPad.image (layout of the flat text by the PADDING paragraph of the manual; encodings NOP/RTWP, JMP abs.W / BR # / B @ / LDS, "
        "DC.W / WORD from the manufacturers' opcode maps); cut-into-includes runs of the corpus sweep: oracle = the recorded .ori",
        "long-line sweeps (c16_long.py): oracle = the bytes written in each data line (harness evaluates decimal operands, '(d)' and 'd+d'); the model's arguments are evaluated the same way; "
        "definition-carrying wrap texts: oracle = image of the plain spelling (8086 texts also the harness's own encoding of INC/DEC/NEG/NOT/MOV mem,imm)"])
    dist["rewrites_by_kind"] = kinds_total
    res.coverage.update(
        evaluations=evaluations, distinct_nontrivial=len(distinct),
        rule="one evaluation = one rewritten golden source assembled + p2bin + compared with .ori; non-trivial = at least one line rewritten or a whole-file rewrite; distinct by rewritten text; "
             "plus (c16_prefix.py) one evaluation = one generated prefix-statement text in one spelling / one Z380 DDIR-JP program with empty lines, image compared with the plain spelling's / the SPEC's bytes; "
             "plus (c16_incl.py) one evaluation = one generated source tree in its INCLUDE/macro spelling or its flat spelling, image compared with Spec/InclPad.image of the flat text; "
             "plus (c16_long.py) one evaluation = one length-sweep source (all spellings of one long data line) or one definition-carrying text in one whole-text spelling",
        samples=samples, distribution=dist, exclusions=EXCLUSIONS)
    res.assumptions = ["the recorded .ori images are correct", "macro-argument transport under -U is verbatim (used to observe the real split fields)"]
    return common.conclude(res, proof_problems, spec_fail, corr_fail, evaluations)


def minimise(bdir, d, name, flags, tdir, ori, lines, new, pl, fail, whole, eol_mode, inserted=()):
    """find one rewritten line - or one inserted line - that alone changes the image (only for per-line rewrites; uniform line ends)"""
    if whole is not None:
        return
    e = "\r\n" if eol_mode == "crlf" else "\n"
    changed = [i for i, (l, k) in enumerate(new) if l != lines[i]]
    if len(changed) > 30000:
        return
    lo = changed

    def image_with(idx, ins=()):
        s = set(idx)
        before = {}
        for (i, t) in ins:
            before.setdefault(i, []).append(t)
        t = "".join("".join(x + e for x in before.get(i, [])) + (new[i][0] if i in s else lines[i]) + e for i in range(len(lines)))
        for fn in os.listdir(d):
            os.unlink(os.path.join(d, fn))
        open(os.path.join(d, name + ".asm"), "wb").write(t.encode("latin-1"))
        img, _ = build_image(bdir, d, name, flags, [tdir])
        return img, t
    img_none, t_none = image_with([])
    if img_none != ori:
        fail["minimised"] = "the %s line ends alone change the image (no line rewritten)" % eol_mode
        fail["files"] = {name + ".asm": t_none}
        return
    img, t = image_with(lo)
    if img == ori:
        # the rewritten lines alone are harmless: the inserted blank / comment-only lines
        ins = list(inserted)
        img, t = image_with([], ins)
        if img == ori or not ins:
            fail["minimised"] = "not reproducible with uniform line ends, with the rewritten lines alone or the inserted lines alone: a combination is involved"
            return
        while len(ins) > 1:
            h = len(ins) // 2
            a, b = ins[:h], ins[h:]
            ia, _ = image_with([], a)
            if ia != ori:
                ins = a
                continue
            ib, _ = image_with([], b)
            if ib != ori:
                ins = b
                continue
            break
        img, t = image_with([], ins)
        fail["minimised"] = [dict(inserted_before_line=i + 1, inserted=x, line_before=lines[i - 1] if i else None, line_after=lines[i]) for (i, x) in ins[:10]]
        fail["files"] = {name + ".asm": t}
        return
    while len(lo) > 1:
        h = len(lo) // 2
        a, b = lo[:h], lo[h:]
        ia, _ = image_with(a)
        if ia != ori:
            lo = a
            continue
        ib, _ = image_with(b)
        if ib != ori:
            lo = b
            continue
        break
    img, t = image_with(lo)
    fail["minimised"] = [dict(line=i + 1, orig=lines[i], rewritten=new[i][0], kinds=new[i][1]) for i in lo[:10]]
    fail["files"] = {name + ".asm": t}


def replay(args):
    d = json.load(open(args.replay))
    print(json.dumps({k: (v if len(str(v)) < 1500 else str(v)[:1500] + "...") for k, v in d.items() if k != "files"}, indent=1))
    if "files" in d and "test" in d:
        bdir = common.repo_build("hooks")
        name = d["test"]
        with common.Workdir("c16r") as wd:
            if name == "generated":
                # generated texts: the respelled files against the plain spelling of the same text / the expected bytes
                for fn, t in d["files"].items():
                    open(os.path.join(wd, fn), "wb").write(t.encode("latin-1"))
                img, diag = build_image(bdir, wd, "w", "", [wd])
                if "plain" in d:
                    pd = os.path.join(wd, "plain")
                    os.makedirs(pd)
                    open(os.path.join(pd, "w.asm"), "wb").write("".join(l + "\n" for l in d["plain"]).encode("latin-1"))
                    want, diag0 = build_image(bdir, pd, "w", "", [pd])
                    print("plain spelling:", want.hex() if want is not None else diag0[:300])
                elif "expect" in d:
                    want = bytes.fromhex(d["expect"])
                    print("expected bytes:", want.hex())
                else:
                    print("no recorded expectation; image:", (img or b"").hex(), diag[:300])
                    return 1
                print("respelled     :", img.hex() if img is not None else diag[:500])
                print("same image:", img == want)
                return 0 if img == want else 1
            for fn, t in d["files"].items():
                open(os.path.join(wd, fn), "wb").write(t.encode("latin-1"))
            img, diag = build_image(bdir, wd, name, d.get("flags", []), [d.get("incdir", ".")])
            ori = open(os.path.join(common.REPO, "tests", name, name + ".ori"), "rb").read()
            print("image == .ori:", img == ori, diag[:500])
            return 0 if img == ori else 1
    return 0
