"""C16, two further input classes (added after seeded changes C16-g / C16-h were missed).

(1) LONG LINES.  SplitLine copies the comment, the argument field and every argument into buffers of their own that start at
    STRINGSIZE characters and grow in steps of 128.  Generated data lines with many operands (so that the last characters of the
    line matter) are respelled *only* in what the manual declares immaterial - blanks/tabs between mnemonic and parameters, after
    argument separators, behind a parameter, at the end of the line, before the mnemonic, and the comment - in such a way that the
    length of the argument field / of the comment / of one single argument / of the whole line sweeps in steps of one over the
    neighbourhood of every buffer size the run can reach (1016..1032, the next growth steps 1152, 1280, ...).  All spellings of one
    sweep stand in one source, in ascending, descending or random order (the buffers keep their size for the rest of the run).
      (C) every line must assemble to exactly the bytes written in it (computed by the generator from the operand list);
      (B) the same lines go through Model/Split.lean (driver mode c16sweep: the splitter with its component buffers, splitBufRun);
          the model's arguments, evaluated by the harness, must be the bytes the real assembler produced; C16_buffers_run instance.
    Each sweep text is also assembled wrapped in a macro, as an include file, as a REPT 1 body and with the long lines broken by
    backslash continuation.

(2) DEFINITIONS THAT CARRY MORE THAN A VALUE.  Wrapping a text in a parameterless macro / an include file / REPT 1 must not change
    the code.  The existing wrap texts use labels only for their value; here the *definition* of a symbol carries information that
    later statements need: 8086-family data sizes (DB/DW labels and STRUCT elements used as memory operands without BYTE/WORD PTR),
    register symbols (REG / EQU of registers: 68000, MSP430, AVR, 80C166, 8051), bit symbols (8051, 80C166), SFR / SFRB / PORT
    symbols (8051, AVR, Z80, 8080) and segment-typed labels (8051 DATA / XDATA / BITDATA / CODE).  Oracle: the image of the plain
    spelling (8086 texts in addition: the bytes computed by the generator from the Intel encoding of the statements).
"""
import os
import shutil

from .. import common

WINDOWS_QUICK = [(1016, 1032), (1148, 1156), (1277, 1283)]
WINDOWS_THOROUGH = [(1000, 1045), (1140, 1165), (1270, 1292), (1400, 1412)]

# cpu, data mnemonic, parameter spec of the target's SplitLine (Driver/C16.lean parseParams)
LONG_TARGETS = [
    ("8080", "db", "2c/0/2e/3b/n"),
    ("z80", "db", "2c/0/2e/3b/z"),
    ("68000", "dc.b", "2c/1/2e/3b/n"),
    ("8086", "db", "2c/0/2e/3b/n"),
    ("6809", "fcb", "2c/0/2e/3b/n"),
    ("8051", "db", "2c/0/2e/3b/n"),
]

KINDS = ["gap-after-op", "gap-after-comma", "trailing-blanks", "comment-length", "blanks-behind-one-long-argument", "gap-before-op",
         "gap-after-op+comment"]


KNOWN_TAB_SIG = "macro-body-line-with-tabs-expands-beyond-line-buffer"


def tab_expanded_len(l):
    col = 0
    for ch in l:
        col += (8 - col % 8) if ch == "\t" else 1
    return col


def known_tab_class(tag, body):
    """the input class of the known finding: a MACRO/IRP body line that contains TABs and whose TAB-expanded length reaches the line buffer
    (KillCtrl() expands TABs in place in a clone of the line buffer without looking at its capacity)"""
    return tag in ("to-macro", "to-macro-after-other-expansion", "to-macro-in-macro", "irp-1") and any("\t" in l and tab_expanded_len(l) >= 1024 for l in body)


def hx(s):
    return s.encode("latin-1").hex() or "-"


def unhx(h):
    return "" if h in ("-", ".", "") else bytes.fromhex(h).decode("latin-1")


def operand(rng, v):
    """one operand text with value v (0..255)"""
    r = rng.random()
    if r < 0.7 or v < 2:
        return str(v)
    if r < 0.8:
        return "(%d)" % v
    a = rng.randrange(1, v)
    return "%d+%d" % (a, v - a)


def eval_operand(t):
    """harness-side value of an operand text of the forms operand() writes; None if it is no such text"""
    t = t.strip(" \t")
    if t.startswith("(") and t.endswith(")"):
        t = t[1:-1]
    try:
        parts = [int(x, 10) for x in t.split("+")]
    except ValueError:
        return None
    if any(p < 0 for p in parts):
        return None
    return sum(parts)


def pad_text(pad, m):
    return "".join(pad[i % len(pad)] for i in range(m))


def fill_holes(pad, n, segs):
    """the line of a sweep with n pad characters in total (same rule as Driver/C16.lean fillHoles)"""
    holes = max(len(segs) - 1, 1)
    out = [segs[0]]
    for j, s in enumerate(segs[1:]):
        out.append(pad_text(pad, n // holes + (1 if j < n % holes else 0)))
        out.append(s)
    return "".join(out)


def gen_long_case(rng, kind, windows, tabfree=False):
    """returns dict(cpu, op, pspec, kind, pad, segs, ns, values, part0, order)"""
    cpu, op, pspec = rng.choice(LONG_TARGETS)
    pad = rng.choice([" ", " ", "\t", " \t", "\t ", "  \t"])
    lab = ""        # all spellings of a sweep stand in one source: a label could be defined only once
    gap1 = rng.choice(["\t", " ", "  ", " \t"])
    gap2 = rng.choice([" ", "\t"])
    if tabfree:
        # blanks only (every second case): lines with TABs in a macro body run into the known finding KNOWN_TAB_SIG
        pad, gap1, gap2 = " ", rng.choice([" ", "  "]), " "
    target = rng.randrange(820, 1000)           # length of the operand text at n = 0
    if kind == "blanks-behind-one-long-argument":
        # one argument that alone is about as long as the buffers: a sum of many terms (its value: the last term, all others are 0)
        nterm = target // 2
        last = rng.randrange(10, 256)
        long_arg = "+".join(["0"] * nterm + [str(last)])
        before = [rng.randrange(256) for _ in range(rng.randrange(0, 3))]
        after = [rng.randrange(256) for _ in range(rng.randrange(0, 3))]
        if (len(before) + len(after)) % 2 == 0:
            after.append(rng.randrange(256))
        values = before + [last] + after
        head = lab + gap1 + op + gap2 + "".join(str(v) + "," for v in before) + long_arg
        tail = "".join("," + str(v) for v in after)
        segs = [head, tail]
        part0 = len(long_arg)                    # ArgStr[i] receives the argument with the blanks behind it
        return dict(cpu=cpu, op=op, pspec=pspec, kind=kind, pad=pad, segs=segs, values=values, part0=part0, minpad=0)
    values = []
    texts = []
    total = 0
    while total < target or len(values) % 2 == 1:
        v = rng.randrange(256)
        t = operand(rng, v)
        values.append(v)
        texts.append(t)
        total += len(t) + 1
    # the last operand decides what a lost last character does: mostly a number of several digits
    if rng.random() < 0.8:
        v = rng.randrange(10, 256)
        values[-1] = v
        texts[-1] = str(v)
    opnds = ",".join(texts)
    head = lab + gap1 + op
    comment = rng.choice(["", "", ";x", " ; table", " ;'"] if tabfree else ["", "", ";x", " ; table", "\t;'"])
    if kind == "gap-after-op":
        comment = rng.choice(["", "", ";x", ";; table"])      # the argument field ends with the last operand
        segs = [head, opnds + comment]
        part0, minpad = len(opnds) - 1, 1                      # ArgPart starts behind the one separator character
    elif kind == "gap-after-op+comment":
        comment = rng.choice([";", " ;c", ";" + "c" * rng.randrange(1, 40)])
        segs = [head, opnds + comment]
        part0, minpad = len(opnds) - 1 + (len(comment) - len(comment.lstrip(" "))), 1
    elif kind == "gap-after-comma":
        idx = sorted(rng.sample(range(1, len(texts)), min(len(texts) - 1, rng.choice([1, 2, 5, 17]))))
        segs = []
        prev = 0
        for i in idx:
            segs.append(",".join(texts[prev:i]) + ",")
            prev = i
        segs.append(",".join(texts[prev:]) + comment)
        segs[0] = head + gap2 + segs[0]
        part0, minpad = len(opnds), 0
    elif kind == "trailing-blanks":
        segs = [head + gap2 + opnds, rng.choice(["", "", ";c", "; 'x"])]
        part0, minpad = len(opnds), 0
    elif kind == "comment-length":
        # the comment grows by characters of its own (pad = comment text), directly behind the operands or behind blanks
        lead = rng.choice(["", " ", " " if tabfree else "\t"])
        pad = rng.choice(["c", "xy", "; ", "'", "\" ", "a,b"])
        segs = [head + gap2 + opnds + lead + ";", rng.choice(["", ".", "x"])]
        part0, minpad = 1 + len(segs[1]), 0                    # CommPart: lead-in to the end of the line
    else:   # gap-before-op: only the whole line grows
        segs = [lab if lab else "", op + gap2 + opnds + comment]
        part0, minpad = len(segs[1]), 1
    return dict(cpu=cpu, op=op, pspec=pspec, kind=kind, pad=pad, segs=segs, values=values, part0=part0, minpad=minpad)


def sweep_ns(rng, case, windows, order=None):
    ns = []
    for lo, hi in windows:
        for L in range(lo, hi + 1):
            n = L - case["part0"]
            if n >= case["minpad"]:
                ns.append(n)
    ns += [case["minpad"], case["minpad"] + rng.randrange(1, 9)]
    ns = sorted(set(ns))
    if order is None:
        order = rng.choice(["ascending", "ascending", "random", "descending"])
    if order == "descending":
        ns.reverse()
    elif order == "random":
        rng.shuffle(ns)
    return ns, order


def long_variants(rng, cpu, body):
    """(tag, files): the sweep text as it stands and in the whole-text spellings the manual declares equivalent"""
    e = "\n"
    head = ["\tcpu\t%s" % cpu, "\torg\t0"]
    out = [("plain", {"w.asm": e.join(head + body) + e})]
    out.append(("to-macro", {"w.asm": e.join(head + ["c16wrap\tmacro"] + body + ["\tendm", "\tc16wrap"]) + e}))
    out.append(("to-include", {"w.asm": e.join(head + ["\tinclude \"c16body.inc\""]) + e, "c16body.inc": e.join(body) + e}))
    out.append(("rept-1", {"w.asm": e.join(head + ["\trept\t1"] + body + ["\tendm"]) + e}))
    # backslash continuation directly behind an argument separator (between two components of the line)
    cont = []
    for l in body:
        cut = [i for i, ch in enumerate(l) if ch == "," and 20 < i < len(l) - 20 and ";" not in l[:i]]
        if cut:
            pos = sorted(rng.sample(cut, min(len(cut), rng.choice([1, 2, 3]))), reverse=True)
            for i in pos:
                l = l[:i + 1] + "\\" + e + l[i + 1:]
        cont.append(l)
    out.append(("continued", {"w.asm": e.join(head + cont) + e}))
    out.append(("crlf", {"w.asm": "\r\n".join(head + body) + "\r\n"}))
    out.append(("irp-1", {"w.asm": e.join(head + ["\tirp\tc16x,1"] + body + ["\tendm"]) + e}))
    return out


# ------------------------------------------------------------------------------------------------
# (2) texts whose definitions carry more than a value

def _names(rng, n, stem):
    return ["%s%d%s" % (stem, i, rng.choice(["", "x", "_q"])) for i in range(n)]


def gen_x86(rng):
    """8086 family: memory operands take their size from the definition of the variable.  returns (head, body, expected image)"""
    cpu = rng.choice(["8086", "80186", "v30", "v35"])
    nv = rng.randrange(2, 6)
    names = _names(rng, nv, "v")
    var = {}
    for nm in names:
        var[nm] = rng.choice(["b", "w"])
    if "b" not in var.values():
        var[names[0]] = "b"
    if "w" not in var.values():
        var[names[-1]] = "w"
    use_struct = rng.random() < 0.4
    items = []      # ("lab", name) | ("bytes", [...]) with ("lo", name) / ("hi", name)
    src = []
    org = rng.choice([0x100, 0x200, 0x1230])

    def data_lines(which):
        for nm in which:
            cnt = rng.randrange(1, 4)
            if var[nm] == "b":
                vals = [rng.randrange(256) for _ in range(cnt)]
                src.append("%s%s\tdb\t%s" % (nm, rng.choice(["", ":"]), ",".join(str(v) for v in vals)))
                items.extend([("lab", nm), ("bytes", vals)])
            else:
                vals = [rng.randrange(65536) for _ in range(cnt)]
                src.append("%s%s\tdw\t%s" % (nm, rng.choice(["", ":"]), ",".join(str(v) for v in vals)))
                b = []
                for v in vals:
                    b += [v & 255, v >> 8]
                items.extend([("lab", nm), ("bytes", b)])
    first = [nm for nm in names if rng.random() < 0.5]
    rest = [nm for nm in names if nm not in first]
    src.append("\torg\t%d" % org)
    if use_struct:
        src += ["rec\tstruct", "fa\tdb\t?", "fb\tdw\t?", "fc\tdb\t?", "rec\tendstruct"]
    data_lines(first)
    if use_struct and rng.random() < 0.5:
        src.append("rv\trec")
        items.extend([("lab", "rv"), ("bytes", [0, 0, 0, 0], "reserved")])
        var["rv_fa"], var["rv_fb"], var["rv_fc"] = "b", "w", "b"
        sdone = True
    else:
        sdone = False
    ncode = rng.randrange(3, 10)
    pool = list(names) + (["rv_fa", "rv_fb", "rv_fc"] if use_struct else [])
    soff = {"rv_fa": 0, "rv_fb": 1, "rv_fc": 3}
    for _ in range(ncode):
        nm = rng.choice(pool)
        sz = "b" if nm in ("rv_fa", "rv_fc") else ("w" if nm == "rv_fb" else var[nm])
        w = 1 if sz == "w" else 0
        ref = [("lo", nm), ("hi", nm)]
        r = rng.random()
        opnd = "[%s]" % nm
        if r < 0.5:
            m, base, ext = rng.choice([("inc", 0xfe, 0), ("dec", 0xfe, 1), ("neg", 0xf6, 3), ("not", 0xf6, 2)])
            src.append("\t%s\t%s" % (m, opnd))
            items.append(("bytes", [0x2e, base + w, 0x06 + (ext << 3)] + ref))
        elif r < 0.85:
            if w:
                v = rng.randrange(65536)
                src.append("\tmov\t%s,%d" % (opnd, v))
                items.append(("bytes", [0x2e, 0xc7, 0x06] + ref + [v & 255, v >> 8]))
            else:
                v = rng.randrange(256)
                src.append("\tmov\t%s,%d" % (opnd, v))
                items.append(("bytes", [0x2e, 0xc6, 0x06] + ref + [v]))
        else:
            src.append("\tnop")
            items.append(("bytes", [0x90]))
    data_lines(rest)
    if use_struct and not sdone:
        src.append("rv\trec")
        items.extend([("lab", "rv"), ("bytes", [0, 0, 0, 0], "reserved")])
    src.append("\tnop")          # reserved space (the structure instance) never ends the image
    items.append(("bytes", [0x90]))
    addr = org
    val = {}
    for it in items:
        if it[0] == "lab":
            val[it[1]] = addr
        else:
            addr += len(it[1])
    if "rv" in val:
        for k, o in soff.items():
            val[k] = val["rv"] + o
    img = []
    for it in items:
        if it[0] == "bytes":
            if len(it) > 2 and not img:
                continue          # reserved space in front of the first byte is not part of the image either (p2bin starts at the first byte)
            for b in it[1]:
                if isinstance(b, tuple):
                    b = (val[b[1]] & 255) if b[0] == "lo" else (val[b[1]] >> 8) & 255
                img.append(b)
    return ["\tcpu\t%s" % cpu], src, bytes(img)


def gen_8051(rng):
    cpu = rng.choice(["8051", "8052", "80c320", "80515"])
    d1, d2 = rng.sample(range(0x30, 0x7f), 2)
    xa = rng.randrange(0x100, 0xff00)
    ba = rng.randrange(0, 0x78)
    bitbase = rng.choice([0x20, 0x21, 0x2f, 0x90, 0xa0, 0xb0])
    bn, bn2 = rng.randrange(8), rng.randrange(8)
    sfr = rng.choice([0x80, 0x8d, 0xa1, 0xc7, 0xf9])
    sfrb = rng.choice([0xc0, 0xc8, 0xd8, 0xe8, 0xf8])
    rn = rng.randrange(8)
    n = _names(rng, 9, "s")
    defs = [
        ["\tsegment\tdata", "\torg\t%d" % min(d1, d2), "%s:\tdb\t?" % n[0], "\torg\t%d" % max(d1, d2), "%s:\tdb\t?" % n[1]],
        ["\tsegment\txdata", "\torg\t%d" % xa, "%s:\tdb\t?" % n[2]],
        ["\tsegment\tbitdata", "\torg\t%d" % ba, "%s:\tdb\t?" % n[3]],
        ["\tsegment\tcode", "%s\tbit\t%d.%d" % (n[4], bitbase, bn)],
        ["\tsegment\tcode", "%s\tsfr\t%d" % (n[5], sfr)],
        ["\tsegment\tcode", "%s\tsfrb\t%d" % (n[6], sfrb)],
        ["\tsegment\tcode", "%s\treg\tr%d" % (n[7], rn)],
    ]
    rng.shuffle(defs)
    body = [l for d in defs for l in d]
    body += ["\tsegment\tcode", "\torg\t%d" % rng.choice([0, 0x30, 0x100])]
    tabvals = [rng.randrange(256) for _ in range(rng.randrange(1, 5))]
    uses = [
        ["\tsetb\t%s" % n[4]], ["\tclr\t%s" % n[4]], ["\tjb\t%s,$" % n[4]], ["\tmov\tc,%s" % n[4]], ["\tcpl\t%s" % n[3]], ["\tjnb\t%s,$" % n[3]],
        ["\tmov\ta,%s" % n[5]], ["\tmov\t%s,#%d" % (n[6], rng.randrange(256))], ["\tsetb\t%s.%d" % (n[6], bn2)], ["\tpush\t%s" % n[5]],
        ["\tmov\ta,%s" % n[0]], ["\tmov\t%s,a" % n[1]], ["\tmov\t%s,%s" % (n[0], n[1])], ["\tinc\t%s" % n[1]], ["\tdjnz\t%s,$" % n[0]],
        ["\tmov\tdptr,#%s" % n[2], "\tmovx\ta,@dptr"], ["\tmov\tdptr,#%s" % n[8], "\tclr\ta", "\tmovc\ta,@a+dptr"],
        ["\tmov\ta,%s" % n[7]], ["\tinc\t%s" % n[7]], ["\tmov\t%s,#%d" % (n[7], rng.randrange(256))], ["\tdjnz\t%s,$" % n[7]],
        ["\tljmp\t%s" % n[8]], ["\tmov\tr0,#%s" % n[0]],
    ]
    sel = rng.sample(uses, rng.randrange(5, 12))
    tab_first = rng.random() < 0.5
    if tab_first:
        body.append("%s:\tdb\t%s" % (n[8], ",".join(str(v) for v in tabvals)))
    for u in sel:
        body += u
    if not tab_first:
        body.append("%s:\tdb\t%s" % (n[8], ",".join(str(v) for v in tabvals)))
    return ["\tcpu\t%s" % cpu], body, None


def gen_avr(rng):
    cpu = rng.choice(["atmega8", "at90s8515", "atmega16"])
    r1, r2 = rng.sample(range(16, 30), 2)
    port = rng.randrange(0, 32)
    port2 = rng.randrange(32, 64)
    n = _names(rng, 4, "a")
    body = ["%s\treg\tr%d" % (n[0], r1), "%s\treg\tr%d" % (n[1], r2), "%s\tport\t%d" % (n[2], port), "%s\tport\t%d" % (n[3], port2)]
    rng.shuffle(body)
    uses = ["\tin\t%s,%s" % (n[0], n[2]), "\tout\t%s,%s" % (n[3], n[1]), "\tldi\t%s,%d" % (n[0], rng.randrange(256)), "\tsbi\t%s,%d" % (n[2], rng.randrange(8)),
            "\tmov\t%s,%s" % (n[1], n[0]), "\tadd\t%s,%s" % (n[0], n[1]), "\tsbic\t%s,%d" % (n[2], rng.randrange(8)), "\tin\t%s,%s" % (n[1], n[3]),
            "\tcpi\t%s,%d" % (n[1], rng.randrange(256)), "\tnop"]
    body += rng.sample(uses, rng.randrange(4, 9))
    return ["\tcpu\t%s" % cpu], body, None


def gen_68k(rng):
    cpu = rng.choice(["68000", "68020", "68010"])
    dn = rng.sample(range(8), 2)
    an = rng.randrange(0, 7)
    n = _names(rng, 3, "r")
    body = ["%s\treg\td%d" % (n[0], dn[0]), "%s\t%s\td%d" % (n[1], rng.choice(["reg", "equ"]), dn[1]), "%s\t%s\ta%d" % (n[2], rng.choice(["reg", "equ"]), an)]
    rng.shuffle(body)
    sz = lambda: rng.choice(["b", "w", "l"])
    uses = ["\tmove.%s\t%s,(%s)" % (sz(), n[0], n[2]), "\tadd.%s\t%s,%s" % (sz(), n[0], n[1]), "\tlea\t(%s),a0" % n[2], "\tmoveq\t#%d,%s" % (rng.randrange(100), n[1]),
            "\tmove.w\t(%s)+,%s" % (n[2], n[0]), "\tcmp.l\t%s,%s" % (n[2], n[2]), "\tmove.%s\t%d(%s,%s.w),%s" % (sz(), rng.randrange(100), n[2], n[0], n[1]),
            "\tclr.%s\t%s" % (sz(), n[0]), "\tswap\t%s" % n[1], "\tnop"]
    body += rng.sample(uses, rng.randrange(4, 9))
    return ["\tcpu\t%s" % cpu], body, None


def gen_port(rng):
    cpu, tmpl = rng.choice([("z80", ["\tin\ta,(%s)", "\tout\t(%s),a"]), ("8080", ["\tin\t%s", "\tout\t%s"]), ("8085", ["\tin\t%s", "\tout\t%s"]),
                            ("z180", ["\tin\ta,(%s)", "\tout\t(%s),a"])])
    n = _names(rng, 2, "p")
    body = ["%s\tport\t%d" % (n[0], rng.randrange(256)), "%s\tport\t%d" % (n[1], rng.randrange(256))]
    for _ in range(rng.randrange(2, 7)):
        body.append(rng.choice(tmpl) % rng.choice(n))
    return ["\tcpu\t%s" % cpu], body, None


def gen_166(rng):
    cpu = rng.choice(["80c166", "80c167"])
    n = _names(rng, 4, "k")
    rw, rb = rng.randrange(0, 16), rng.randrange(0, 8)
    body = ["%s\tbit\tr%d.%d" % (n[0], rng.randrange(16), rng.randrange(16)), "%s\treg\tr%d" % (n[1], rw), "%s\treg\tr%s%d" % (n[2], rng.choice("lh"), rb),
            "%s\tbit\t%d.%d" % (n[3], rng.choice([0xfd00, 0xfd10, 0xff20]), rng.randrange(16))]
    rng.shuffle(body)
    uses = ["\tbset\t%s" % n[0], "\tbclr\t%s" % n[3], "\tmov\t%s,#%d" % (n[1], rng.randrange(16)), "\tmovb\t%s,#%d" % (n[2], rng.randrange(16)), "\tjb\t%s,$" % n[0],
            "\tadd\t%s,%s" % (n[1], n[1]), "\tbmov\t%s,%s" % (n[0], n[3]), "\tmov\t%s,#%d" % (n[1], rng.randrange(256, 65536)), "\tmovbz\t%s,%s" % (n[1], n[2]), "\tnop"]
    body += rng.sample(uses, rng.randrange(4, 9))
    return ["\tcpu\t%s" % cpu], body, None


def gen_msp(rng):
    n = _names(rng, 2, "m")
    r1, r2 = rng.sample(range(4, 16), 2)
    body = ["%s\treg\tr%d" % (n[0], r1), "%s\t%s\tr%d" % (n[1], rng.choice(["reg", "equ"]), r2)]
    uses = ["\tmov\t#%d,%s" % (rng.randrange(65536), n[0]), "\tadd.b\t%s,%s" % (n[0], n[1]), "\tmov\t@%s+,%s" % (n[0], n[1]), "\tmov\t%d(%s),%s" % (rng.randrange(100), n[1], n[0]),
            "\tpush\t%s" % n[1], "\tswpb\t%s" % n[0], "\tnop"]
    body += rng.sample(uses, rng.randrange(3, 7))
    return ["\tcpu\tmsp430"], body, None


DEF_FAMILIES = [("x86-data-size", gen_x86), ("x86-data-size", gen_x86), ("8051-bit-sfr-reg-segments", gen_8051), ("avr-reg-port", gen_avr),
                ("68k-reg", gen_68k), ("port", gen_port), ("166-bit-reg", gen_166), ("msp-reg", gen_msp)]


def def_variants(rng, head, body):
    e = "\n"
    out = [("plain", {"w.asm": e.join(head + body) + e})]
    out.append(("to-macro", {"w.asm": e.join(head + ["c16wrap\tmacro"] + body + ["\tendm", "\tc16wrap"]) + e}))
    out.append(("to-macro-after-other-expansion",
                {"w.asm": e.join(head + ["c16pre\tmacro", "\tendm", "\tc16pre", "c16wrap\tmacro"] + body + ["\tendm", "\tC16Wrap"]) + e}))
    out.append(("to-include", {"w.asm": e.join(head + ["\tinclude \"c16body.inc\""]) + e, "c16body.inc": e.join(body) + e}))
    out.append(("rept-1", {"w.asm": e.join(head + ["\trept\t1"] + body + ["\tendm"]) + e}))
    out.append(("irp-1", {"w.asm": e.join(head + ["\tirp\tc16x,1"] + body + ["\tendm"]) + e}))
    out.append(("to-include-in-macro", {"w.asm": e.join(head + ["c16wrap\tmacro", "\tinclude \"c16body.inc\"", "\tendm", "\tc16wrap"]) + e,
                                        "c16body.inc": e.join(body) + e}))
    out.append(("to-macro-in-macro", {"w.asm": e.join(head + ["c16outer\tmacro", "c16wrap\tmacro"] + body + ["\tendm", "\tc16wrap", "\tendm", "\tc16outer"]) + e}))
    out.append(("comments-added", {"w.asm": e.join(head + [l + rng.choice(["\t; note", " ;x", ";", "\t\t; a 'quote\" ; in ; it"]) for l in body]) + e}))
    return out


# ------------------------------------------------------------------------------------------------

def run_part(c16, args, bdir, wd, drv_ok):
    """c16 = the c16 module (build_image); returns dict(spec_fail, corr_fail, problems, dist, samples, evaluations, distinct)"""
    spec_fail, corr_fail, problems, samples = [], [], [], []
    dist = dict(long_cases=0, long_lines=0, long_runs=0, long_by_kind={}, long_by_order={}, long_by_variant={}, long_model_lines=0,
                long_arg_buffer_boundary_hits=0, long_comment_buffer_boundary_hits=0, long_plain_rejected=0,
                def_texts=0, def_runs=0, def_by_family={}, def_by_variant={}, def_plain_rejected=0, def_x86_expected_checked=0)
    distinct = set()
    evaluations = 0
    d = os.path.join(wd, "c16long")
    quick = args.tier == "quick"

    def image(files):
        shutil.rmtree(d, ignore_errors=True)
        os.makedirs(d)
        for fn, t in files.items():
            open(os.path.join(d, fn), "wb").write(t.encode("latin-1"))
        return c16.build_image(bdir, d, "w", "", [d])

    # ---- (0) corpus: minimised past failures
    cf = os.path.join(common.VERIF, "corpus", "C16", "tab_overflow_macro.asm")
    if os.path.exists(cf):
        text = open(cf, "rb").read().decode("latin-1")
        want = bytes(100 + i % 100 for i in range(200))
        plain = "".join(l + "\n" for l in text.split("\n") if l and not l.startswith(";") and l.split() not in (["w", "macro"], ["endm"], ["w"]))
        for tag, t in (("plain", plain), ("to-macro", text)):
            img, diag = image({"w.asm": t})
            evaluations += 1
            dist["corpus_runs"] = dist.get("corpus_runs", 0) + 1
            if img != want:
                spec_fail.append(dict(tag="long/corpus/tab_overflow_macro/%s" % tag, test="generated", flags="", whole="long-line-" + tag,
                                      sig=KNOWN_TAB_SIG if tag == "to-macro" else None, expect=want.hex(), files={"w.asm": t}, incdir=".",
                                      why="corpus/C16/tab_overflow_macro.asm (%s): a data line of 1021 characters with two TABs %s does not give the 200 bytes written: %s"
                                          % (tag, "inside a macro body" if tag == "to-macro" else "as it stands", diag[-200:].replace("\n", " | ") if img is None else "other image")))
                if tag == "to-macro":
                    dist["long_known_tab_finding_hits"] = dist.get("long_known_tab_finding_hits", 0) + 1

    # ---- (1) long lines
    windows = WINDOWS_QUICK if quick else WINDOWS_THOROUGH
    ncase = len(KINDS) + 3 if quick else 12 * len(KINDS)
    for ci in range(ncase):
        rng = common.rng_for(args.seed, "C16/long/%d" % ci)
        kind = KINDS[ci % len(KINDS)]
        nvar = 6
        vi = (ci + args.seed) % nvar            # quick tier: the one whole-text spelling this case is assembled in besides the plain one
        tabfree = (vi == 0 or vi == 5) if quick else (ci + ci // len(KINDS) + args.seed) % 2 == 0
        case = gen_long_case(rng, kind, windows, tabfree)
        # the first round over the kinds is always ascending (every buffer size is met exactly once on the way up), later rounds in any order
        ns, order = sweep_ns(rng, case, windows, "ascending" if ci < len(KINDS) else None)
        body = [fill_holes(case["pad"], n, case["segs"]) for n in ns]
        per = bytes(case["values"])
        expect = per * len(body)
        dist["long_cases"] += 1
        dist["long_lines"] += len(body)
        dist["long_by_kind"][kind] = dist["long_by_kind"].get(kind, 0) + 1
        dist["long_by_order"][order] = dist["long_by_order"].get(order, 0) + 1
        # model: the same lines through the splitter with its buffers
        margs = None
        if drv_ok:
            req = "%s %s %s %s" % (case["pspec"], hx(case["pad"]), ",".join(str(n) for n in ns), " ".join(hx(s) for s in case["segs"]))
            ans = common.driver("c16sweep", [req])[0]
            kv = dict(x.split("=", 1) for x in ans.split() if "=" in x)
            if "same" not in kv:
                problems.append("c16sweep: bad answer %s for %s" % (ans[:200], req[:200]))
            else:
                dist["long_model_lines"] += int(kv["k"])
                ck = 7
                for l in body:
                    for ch in l.encode("latin-1"):
                        ck = (ck * 31 + ch) % 4294967296
                if int(kv["ck"]) != ck or int(kv["k"]) != len(body):
                    problems.append("c16sweep: the driver built other lines than the harness (fillHoles rule differs): %s" % req[:200])
                dist["long_arg_buffer_boundary_hits"] += int(kv["hitsarg"])
                dist["long_comment_buffer_boundary_hits"] += int(kv["hitscomm"])
                if kv["bufok"] != "1":
                    problems.append("c16sweep: the splitter with buffers differs from the unbounded splitter (instance of C16_buffers_run false): %s" % req[:300])
                margs = [] if kv["args"] == "." else [unhx(x) for x in kv["args"].split(",")]
                mvals = [eval_operand(a) for a in margs]
                if kv["same"] != "1" or mvals != case["values"] or unhx(kv["op"]) != case["op"].split(".")[0].upper():
                    problems.append("c16sweep: Model/Split.lean does not split the lines of a length sweep (%s) into the operands written "
                                    "(generator or model wrong): same=%s op=%s model values %s, written %s"
                                    % (kind, kv["same"], unhx(kv["op"]), str(mvals)[:200], str(case["values"])[:200]))
        variants = long_variants(rng, case["cpu"], body)
        assert len(variants) == nvar + 1
        if quick:
            variants = [variants[0], variants[1 + vi]]
        for tag, files in variants:
            img, diag = image(files)
            evaluations += 1
            dist["long_runs"] += 1
            dist["long_by_variant"][tag] = dist["long_by_variant"].get(tag, 0) + 1
            distinct.add(hash(files["w.asm"]) ^ hash(tag))
            if img == expect:
                continue
            # which line?
            bad = None
            if img is not None and len(img) == len(expect):
                for li in range(len(body)):
                    if img[li * len(per):(li + 1) * len(per)] != per:
                        bad = li
                        break
            f = dict(tag="long/%d/%s/%s" % (ci, kind, tag), test="generated", flags="", whole="long-line-" + tag, sweep=kind, order=order,
                     sig=KNOWN_TAB_SIG if known_tab_class(tag, body) else None, expect=expect.hex(), files=files, incdir=".")
            if f["sig"]:
                dist["long_known_tab_finding_hits"] = dist.get("long_known_tab_finding_hits", 0) + 1
            if bad is not None:
                got = img[bad * len(per):(bad + 1) * len(per)]
                k0 = next(i for i in range(len(per)) if got[i] != per[i])
                f["why"] = ("long data line, only immaterial spelling varied (%s, %d pad characters, line of %d characters, swept part %d characters, %s order, line %d of the "
                            "sweep, %s spelling): operand %d of %d assembles to %d, written %d (%s)"
                            % (kind, ns[bad], len(body[bad]), case["part0"] + ns[bad], order, bad + 1, tag, k0 + 1, len(per), got[k0], per[k0],
                               "the other spellings of the same line in this source give the written bytes" if bad else "first line"))
                f["line"] = body[bad]
                # smaller reproducer: the line alone (the buffers have their initial size then)
                one = dict(files)
                if tag == "plain":
                    one = {"w.asm": "\tcpu\t%s\n\torg\t0\n%s\n" % (case["cpu"], body[bad])}
                    img1, _ = image(one)
                    if img1 is not None and img1 != per:
                        f["files"] = one
                        f["expect"] = per.hex()
                        f["minimised"] = "the line alone"
            else:
                f["why"] = ("long data lines, only immaterial spelling varied (%s, %s order, %s spelling): %s"
                            % (kind, order, tag, ("rejected: " + diag[:300]) if img is None else "image of %d bytes, %d written" % (len(img), len(expect))))
            if tag == "plain":
                dist["long_plain_rejected"] += 1
            spec_fail.append(f)
            if drv_ok and margs is not None and bad is not None and not f["sig"]:
                corr_fail.append(dict(tag=f["tag"], why="Model/Split.lean delivers the written operands for every line of the sweep, the real assembler does not", line=body[bad][:80] + "..."))
            if tag == "plain":
                break
        if ci < 2:
            samples.append(dict(kind="long-line-sweep", sweep=kind, cpu=case["cpu"], order=order, pad=case["pad"], lines=len(body),
                                lengths=[len(body[0]), len(body[-1])], first_line_head=body[0][:60], first_line_tail=body[0][-30:]))

    # ---- (2) definitions that carry more than a value
    ntext = (3 if quick else 40)
    for fi, (fam, gen) in enumerate(DEF_FAMILIES):
        for ti in range(ntext):
            rng = common.rng_for(args.seed, "C16/defwrap/%d/%d" % (fi, ti))
            head, body, expect = gen(rng)
            vs = def_variants(rng, head, body)
            img0, diag0 = image(vs[0][1])
            evaluations += 1
            if img0 is None:
                dist["def_plain_rejected"] += 1
                problems.append("c16_long: generated %s text is rejected in its plain spelling (generator wrong): %s | %s" % (fam, diag0[-200:].replace("\n", " "), " / ".join(body)[:300]))
                continue
            if expect is not None:
                dist["def_x86_expected_checked"] += 1
                if img0 != expect:
                    spec_fail.append(dict(tag="defwrap/%s/%d/plain" % (fam, ti), test="generated", flags="", whole="plain", family=fam,
                                          sig="generated-text-plain-spelling-wrong",
                                          why="plain spelling of a generated %s text does not give the bytes its statements stand for: expected %s got %s"
                                              % (fam, expect.hex(), img0.hex()), expect=expect.hex(), files=vs[0][1], incdir="."))
                    continue
            dist["def_texts"] += 1
            dist["def_by_family"][fam] = dist["def_by_family"].get(fam, 0) + 1
            if ti == 0 and fi in (0, 2):
                samples.append(dict(kind="definition-carrying-text", family=fam, plain=head + body, image=img0.hex()))
            for tag, files in vs[1:]:
                img, diag = image(files)
                evaluations += 1
                dist["def_runs"] += 1
                dist["def_by_variant"][tag] = dist["def_by_variant"].get(tag, 0) + 1
                distinct.add(hash(files["w.asm"]) ^ hash(tag))
                if img != img0:
                    spec_fail.append(dict(tag="defwrap/%s/%d/%s" % (fam, ti, tag), test="generated", flags="", whole=tag, family=fam, sig=None,
                                          why="the %s spelling of a generated text whose definitions carry more than a value (%s) gives another result than its plain "
                                              "spelling%s: plain %s, respelled %s"
                                              % (tag, fam, (" (" + diag[-300:].replace("\n", " | ") + ")") if diag else "", img0.hex()[:120], (img or b"").hex()[:120] if img is not None else "no code"),
                                          plain=head + body, files=files, incdir="."))
    shutil.rmtree(d, ignore_errors=True)
    return dict(spec_fail=spec_fail, corr_fail=corr_fail, problems=problems, dist=dist, samples=samples, evaluations=evaluations, distinct=distinct)
