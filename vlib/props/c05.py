"""C05 - P2BIN writes the memory image described by the code file.

(B) real p2bin vs Model/P2Bin.lean, (C) Spec/P2Bin.lean on the real output; both evaluated inside the
Lean driver (mode `c05`).  Code files are written here, byte by byte, from doc/file-formats.md
(independent of asl).  See Driver/C05.lean for the line protocol.
"""
import json
import os
import resource
import struct
import subprocess

from .. import common
from ..common import log

LANES = ["ALL", "EVEN", "ODD", "BYTE0", "BYTE1", "BYTE2", "BYTE3", "WORD0", "WORD1"]
SEGNAMES = {1: "code", 2: "data", 3: "idata", 4: "xdata", 5: "ydata", 6: "bitdata", 7: "io", 8: "reg", 9: "romdata", 10: "eedata"}
# (family id, granularity in CODE) - ids from doc/file-formats.md; granularity is what toolutils.c implies for short records
CPUS = [(0x11, 1), (0x51, 1), (0x31, 1), (0x01, 1), (0x70, 2), (0x3b, 2), (0x76, 4), (0x09, 4), (0x12, 2)]
M32 = 1 << 32


# ---------------------------------------------------------------- code file writer (doc/file-formats.md)
def ser_item(it):
    if it[0] == "E":
        return b"\x80" + struct.pack("<I", it[1])
    _, cpu, seg, gran, start, data, short = it
    if short:
        return bytes([cpu]) + struct.pack("<IH", start, len(data)) + bytes(data)
    return bytes([0x81, cpu, seg, gran]) + struct.pack("<IH", start, len(data)) + bytes(data)


def ser_file(items, creator):
    return b"\x89\x14" + b"".join(ser_item(i) for i in items) + b"\x00" + creator


def D(cpu, seg, gran, start, data, short=False):
    return ("D", cpu, seg, gran, start, bytes(data), short)


# ---------------------------------------------------------------- option record -> command line / request
def fmt_num(rng, v):
    k = rng.randrange(3) if rng else 0
    return [str(v), "$%x" % v, "0x%X" % v][k]


class Case:
    def __init__(self, tag, files, start=None, stop=None, fill=None, lane=None, header=None, entry=None, cks=False,
                 filt=None, seg=None):
        self.tag = tag
        self.files = files          # list of (items, offset, creator)
        self.start, self.stop = start, stop   # None = automatic
        self.range_given = True
        self.fill, self.lane, self.header, self.entry = fill, lane, header, entry
        self.cks, self.filt, self.seg = cks, filt, seg

    def argv(self, rng=None):
        a = ["-q"]
        for i, (items, off, cr) in enumerate(self.files):
            a.append("i%d" % i + ("(%s)" % fmt_num(rng, off) if off else ""))
        a.append("out")
        o = []
        if self.range_given:
            o.append(["-r", "%s-%s" % (fmt_num(rng, self.start) if self.start is not None else (rng.choice(["$", "0x", "0X"]) if rng else "$"),
                                      fmt_num(rng, self.stop) if self.stop is not None else (rng.choice(["$", "0x"]) if rng else "$"))])
        if self.fill is not None:
            o.append(["-l", fmt_num(rng, self.fill)])
        if self.lane is not None:
            o.append(["-m", self.lane if not rng or rng.random() < 0.5 else self.lane.lower()])
        if self.header is not None:
            h = self.header
            o.append(["-S", ("B%d" % -h) if h < 0 else (("L%d" % h) if (rng and rng.random() < 0.5) else str(h))])
        if self.entry is not None:
            o.append(["-e", fmt_num(rng, self.entry)])
        if self.cks:
            o.append(["-s"])
        if self.filt:
            o.append(["-f", ",".join(fmt_num(rng, x) for x in self.filt)])
        if self.seg is not None:
            o.append(["-segment", SEGNAMES[self.seg] if not rng or rng.random() < 0.5 else SEGNAMES[self.seg].upper()])
        if rng:
            rng.shuffle(o)
        for x in o:
            a += x
        return a

    def request_head(self, quirks):
        sa = self.start is None or not self.range_given
        so = self.stop is None or not self.range_given
        w = [quirks, "1" if sa else "0", "1" if so else "0", str(self.start or 0), str(self.stop or 0),
             str(0xff if self.fill is None else self.fill), self.lane or "ALL", str(self.header or 0),
             "-" if self.entry is None else str(self.entry), "1" if self.cks else "0",
             ",".join(str(x) for x in self.filt) if self.filt else "-", str(self.seg or 1), str(len(self.files))]
        for items, off, cr in self.files:
            w += [str(off), ser_file(items, cr).hex()]
        return " ".join(w)

    def describe(self):
        return dict(tag=self.tag, argv=self.argv(None),
                    files=[dict(offset=off, creator=cr.decode("latin1"), hex=ser_file(items, cr).hex(),
                                records=[("entry %#x" % i[1]) if i[0] == "E" else "cpu=%#x seg=%d gran=%d start=%#x len=%d%s" % (i[1], i[2], i[3], i[4], len(i[5]), " short" if i[6] else "") for i in items])
                           for items, off, cr in self.files])


def _limits():
    """soft file-size limit for this process and its children (a -s run on an empty image would otherwise
    seek to 4 GiB); set in the parent so that subprocess can use vfork/posix_spawn (no preexec_fn)."""
    soft, hard = resource.getrlimit(resource.RLIMIT_FSIZE)
    lim = 1 << 27
    if hard != resource.RLIM_INFINITY:
        lim = min(lim, hard)
    resource.setrlimit(resource.RLIMIT_FSIZE, (lim, hard))


def run_real(bdir, wd, case, argv):
    for f in os.listdir(wd):
        os.unlink(os.path.join(wd, f))
    for i, (items, off, cr) in enumerate(case.files):
        with open(os.path.join(wd, "i%d.p" % i), "wb") as f:
            f.write(ser_file(items, cr))
    e = dict(os.environ)
    e.update(common.tool_env(bdir))
    try:
        r = subprocess.run([os.path.join(bdir, "p2bin")] + argv, cwd=wd, env=e, stdout=subprocess.PIPE, stderr=subprocess.PIPE,
                           timeout=60)
        status, so, se = r.returncode, r.stdout, r.stderr
    except subprocess.TimeoutExpired:
        return dict(status=-99, out=None, warn=0, cks=None, stderr="timeout")
    outp = os.path.join(wd, "out.bin")
    out = None
    if os.path.exists(outp) and os.path.getsize(outp) < (1 << 26):
        out = open(outp, "rb").read()
    cks = None
    for line in so.decode(errors="replace").split("\n"):
        if line.lower().startswith("checksum:"):
            try:
                cks = int(line.split(":")[1].strip(), 16)
            except ValueError:
                pass
    warn = se.decode(errors="replace").count("overlapping")
    return dict(status=status, out=out, warn=warn, cks=cks, stderr=se.decode(errors="replace")[:300])


def request_of(case, quirks, real):
    out = "none" if real["out"] is None else (real["out"].hex() or "-")
    return "%s %d %s %d %s" % (case.request_head(quirks), real["status"], out, real["warn"], "-" if real["cks"] is None else real["cks"])


# ---------------------------------------------------------------- probes (which of the known defects are present?)
W_FILTER = Case("witness:filter", [([D(0x11, 1, 1, 0, [1, 2])], 0, b"X")], filt=[0x11])
W_FILTER.range_given = False
W_LANE = Case("witness:lane", [([D(0x11, 1, 1, 1, [0xa1, 0xa2])], 0, b"X")], start=0, stop=3, fill=0, lane="EVEN")
W_OVERLAP = Case("witness:overlap", [([D(0x11, 1, 1, 0, [1] * 10), D(0x11, 1, 1, 15, [2] * 11), D(0x11, 1, 1, 10, [3] * 11)], 0, b"X")])
W_OVERLAP.range_given = False
W_EXPLGRAN = Case("witness:explicit-gran", [([D(0x70, 1, 2, 2, [1, 2, 3, 4])], 0, b"X")], start=0, stop=7, fill=0xee)
W_CREATOR = Case("witness:empty-creator", [([D(0x11, 1, 1, 0, [1, 2, 3, 4])], 0, b"")])
W_CREATOR.range_given = False
WITNESSES = [W_FILTER, W_LANE, W_OVERLAP, W_EXPLGRAN, W_CREATOR]


def probe_quirks(bdir, wd):
    r = run_real(bdir, wd, W_FILTER, W_FILTER.argv())
    q0 = r["status"] == 0 and r["out"] == bytes([1, 2])
    r = run_real(bdir, wd, W_LANE, W_LANE.argv())
    q1 = r["out"] == bytes([0, 0xa2])
    r = run_real(bdir, wd, W_OVERLAP, W_OVERLAP.argv())
    q2 = r["warn"] > 0
    r = run_real(bdir, wd, W_EXPLGRAN, W_EXPLGRAN.argv())
    q3 = r["out"] is not None and len(r["out"]) == 16
    r = run_real(bdir, wd, W_CREATOR, W_CREATOR.argv())
    q4 = r["status"] == 0
    return "".join("1" if x else "0" for x in (q0, q1, q2, q3, q4))


# ---------------------------------------------------------------- generator
LEN_POOL = [1, 2, 3, 4, 5, 7, 8, 15, 16, 17, 31, 32, 33, 64, 100]
BIG_POOL = [4095, 4096, 4097, 8191, 8192, 8193, 12288, 20000, 65532, 65535]
HEADERS = [1, 2, 3, 4, -1, -2, -3, -4]


def rand_data(rng, n):
    return bytes(rng.randrange(256) for _ in range(n))


def gen_records(rng, cpu, gran, seg, base, n, big=False, allow_short=True):
    """n records of one family laid out near `base` (address units), with gaps / adjacency / overlaps"""
    recs = []
    pos = base
    for _ in range(n):
        units = (rng.choice(BIG_POOL) // gran or 1) if (big and rng.random() < 0.5) else max(1, rng.choice(LEN_POOL) // gran) if rng.random() < 0.7 else rng.randrange(1, 200 // gran + 2)
        units = max(1, min(units, 65535 // gran))
        k = rng.random()
        if k < 0.30:
            start = pos                                   # adjacent
        elif k < 0.65:
            start = pos + rng.choice([1, 1, 2, 3, 4, 5, 8, 16, 33])      # gap
        elif k < 0.85 and recs:
            start = max(0, pos - rng.choice([1, 1, 2, 3, 4, 8, units]))   # overlap with what was written before
        else:
            start = max(0, base + rng.randrange(-8, 64))
        start = min(start, M32 - units)
        short = allow_short and seg == 1 and cpu < 0x80 and rng.random() < 0.3
        recs.append(D(cpu, seg, gran, start, rand_data(rng, units * gran), short))
        pos = start + units
    return recs


def rec_span(recs, off=0):
    lo = min((r[4] + off) % M32 for r in recs)
    hi = max(((r[4] + off) % M32) + len(r[5]) // r[3] - 1 for r in recs)
    return lo, hi


def pick_window(rng, case, lo, hi):
    """choose the -r form; boundaries hug record/window edges"""
    k = rng.random()
    edge = lambda v: max(0, min(M32 - 1, v + rng.choice([-2, -1, 0, 0, 1, 2, 3, 4])))
    if k < 0.25:
        case.range_given = False
    elif k < 0.40:
        case.start = case.stop = None
    elif k < 0.55:
        case.start, case.stop = edge(lo), None
        if case.start > hi:
            case.start = lo
    elif k < 0.70:
        case.start, case.stop = None, edge(hi)
        if case.stop < lo:
            case.stop = hi
    else:
        a, b = edge(lo + rng.choice([0, 0, (hi - lo) // 3])), edge(hi - rng.choice([0, 0, (hi - lo) // 3]))
        if a > b:
            a, b = b, a
        if b - a > 70000:
            b = a + 70000
        case.start, case.stop = a, b


def gen_case(rng, idx, tier):
    kind = rng.random()
    big = (idx % 40 == 7)
    nfiles = 1 if rng.random() < 0.75 else rng.randrange(2, 4)
    files = []
    allrecs = []
    mixed = kind > 0.80
    cpu0, gran0 = rng.choice(CPUS[:4]) if rng.random() < 0.6 else rng.choice(CPUS)
    base0 = rng.choice([0, 0, 1, 2, 3, 0x100, 0x101, 0x7ffe, 0xfffe, 0xffff0, rng.randrange(0, 0x10000), M32 - 600 if idx % 50 == 3 else 0x2000])
    want_seg = rng.choice([2, 3, 4, 6, 9]) if rng.random() < 0.12 else 1
    for fi in range(nfiles):
        items = []
        off = 0 if rng.random() < 0.6 or base0 > M32 - 5000 else rng.choice([1, 2, 4, 0x10, 0x100, 0x1000, rng.randrange(0, 300)])
        n = rng.randrange(1, 6)
        base = base0 + (fi * rng.choice([0, 16, 64, 300]) if base0 < M32 - 5000 else 0)
        items += gen_records(rng, cpu0, gran0 if want_seg == 1 or cpu0 not in (0x3b,) else 1, want_seg, base, n, big=big)
        if mixed:
            cpu1, gran1 = rng.choice(CPUS)
            seg1 = want_seg if rng.random() < 0.6 else rng.choice([1, 2, 4])
            g1 = gran1 if seg1 == 1 else rng.choice([1, gran1])
            items += gen_records(rng, cpu1, g1, seg1, base + rng.randrange(0, 40), rng.randrange(1, 3), allow_short=(g1 == gran1))
            rng.shuffle(items)
        if rng.random() < 0.3:
            items.insert(rng.randrange(len(items) + 1), ("E", rng.choice([0, 0x1234, 0x12345678, 0xffffffff, rng.randrange(M32)])))
        cr = rng.choice([b"AS 1.42 Beta [Bld 212]/x86_64-unknown-linux", b"X", b"verif"])
        if idx % 97 == 11 and fi == 0:
            cr = b""
        files.append((items, off, cr))
        allrecs += [((r[4] + off) % M32, r) for r in items if r[0] == "D"]
    c = Case("gen:%d" % idx, files)
    if want_seg != 1:
        c.seg = want_seg
    elif rng.random() < 0.05:
        c.seg = 1
    sel = [(s, r) for s, r in allrecs if r[2] == (c.seg or 1)]
    if not sel:
        sel = allrecs
    lo = min(s for s, r in sel)
    hi = max(s + len(r[5]) // r[3] - 1 for s, r in sel)
    if hi - lo > 200000:       # keep images small: restrict the window
        c.start, c.stop = lo, lo + rng.randrange(100, 5000)
    else:
        pick_window(rng, c, lo, min(hi, M32 - 1))
    if rng.random() < 0.6:
        c.fill = rng.choice([0, 0xff, 0xee, 0x55, 0xaa, rng.randrange(256)])
    if rng.random() < 0.45:
        c.lane = rng.choice(LANES)
    if rng.random() < 0.35:
        c.header = rng.choice(HEADERS)
    if rng.random() < 0.25:
        c.entry = rng.choice([0, 1, 0xabcd, 0x12345678, 0xffffffff, rng.randrange(M32)])
    if rng.random() < 0.25 and (c.lane in (None, "ALL") or (hi - lo) * sel[0][1][3] >= 16 and (c.stop is None or c.start is None or c.stop - c.start >= 8)):
        c.cks = True        # (-s on an image of length 0 makes the tool seek to -1: C03 territory, not generated)
    if rng.random() < 0.10:
        ids = sorted({r[1] for s, r in allrecs})
        c.filt = rng.choice([[rng.choice(ids)], ids, [0x81], [rng.choice(ids), 0x81], [0x7f]])
    return c


def lane_grid():
    """exhaustive: lane mode x record offset mod 4 x window offset mod 4 x granularity 1/2/4 (432 cases)"""
    out = []
    for lane in LANES:
        for gran, cpu in ((1, 0x11), (2, 0x70), (4, 0x76)):
            for ro in range(4):
                for wo in range(4):
                    start = 0x40 + wo
                    rstart = 0x48 + ro
                    data = bytes(((0x10 * (k % 15 + 1)) + ro + 1) & 0xff for k in range(12 * gran))
                    d2 = bytes((0xc0 + k) & 0xff for k in range(3 * gran))
                    c = Case("grid:%s:g%d:r%d:w%d" % (lane, gran, ro, wo),
                             [([D(cpu, 1, gran, rstart, data), D(cpu, 1, gran, rstart + 14, d2)], 0, b"X")],
                             start=start, stop=start + 0x1f + (wo + ro) % 3, fill=0xee, lane=lane)
                    out.append(c)
    return out


def overlap_family(rng, n):
    out = []
    for i in range(n):
        k = rng.randrange(3, 7)
        recs = []
        for _ in range(k):
            s = rng.randrange(0, 40)
            recs.append(D(0x11, 1, 1, s, rand_data(rng, rng.randrange(1, 12))))
        c = Case("ovl:%d" % i, [(recs, 0, b"X")])
        c.range_given = rng.random() < 0.5
        if c.range_given and rng.random() < 0.5:
            c.start, c.stop = rng.randrange(0, 10), rng.randrange(20, 50)
        out.append(c)
    return out


SIGS = {
    "filter-uses-record-header": "-f is compared with the record header byte ($81) instead of the CPU family: a real family id selects nothing, 129 selects everything",
    "lane-unaligned": "-m lane selection misplaces bytes (or mis-sizes the file) when the window start, a record start or the window end is not on a lane-period boundary in byte addresses",
    "explicit-range-ignores-granularity": "with both -r bounds explicit MaxGran stays 1: for word/longword-granular records the file is shorter than the window and unwritten tail bytes are not filled",
    "overlap-missed": "AddChunk misses a true overlap when the new range first touches a chunk it does not overlap (records [0..9],[15..25],[10..20])",
    "empty-creator-rejected": "a well-formed code file whose creator string is empty and whose last record is a data record is rejected (invalid record length)",
}


def classify(kv, quirks):
    """signature of a spec failure - only if the code-following model reproduces the real run exactly and every
    failing clause is one that a known defect class of this input explains; the first class (fixed order) names it"""
    why = set(kv.get("why", "-").split(",")) - {"-"}
    cls = set(kv.get("cls", "-").split(","))
    agrees = kv.get("status") == "eq" and kv.get("file") in ("eq", "na") and kv.get("warn") in ("eq", "na") and kv.get("ck") in ("eq", "na")
    if not agrees or not why:
        return None
    cands = []
    if "filter" in cls and quirks[0] == "0":
        cands.append(("filter-uses-record-header", {"bytes", "length", "nothing-selected-not-rejected", "exit-status", "no-output", "empty-window-not-rejected", "overlap-false-warning", "overlap-not-warned", "header"}))
    if "emptycreator" in cls and len(quirks) > 4 and quirks[4] == "0":
        cands.append(("empty-creator-rejected", {"wellformed-file-rejected"}))
    if "unaligned" in cls and quirks[1] == "0":
        cands.append(("lane-unaligned", {"bytes", "length"}))
    if "explicit-gran" in cls and quirks[3] == "0":
        cands.append(("explicit-range-ignores-granularity", {"bytes", "length"}))
    if "overlap" in cls and quirks[2] == "0":
        cands.append(("overlap-missed", {"overlap-not-warned"}))
    expl = set()
    for _, t in cands:
        expl |= t
    if not why <= expl:
        return None
    for name, t in cands:
        if why & t:
            return name
    return None


def load_corpus():
    out = []
    cdir = os.path.join(common.VERIF, "corpus", "C05")
    if os.path.isdir(cdir):
        for f in sorted(os.listdir(cdir)):
            if f.endswith(".json"):
                out.append(case_from_json(json.load(open(os.path.join(cdir, f))), "corpus:" + f))
    return out


def case_to_json(c):
    return dict(tag=c.tag, files=[dict(items=[list(i[:5]) + [i[5].hex(), i[6]] if i[0] == "D" else list(i) for i in items], offset=off, creator=cr.hex()) for items, off, cr in c.files],
                start=c.start, stop=c.stop, range_given=c.range_given, fill=c.fill, lane=c.lane, header=c.header, entry=c.entry, cks=c.cks, filt=c.filt, seg=c.seg)


def case_from_json(d, tag=None):
    files = []
    for f in d["files"]:
        items = [("E", i[1]) if i[0] == "E" else ("D", i[1], i[2], i[3], i[4], bytes.fromhex(i[5]), bool(i[6])) for i in f["items"]]
        files.append((items, f["offset"], bytes.fromhex(f["creator"])))
    c = Case(tag or d.get("tag", "replay"), files, d.get("start"), d.get("stop"), d.get("fill"), d.get("lane"), d.get("header"), d.get("entry"), d.get("cks", False), d.get("filt"), d.get("seg"))
    c.range_given = d.get("range_given", True)
    return c


def evaluate(bdir, wd, cases, quirks, rng):
    import time
    t0 = time.time()
    reqs, reals = [], []
    for c in cases:
        argv = c.argv(rng)
        real = run_real(bdir, wd, c, argv)
        real["argv"] = argv
        reals.append(real)
        reqs.append(request_of(c, quirks, real))
    t1 = time.time()
    answers = common.driver("c05", reqs, timeout=3000)
    log("C05: %d real runs %.1fs, driver %.1fs" % (len(cases), t1 - t0, time.time() - t1))
    kvs = [dict(x.split("=", 1) for x in a.split() if "=" in x) for a in answers]
    return reals, kvs, answers


def run(args):
    res = common.Result("C05", args.tier, args.seed, "proof")
    bdir, audit, proof_problems = common.standard_setup(res, "C05", ["FileFormat", "ToolTables"])
    if bdir is None:
        return res.finish()
    drv_ok = not any(p.startswith("driver does not build") for p in proof_problems)
    rng = common.rng_for(args.seed, "C05")
    n_gen = {"quick": 4000, "thorough": 50000}[args.tier]
    spec_fail, corr_fail, samples = [], [], []
    dist = dict(lane={}, range={}, header={}, nfiles={}, cls={}, spec={}, model={}, sig={}, why={})
    agg = dict(selected_records=0, clipped_records=0, overlap_cases=0, unaligned_cases=0, mixed_gran_cases=0, image_bytes=0,
               checksum_cases=0, filter_cases=0, offset_files=0, short_records=0, big_images=0, entry_records=0)
    distinct = set()
    _limits()
    with common.Workdir("c05") as wd:
        quirks = probe_quirks(bdir, wd)
        cases = load_corpus() + list(WITNESSES) + lane_grid() + overlap_family(rng, 400 if args.tier == "quick" else 6000)
        cases += [gen_case(rng, i, args.tier) for i in range(n_gen)]
        if drv_ok:
            reals, kvs, answers = evaluate(bdir, wd, cases, quirks, rng)
        else:
            reals, kvs, answers = [], [], []
        for c, real, kv, ans in zip(cases, reals, kvs, answers):
            if "model" not in kv:
                proof_problems.append("driver rejected request of %s: %s" % (c.tag, ans[:100]))
                continue
            def bump(d, k):
                d[k] = d.get(k, 0) + 1
            bump(dist["lane"], c.lane or "(default)")
            bump(dist["range"], "default" if not c.range_given else ("%s-%s" % ("auto" if c.start is None else "expl", "auto" if c.stop is None else "expl")))
            bump(dist["header"], str(c.header or 0))
            bump(dist["nfiles"], str(len(c.files)))
            bump(dist["spec"], kv.get("spec", "?"))
            bump(dist["model"], kv["model"])
            for k in kv.get("cls", "-").split(","):
                bump(dist["cls"], k)
            agg["selected_records"] += int(kv.get("nsel", 0))
            agg["clipped_records"] += int(kv.get("clipped", 0))
            agg["overlap_cases"] += int(kv.get("ovl", 0))
            agg["unaligned_cases"] += int(kv.get("unal", 0))
            agg["mixed_gran_cases"] += int(kv.get("mixed", 0))
            agg["image_bytes"] += int(kv.get("len", 0))
            agg["big_images"] += 1 if int(kv.get("len", 0)) > 4096 else 0
            agg["checksum_cases"] += 1 if c.cks else 0
            agg["filter_cases"] += 1 if c.filt else 0
            agg["offset_files"] += sum(1 for f in c.files if f[1])
            agg["short_records"] += sum(1 for f in c.files for i in f[0] if i[0] == "D" and i[6])
            agg["entry_records"] += sum(1 for f in c.files for i in f[0] if i[0] == "E")
            if kv["model"] == "ok" and int(kv.get("nsel", 0)) >= 1:
                distinct.add(hash(ans.split(" mfile=")[0] + " ".join(real["argv"])) ^ hash(tuple(f[0].__repr__() for f in c.files)))
            if len(samples) < 4 and kv["model"] == "ok" and c.tag.startswith("gen:") and int(kv.get("nsel", 0)) >= 2:
                samples.append(dict(case=c.describe(), argv=real["argv"], real_out=(real["out"] or b"").hex()[:200], verdict={k: v for k, v in kv.items() if k != "mfile"}))
            info = dict(tag=c.tag, argv=real["argv"], case=case_to_json(c), describe=c.describe(), real=dict(status=real["status"], out=(real["out"].hex()[:4000] if real["out"] is not None else None), warnings=real["warn"], checksum=real["cks"], stderr=real["stderr"]),
                        driver={k: (v[:4000]) for k, v in kv.items()})
            if kv["model"] == "undef":
                agg["undefined_skipped"] = agg.get("undefined_skipped", 0) + 1
                continue
            if kv.get("spec") == "fail":
                sig = classify(kv, quirks)
                bump(dist["sig"], sig or "NONE")
                for k in kv.get("why", "-").split(","):
                    bump(dist["why"], k)
                spec_fail.append(dict(sig=sig, why="spec clauses failing on the real output: " + kv.get("why", ""), **info))
            else:
                agrees = kv.get("status") == "eq" and kv.get("file") in ("eq", "na") and kv.get("warn") in ("eq", "na") and kv.get("ck") in ("eq", "na")
                if not agrees:
                    corr_fail.append(dict(why="real p2bin differs from Model/P2Bin.lean (spec holds or is silent): status=%s file=%s warn=%s ck=%s" % (kv.get("status"), kv.get("file"), kv.get("warn"), kv.get("ck")), **info))
    res.coverage = common.proof_coverage(audit, "C05", [
        "translate/tables.py (p2bin.c lane table/BufferSize/widths via dumper that #includes p2bin.c; Granularity table, fileformat.h constants)",
        "correspondence: real p2bin vs Model/P2Bin.lean on generated code files (differential test); quirk flags probed on the real binary: " + quirks])
    res.coverage.update(
        evaluations=len(kvs), distinct_nontrivial=len(distinct),
        rule="distinct (code files, command line, verdict) with at least one selected record and a produced image; generator: 1-3 files x 1-8 records (gaps, adjacency, overlaps, 1/2/4 granularity, several families/segments, short+long record form, entry records, (offset) suffix) x -r default/auto/explicit/half-auto hugging record edges x -l x -m (9 lanes) x -S [L|B]1..4 x -e x -s x -f x -segment; plus exhaustive lane x record offset mod 4 x window offset mod 4 x gran 1/2/4 grid (432) and a 3..6-record overlap family",
        exhaustive=False, samples=samples, distribution=dict(agg=agg, **dist), quirks_probed=dict(filterOnCpu=quirks[0], laneExact=quirks[1], overlapExact=quirks[2], maxGranAlways=quirks[3]))
    res.assumptions = ["input code files are well formed (whole non-empty granules, no address wrap); $82-$85 relocation records are not generated",
                       "-s: 'byte sum zero' is read as the sum over the image (the part after the -S header), which is what the tool sums",
                       "stdout texts other than the checksum value, and the 'no data transferred' notice, are not compared",
                       "cases where the C code divides by zero or seeks to -1 (Gran=0, -s with an empty image) are not generated (C03)"]
    return common.conclude(res, proof_problems, spec_fail, corr_fail, len(kvs))


def replay(args):
    d = json.load(open(args.replay))
    print(json.dumps({k: (v if len(str(v)) < 1500 else str(v)[:1500] + "...") for k, v in d.items() if k != "case"}, indent=1))
    if "case" in d:
        bdir = common.repo_build("hooks")
        c = case_from_json(d["case"])
        _limits()
        with common.Workdir("c05r") as wd:
            quirks = probe_quirks(bdir, wd)
            reals, kvs, answers = evaluate(bdir, wd, [c], quirks, None)
            print("argv:", reals[0]["argv"])
            print("real: status=%s out=%s warnings=%s checksum=%s" % (reals[0]["status"], None if reals[0]["out"] is None else reals[0]["out"].hex()[:400], reals[0]["warn"], reals[0]["cks"]))
            print("driver:", answers[0][:1200])
    return 0
