"""C16, part "prefix-style statements and statements that prepare state for the next one".

Two classes of inputs that the corpus sweep of c16.py reaches only by chance:

(1) STATE CARRIED FROM ONE STATEMENT TO THE NEXT.  Some statements act on "the instruction following directly" (Z380 DDIR), on the previous
    one (TMS320C6x `||` parallel instructions, uPD772x sub-operations of an OP word) - a blank line, a comment-only line or a label-only
    line between the two is no instruction ("AS expects exactly one instruction per line (blank lines are naturally allowed as well)",
    "the whole line can consist of comment") and must not take part.
      * Z380 DDIR/JP programs: Lean MODEL of MakeCode_Z80/DecodeDDIR/DecodeJP (Model/PrefixCarry.lean) and SPEC (Spec/PrefixCarry.lean:
        code of a program = code of its statements, Zilog's DDIR opcode table, the manual's merge rule); theorem C16_ddir_carry.
        (B) model bytes = real image, (C) SPEC bytes = real image, on random programs with empty lines of all three sorts.
      * generated texts for five targets (below), spelled plain and with empty lines between all statements.
(2) GAPS INSIDE A PREFIX-STYLE STATEMENT.  `RPTC #5 ADDX.W R4,R7` (MSP430X), `|| [B0] SUB.S2 B8,B9,B7` (TMS320C6x), `OP MOV @A,B` (uPD772x),
    `ALTD LD A,(IY+4)` (Rabbit 2000) and `#define NAME text`: the first parameter carries a further mnemonic, the code generator splits it
    once more at blanks/tabs (asmsub.c FirstBlank and friends).  These gaps separate components of the line ("To separate the individual
    components you may also use tabulators instead of spaces"), so any mixture of blanks and tabs must do - in particular a TAB followed by
    blanks and a blank followed by tabs.  MODEL: Model/Split.lean `resplit` / `preprocess`; theorems C16_firstBlank_first, C16_resplit_gap,
    C16_rpt_gaps, C16_altd_gap, C16_prefix_statement_invariant, C16_define_spelling.
    Every generated text is assembled in its plain spelling (single blanks, statements directly below each other) and in several respellings;
    oracle = the image of the plain spelling (for the Z380 DDIR/JP programs additionally the SPEC's bytes).  Every respelled line is judged
    by the Lean model first (same re-split statement as the plain line), so a disagreement real/plain is a failure of the implementation.
"""
import json
import os
import shutil

from .. import common

SPACES = " \t"
CC = ["nz", "z", "nc", "c", "po", "pe", "p", "m"]

# model kind and SplitLine parameters per family (Model/Split.lean PrefixKind)
FAMILY = {
    "z380": ("plain", "2c/0/2e/3b/z"),
    "msp430x": ("rpt", "2c/1/2e/3b/n"),
    "c6x": ("c6x", "2c/1/2e/3b/n"),
    "upd7720": ("op", "2c/0/2e/3b/n"),
    "rabbit": ("altd", "2c/0/2e/3b/z"),
    "define": ("plain", "2c/0/2e/3b/n"),
}


def hx(s):
    return s.encode("latin-1").hex() or "-"


class St:
    """one statement in structured form: label, words separated by gaps (prefix words + mnemonic), operands separated by commas"""

    def __init__(self, toks, args=(), label=None, mn=(), bars_col1=False, define=False, raw=None):
        self.toks = list(toks)
        self.args = list(args)
        self.label = label
        self.mn = tuple(mn)            # indices of toks that are mnemonics (letter case immaterial)
        self.bars_col1 = bars_col1     # C6x: `||` written in the label column
        self.define = define           # '#define NAME text' / '#undef NAME'
        self.raw = raw                 # header line taken verbatim

    def plain(self):
        if self.raw is not None:
            return self.raw
        if self.define:
            return " ".join(self.toks)
        head = (self.label + ":") if self.label else ""
        toks = self.toks
        if self.bars_col1:
            head = "||"
            toks = toks[1:]
        return head + " " + " ".join(toks) + ((" " + ",".join(self.args)) if self.args else "")

    def spell(self, rng, gap, case=False, comment=False, colon=None, trail=False, comma_gap=False, bars=None):
        if self.raw is not None:
            return self.raw
        toks = list(self.toks)
        if case:
            for i in self.mn:
                toks[i] = recase(rng, toks[i])
        if self.define:
            w = "#" + (recase(rng, toks[0][1:]) if case else toks[0][1:])
            return w + "".join(gap() + t for t in toks[1:]) + (gap() if trail else "")
        head = ""
        if self.label:
            head = self.label + (":" if (colon if colon is not None else True) else "")
        col1 = self.bars_col1 if bars is None else (bars and toks[0] == "||")
        if toks[0] == "||" and col1:
            head = "||"
            toks = toks[1:]
        line = head + "".join(gap() + t for t in toks)
        if self.args:
            line += gap() + "".join((a if i == 0 else "," + (rng.choice(["", gap()]) if comma_gap else "") + a) for i, a in enumerate(self.args))
        if trail:
            line += gap()
        if comment:
            line += rng.choice(["", " ", "\t"]) + ";" + rng.choice(["c16", " note", " a,b", " 'q", ";;", " || [x]", " #define"])
        return line


def recase(rng, s):
    k = rng.randrange(3)
    if k == 0:
        return s.upper()
    if k == 1:
        return s.lower()
    return "".join(c.upper() if rng.random() < 0.5 else c.lower() for c in s)


# ------------------------------------------------------------------------------------------------
# generators: lists of St per family

def hexc(v):
    s = "%xh" % v
    return ("0" + s) if s[0] in "abcdef" else s


def gen_z380(rng):
    out = [St([], raw="\tcpu\tz380"), St([], raw="\textmode\ton")]
    n = rng.randrange(4, 11)
    lab = 0
    for _ in range(n):
        r = rng.random()
        label = None
        if rng.random() < 0.2:
            label = "zl%d" % lab
            lab += 1
        if r < 0.25:
            d = rng.choice([["iw"], ["ib"], ["w"], ["lw"], ["w", "iw"], ["ib", "lw"], ["lw", "iw"]])
            a = rng.choice([rng.randrange(0x10000, 0x1000000), rng.randrange(0x1000000, 0x100000000), rng.randrange(0, 0x10000)])
            out.append(St(["ddir"], d, label, mn=(0,)))
            args = [hexc(a)] if rng.random() < 0.6 else [rng.choice(CC), hexc(a)]
            out.append(St(["jp"], args, mn=(0,)))
        elif r < 0.45:
            out.append(St(["ddir"], ["lw"], label, mn=(0,)))
            v = rng.choice([rng.randrange(0x1000000, 0x100000000), rng.randrange(0x10000, 0x1000000), rng.randrange(0x10000)])
            out.append(St(["ld"], [rng.choice(["hl", "bc", "de", "sp", "ix", "iy"]), hexc(v)], mn=(0,)))
        elif r < 0.6:
            out.append(St(["ddir"], ["lw"], label, mn=(0,)))
            out.append(St(["ldw"], ["(" + rng.choice(["hl", "bc", "de"]) + ")", str(rng.randrange(0x10000, 0x100000000))], mn=(0,)))
        elif r < 0.75:
            out.append(St(["ddir"], [rng.choice(["ib", "iw"])], label, mn=(0,)))
            out.append(St(["ld"], ["a", "(%s+%d)" % (rng.choice(["ix", "iy"]), rng.randrange(200, 30000))], mn=(0,)))
        elif r < 0.85:
            out.append(St(["ddir"], [rng.choice(["w", "lw", "iw"])], label, mn=(0,)))
            out.append(St([rng.choice(["cpl", "nop", "neg"])], mn=(0,)))
        else:
            out.append(rng.choice([St(["nop"], mn=(0,)), St(["ld"], ["a", "b"], mn=(0,)), St(["inc"], ["hl"], mn=(0,)),
                                   St(["jp"], [hexc(rng.randrange(0x10000))], mn=(0,)), St(["ld"], ["hl", hexc(rng.randrange(0x10000))], mn=(0,))]))
            out[-1].label = label
    return out


MSP_X2 = ["addx.w", "addx.b", "addx.a", "subx.w", "xorx.w", "andx.b", "addcx.w", "bisx.w"]
MSP_X1 = ["rrcx", "rrcx.a", "rrax.w", "rlax.w", "rlcx.b", "rlcx", "adcx.w", "swpbx", "sxtx"]


def gen_msp(rng):
    out = [St([], raw="\tcpu\tmsp430x")]
    for _ in range(rng.randrange(4, 11)):
        r = rng.random()
        reg = lambda: "r%d" % rng.randrange(4, 16)
        if r < 0.8:
            rp = rng.choice(["rptc", "rptz"])
            cnt = ("#%d" % rng.randrange(1, 17)) if rng.random() < 0.6 else reg()
            if rng.random() < 0.5:
                out.append(St([rp, cnt, rng.choice(MSP_X2)], [reg(), reg()], mn=(0, 2)))
            else:
                out.append(St([rp, cnt, rng.choice(MSP_X1)], [reg()], mn=(0, 2)))
        else:
            out.append(rng.choice([St(["nop"], mn=(0,)), St(["mov"], [reg(), reg()], mn=(0,)), St(["addx.w"], [reg(), reg()], mn=(0,))]))
    return out


C6_UNITS = {"l": ["add", "sub", "and", "or", "xor"], "s": ["add", "sub", "and", "or"], "m": ["mpy"], "d": ["add", "sub"]}
C6_COND = ["[b0]", "[!b0]", "[b1]", "[!b1]", "[b2]", "[a1]", "[!a1]", "[a2]", "[!a2]"]


def gen_c6x(rng):
    out = [St([], raw="\tcpu\t32060")]
    off = 0      # instruction words so far (a fetch packet is 8 words; an execute packet must not cross it)
    lab = 0
    for _ in range(rng.randrange(3, 8)):
        room = 8 - off % 8
        size = rng.choice([k for k in (1, 2, 2, 3, 4, 5) if k <= room])
        slots = rng.sample([(u, s) for u in "lsmd" for s in "12"], size)
        dst = {"1": rng.sample(range(3, 16), 4), "2": rng.sample(range(3, 16), 4)}
        for i, (u, s) in enumerate(slots):
            rf = "a" if s == "1" else "b"
            mn = "%s.%s%s" % (rng.choice(C6_UNITS[u]), u, s)
            args = ["%s%d" % (rf, rng.randrange(0, 16)), "%s%d" % (rf, rng.randrange(0, 16)), "%s%d" % (rf, dst[s].pop())]
            toks = []
            if i > 0:
                toks.append("||")
            if rng.random() < 0.4:
                toks.append(rng.choice(C6_COND))
            toks.append(mn)
            st = St(toks, args, mn=(len(toks) - 1,), bars_col1=(i > 0 and rng.random() < 0.5))
            if i == 0 and toks[0][0] != "[" and rng.random() < 0.2:
                st.label = "pk%d" % lab
                lab += 1
            out.append(st)
        off += size
    return out


def gen_7720(rng):
    out = [St([], raw="\tcpu\t" + rng.choice(["7720", "7725"]))]
    for _ in range(rng.randrange(3, 8)):
        r = rng.random()
        if r < 0.7:
            out.append(St(["op", "mov"], ["@" + rng.choice(["a", "b", "tr", "dp", "rp", "dr", "sr", "k", "l", "mem"]),
                                          rng.choice(["non", "a", "b", "tr", "dp", "rp", "ro", "sgn", "dr", "sr", "k", "l", "mem"])], mn=(0, 1)))
            subs = []
            if rng.random() < 0.6:
                if rng.random() < 0.6:
                    subs.append(St([rng.choice(["or", "and", "xor", "sub", "add", "sbb", "adc", "cmp"])],
                                   [rng.choice(["acca", "accb"]), rng.choice(["ram", "idb", "m", "n"])], mn=(0,)))
                else:
                    subs.append(St([rng.choice(["inc", "dec", "shr1", "shl1", "shl2", "shl4", "xchg"])], [rng.choice(["acca", "accb"])], mn=(0,)))
            if rng.random() < 0.5:
                subs.append(St([rng.choice(["dpnop", "dpinc", "dpdec", "dpclr"])], mn=(0,)))
            if rng.random() < 0.5:
                subs.append(St(["m%d" % rng.randrange(8)], mn=(0,)))
            if rng.random() < 0.4:
                subs.append(St([rng.choice(["rpnop", "rpdec"])], mn=(0,)))
            if rng.random() < 0.3:
                subs.append(St(["ret"], mn=(0,)))
            rng.shuffle(subs)
            out += subs
        elif r < 0.85:
            # inner mnemonic without operands: written in capitals in the plain spelling (see the recorded finding)
            out.append(St(["op", rng.choice(["NOP", "RET", "DPINC", "M3", "RPDEC"])], mn=(0,)))
        else:
            out.append(rng.choice([St(["jmp"], [hexc(rng.randrange(0x100))], mn=(0,)), St(["ldi"], ["@a", hexc(rng.randrange(0x10000))], mn=(0,))]))
    return out


def gen_rabbit(rng):
    out = [St([], raw="\tcpu\trabbit2000")]
    for _ in range(rng.randrange(4, 10)):
        inst = rng.choice([(["nop"], []), (["inc"], ["iy"]), (["ld"], ["a", "(iy+%d)" % rng.randrange(1, 120)]), (["add"], ["hl", "de"]),
                           (["ld"], ["hl", hexc(rng.randrange(0x10000))]), (["dec"], ["b"]), (["rla"], []), (["inc"], ["hl"])])
        if rng.random() < 0.75:
            out.append(St(["altd"] + inst[0], inst[1], mn=(0, 1)))
        else:
            out.append(St(inst[0], inst[1], mn=(0,)))
    return out


def gen_define(rng):
    out = []
    names = []
    n = rng.randrange(1, 5)
    for i in range(n):
        nm = rng.choice(["LEN", "VAL", "CNT", "K", "TOP", "Q9"]) + ("%d" % i)
        txt = rng.choice(["%d" % rng.randrange(256), "%d+%d" % (rng.randrange(100), rng.randrange(100)), "(%d*2)" % rng.randrange(100),
                          "%d + %d" % (rng.randrange(100), rng.randrange(100)), "$%02x" % rng.randrange(256)])
        names.append(nm)
        out.append(St(["#define", nm, txt], define=True))
        if rng.random() < 0.25:
            out.append(St(["#undef", nm], define=True))
            out.append(St(["#define", nm, "%d" % rng.randrange(256)], define=True))
    body = [St([], raw="\tcpu\t6502")]
    for nm in names:
        body.append(St([rng.choice(["lda", "ldx", "ldy", "adc", "cmp"])], ["#" + nm], mn=(0,)))
    if rng.random() < 0.5:
        out = out[:1] + [body[0]] + out[1:] + body[1:]
    else:
        out = out + body
    return out


GEN = {"z380": gen_z380, "msp430x": gen_msp, "c6x": gen_c6x, "upd7720": gen_7720, "rabbit": gen_rabbit, "define": gen_define}

EMPTY = ["", "   ", "\t", "; c16 comment", "\t; indented comment", " \t;"]


def empties(rng, counter, with_labels, define_ok=True):
    """one to three lines without an instruction"""
    out = []
    for _ in range(rng.choice([1, 1, 2, 3])):
        r = rng.random()
        if with_labels and r < 0.3:
            counter[0] += 1
            out.append(rng.choice(["c16e%d:", "c16e%d", "  c16e%d:", "c16e%d:\t; label only"]) % counter[0])
        else:
            out.append(rng.choice(EMPTY))
    return out


def variants(rng, fam, sts):
    """[(tag, [lines], [(plain line, respelled line)] for the model gate)]"""
    plain = [s.plain() for s in sts]
    out = [("plain", plain, [])]

    def tabfirst():
        return "\t" + " " * rng.choice([0, 1, 1, 2])

    def blankfirst():
        return " " + "\t" * rng.choice([0, 1, 1, 2])

    def anygap():
        return "".join(rng.choice(" \t") for _ in range(rng.choice([1, 1, 2, 3, 5])))

    # empty lines between all statements (label-only lines included, not on the #define texts' preprocessor part)
    cnt = [0]
    lines = []
    for i, s in enumerate(sts):
        lines.append(plain[i])
        if i + 1 < len(sts):
            lines += empties(rng, cnt, with_labels=(fam != "define"))
    out.append(("empty-lines", lines, []))
    for tag, g in (("tab-first", tabfirst), ("blank-first", blankfirst)):
        v = [s.spell(rng, g) for s in sts]
        out.append((tag, v, [(p, q, s) for p, q, s in zip(plain, v, sts) if p != q]))
    v = [s.spell(rng, anygap, case=True, comment=(not s.define and rng.random() < 0.4), colon=rng.random() < 0.5, trail=rng.random() < 0.3,
                 comma_gap=(not s.define and rng.random() < 0.4), bars=rng.random() < 0.5) for s in sts]
    out.append(("mixed", v, [(p, q, s) for p, q, s in zip(plain, v, sts) if p != q]))
    cnt = [1000]
    lines = []
    v2 = [s.spell(rng, rng.choice([tabfirst, blankfirst, anygap]), case=rng.random() < 0.5, comment=(not s.define and rng.random() < 0.3),
                  bars=rng.random() < 0.5) for s in sts]
    for i, s in enumerate(sts):
        lines.append(v2[i])
        if i + 1 < len(sts) and rng.random() < 0.7:
            lines += empties(rng, cnt, with_labels=(fam != "define"))
    out.append(("mixed+empty-lines", lines, [(p, q, s) for p, q, s in zip(plain, v2, sts) if p != q]))
    return out


def known_variant_7720(sts):
    """the recorded finding as its own variant: the operand-less inner mnemonic of an OP statement in small letters"""
    if not any(len(s.toks) == 2 and s.toks[0] == "op" and not s.args and s.raw is None for s in sts):
        return None
    return [(" op " + s.toks[1].lower()) if (s.raw is None and len(s.toks) == 2 and s.toks[0] == "op" and not s.args) else s.plain() for s in sts]


# ------------------------------------------------------------------------------------------------
# Z380 DDIR/JP programs for model + spec

def gen_carry(rng):
    """[(request token, source line)]"""
    prog = []
    lab = [0]
    n = rng.randrange(3, 12)
    for _ in range(n):
        r = rng.random()
        if r < 0.4:
            mods = rng.choice([["W"], ["LW"], ["IB"], ["IW"], ["IB", "W"], ["W", "IB"], ["IW", "W"], ["IB", "LW"], ["LW", "IB"], ["IW", "LW"], ["LW", "IW"]])
            prog.append(("d:" + "+".join(mods), "\t%s\t%s" % (rng.choice(["ddir", "DDIR", "Ddir"]), ",".join(rng.choice([m, m.lower()]) for m in mods))))
            if rng.random() < 0.6:
                for _ in range(rng.choice([1, 1, 2, 3])):
                    prog.append(empty_line(rng, lab))
        elif r < 0.8:
            a = rng.choice([rng.randrange(0x10000), rng.randrange(0x10000, 0x1000000), rng.randrange(0x1000000, 0x100000000),
                            rng.choice([0xffff, 0x10000, 0xffffff, 0x1000000, 0xffffffff, 0])])
            if rng.random() < 0.4:
                c = rng.randrange(8)
                prog.append(("j:%d:%x" % (c, a), "\tjp\t%s,%s" % (rng.choice([CC[c], CC[c].upper()]), hexc(a))))
            else:
                prog.append(("j:-:%x" % a, "\t%s\t%s" % (rng.choice(["jp", "JP"]), hexc(a))))
        else:
            prog.append(empty_line(rng, lab))
    return prog


def empty_line(rng, lab):
    r = rng.random()
    if r < 0.3:
        lab[0] += 1
        return ("e", rng.choice(["cl%d:", "cl%d", " cl%d:", "cl%d:\t; only a label"]) % lab[0])
    return ("e", rng.choice(EMPTY))


# ------------------------------------------------------------------------------------------------

def run_part(c16, args, bdir, wd, drv_ok):
    """c16 = the c16 module (build_image); returns dict(spec_fail, corr_fail, problems, dist, samples, evaluations, distinct)"""
    spec_fail, corr_fail, problems, samples = [], [], [], []
    dist = dict(carry_programs=0, carry_empty_lines=0, carry_ddir_then_empty_then_jp=0, prefix_texts=0, prefix_runs=0, plain_rejected=0,
                gate_lines=0, gate_rejected=0, by_family={}, by_variant={}, known_7720_variant_runs=0)
    distinct = set()
    evaluations = 0
    d = os.path.join(wd, "c16prefix")

    def image(files):
        shutil.rmtree(d, ignore_errors=True)
        os.makedirs(d)
        for fn, t in files.items():
            open(os.path.join(d, fn), "wb").write(t.encode("latin-1"))
        return c16.build_image(bdir, d, "w", "", [d])

    # ---- (1) Z380 DDIR/JP programs: model, spec, real
    ncarry = 60 if args.tier == "quick" else 1500
    progs = []
    for k in range(ncarry):
        rng = common.rng_for(args.seed, "C16/carry/%d" % k)
        progs.append(gen_carry(rng))
    ans = common.driver("c16carry", [" ".join(t for t, _ in p) for p in progs]) if drv_ok else [None] * len(progs)
    for k, (p, a) in enumerate(zip(progs, ans)):
        rng = common.rng_for(args.seed, "C16/carry-eol/%d" % k)
        e = rng.choice(["\n", "\r\n"])
        src = "\tcpu\tz380" + e + "\textmode\ton" + e + "".join(l + e for _, l in p)
        img, diag = image({"w.asm": src})
        evaluations += 1
        dist["carry_programs"] += 1
        dist["carry_empty_lines"] += sum(1 for t, _ in p if t == "e")
        toks = [t for t, _ in p]
        for i in range(len(toks) - 2):
            if toks[i][0] == "d" and toks[i + 1] == "e":
                nxt = [x for x in toks[i + 1:] if x != "e"]
                if nxt and nxt[0][0] == "j":
                    dist["carry_ddir_then_empty_then_jp"] += 1
        distinct.add(hash(src))
        if a is None:
            continue
        kv = dict(x.split("=", 1) for x in a.split())
        spec = b"" if kv["spec"] == "-" else bytes.fromhex(kv["spec"])
        model = None if kv["model"] == "err" else (b"" if kv["model"] == "-" else bytes.fromhex(kv["model"]))
        if kv.get("ok") != "1" or kv.get("eq") != "1":
            problems.append("c16carry: model and SPEC disagree on a generated program (theorem C16_ddir_carry instance false): %s -> %s" % (" ".join(toks), a))
        real = img
        if real is None and not spec and "asl rc" not in diag:
            real = b""      # a program without code: p2bin has nothing to convert
        if real != spec:
            spec_fail.append(dict(tag="carry/%d" % k, test="generated", flags="", whole="ddir-carry",
                                  why="Z380 DDIR/JP program with lines without an instruction: image differs from the code of its statements (Spec/PrefixCarry): "
                                      "expected %s got %s %s" % (spec.hex(), (real or b"").hex() if real is not None else "no image", diag[:300]),
                                  program=toks, expect=spec.hex(), files={"w.asm": src}, incdir="."))
        if model is not None and real != model:
            corr_fail.append(dict(tag="carry/%d" % k, why="Model/PrefixCarry.lean and the real assembler disagree", program=toks,
                                  model=model.hex(), real=(real or b"").hex() if real is not None else None, source=src))
        if k == 0:
            samples.append(dict(kind="ddir-carry", program=toks, source=src, image=(real or b"").hex() if real is not None else None))

    # ---- (2) prefix texts, plain vs respelled: hand-written regression texts with bytes taken from the golden images first, then generated ones
    ntext = 5 if args.tier == "quick" else 80
    regress = load_regress()
    dist["regression_texts"] = len(regress)
    work = [(r["family"], "r:" + r["name"], r) for r in regress] + [(fam, ti, None) for fam in GEN for ti in range(ntext)]
    for fam, ti, reg in work:
        kind, pspec = FAMILY[fam]
        dist["by_family"].setdefault(fam, 0)
        for _once in (0,):
            rng = common.rng_for(args.seed, "C16/prefix/%s/%s" % (fam, ti))
            sts = reg["sts"] if reg else GEN[fam](rng)
            vs = variants(rng, fam, sts)
            e = "\n"
            img0, diag0 = image({"w.asm": "".join(l + e for l in vs[0][1])})
            evaluations += 1
            if reg and img0 != bytes.fromhex(reg["expect"]):
                spec_fail.append(dict(tag="prefix/%s/plain" % ti, test="generated", flags="", whole="plain", family=fam, sig="prefix-regression-text-plain-spelling-wrong",
                                      why="plain spelling of a regression text (%s) does not give the recorded bytes %s: %s %s"
                                          % (reg["source"], reg["expect"], (img0 or b"").hex(), diag0[:200]),
                                      expect=reg["expect"], files={"w.asm": "".join(l + e for l in vs[0][1])}, incdir="."))
                continue
            if img0 is None:
                dist["plain_rejected"] += 1
                if len([x for x in samples if x.get("kind") == "plain-rejected"]) < 3:
                    samples.append(dict(kind="plain-rejected", family=fam, text=vs[0][1], diag=diag0[:300]))
                continue
            dist["prefix_texts"] += 1
            dist["by_family"][fam] += 1
            if ti == 0 or ti == "r:c6x-parallel-cond":
                samples.append(dict(kind="prefix-text", family=fam, plain=vs[0][1], respelled=vs[4][1], image=img0.hex()))
            for tag, lines, gate in vs[1:]:
                # model gate: every respelled line must be the same (re-split) statement as the plain line
                if gate and drv_ok:
                    defs = [(p, q) for p, q, s in gate if s.define]
                    oth = [(p, q) for p, q, s in gate if not s.define]
                    bad = []
                    if oth:
                        r = common.driver("c16px", ["%s %s %s %s" % (pspec, kind, hx(p), hx(q)) for p, q in oth])
                        bad += [(p, q, a) for (p, q), a in zip(oth, r) if "eq=1" not in a or "ok=1" not in a]
                    if defs:
                        r = common.driver("c16def", [hx(p) for p, _ in defs] + [hx(q) for _, q in defs])
                        bad += [(p, q, r[i] + " / " + r[i + len(defs)]) for i, (p, q) in enumerate(defs) if r[i] != r[i + len(defs)] or not r[i].startswith("def=1")]
                    dist["gate_lines"] += len(gate)
                    if bad:
                        dist["gate_rejected"] += len(bad)
                        for p, q, a in bad[:2]:
                            problems.append("c16_prefix: the model does not take a respelled generated line for the same statement (generator or model wrong): %r -> %r: %s" % (p, q, a))
                        continue
                eol = "\r\n" if tag.startswith("mixed") and rng.random() < 0.5 else "\n"
                files = {"w.asm": "".join(l + eol for l in lines)}
                img, diag = image(files)
                evaluations += 1
                dist["prefix_runs"] += 1
                dist["by_variant"][tag] = dist["by_variant"].get(tag, 0) + 1
                distinct.add(hash(files["w.asm"]))
                if img != img0:
                    culprit = culprit_lines(image, vs[0][1], lines, img0) if len(lines) == len(vs[0][1]) else culprit_inserted(image, vs[0][1], lines, img0)
                    spec_fail.append(dict(tag="prefix/%s/%s/%s" % (fam, ti, tag), test="generated", flags="", whole=tag, family=fam,
                                          why="the %s spelling of a generated %s text gives another image than its plain spelling%s: plain %s, respelled %s"
                                              % (tag, fam, (" (" + diag[:300] + ")") if diag else "", img0.hex()[:200], (img or b"").hex()[:200]),
                                          plain=vs[0][1], minimised=culprit, files=files, incdir="."))
            if fam == "upd7720":
                kv_ = known_variant_7720(sts)
                if kv_ is not None:
                    img, diag = image({"w.asm": "".join(l + "\n" for l in kv_)})
                    evaluations += 1
                    dist["known_7720_variant_runs"] += 1
                    if img != img0:
                        spec_fail.append(dict(tag="prefix/%s/%s/op-operandless-lowercase" % (fam, ti), test="generated", flags="", whole="case", family=fam,
                                              sig="upd772x-op-operandless-inner-mnemonic-case-sensitive",
                                              why="uPD772x: 'op nop' (inner mnemonic without operands in small letters) is rejected / differs, 'op NOP' is accepted: " + diag[:300],
                                              plain=vs[0][1], files={"w.asm": "".join(l + "\n" for l in kv_)}, incdir="."))
    shutil.rmtree(d, ignore_errors=True)
    return dict(spec_fail=spec_fail, corr_fail=corr_fail, problems=problems, dist=dist, samples=samples, evaluations=evaluations, distinct=distinct)


def load_regress():
    f = os.path.join(common.VERIF, "corpus", "C16", "prefix_regress.json")
    if not os.path.exists(f):
        return []
    out = []
    for r in json.load(open(f)):
        r["sts"] = [St(x.get("toks", []), x.get("args", []), x.get("label"), mn=x.get("mn", ()), bars_col1=x.get("bars_col1", False),
                       define=x.get("define", False), raw=x.get("raw")) for x in r["statements"]]
        out.append(r)
    return out


def culprit_lines(image, plain, lines, img0):
    """same number of lines: the first respelled line that alone changes the image"""
    for i in range(len(plain)):
        if plain[i] == lines[i]:
            continue
        t = plain[:i] + [lines[i]] + plain[i + 1:]
        img, diag = image({"w.asm": "".join(l + "\n" for l in t)})
        if img != img0:
            return dict(line=i + 1, plain=plain[i], respelled=lines[i], diag=diag[:200])
    return None


def culprit_inserted(image, plain, lines, img0):
    """lines were inserted: the first inserted line (into the otherwise plain text) that alone changes the image"""
    # align: the statement lines appear in order
    pos = []
    j = 0
    for i, l in enumerate(lines):
        if j < len(plain) and l.split(";")[0].split() == plain[j].split(";")[0].split() and l.strip():
            pos.append(i)
            j += 1
    if j != len(plain):
        return None
    k = 0
    for i, l in enumerate(lines):
        if k < len(pos) and i == pos[k]:
            k += 1
            continue
        t = plain[:k] + [l] + plain[k:]
        img, diag = image({"w.asm": "".join(x + "\n" for x in t)})
        if img != img0:
            return dict(inserted=l, after=plain[k - 1] if k else None, before=plain[k] if k < len(plain) else None, diag=diag[:200])
    return None
