"""C11, processor layer (input-tag machine of as.c): correspondence part, called from c11.run.

(A) Props/C11_Tags.lean (C11_tags_refine & co) is audited together with Props/C11.lean by common.lean_audit("C11").
(B) the tag machine of Model/Tags.lean (driver mode `c11tag`, quirk flags probed on the real binary) vs the real asl:
    * tree stream: the construct programs of c11.py's generator (MACRO positional/keyword/default/excess, REPT 0..40,
      IRP, IRPN 1..4 ragged, IRPC, EXITM at several depths, nesting <= 3): the sequence of plain lines the model delivers
      vs the real -P output, line by line; the same sequence vs the SPEC's expansion (`c11exp`), i.e. the instance
      of C11_tags_refine on that program;
    * flat stream: generated sources whose plain lines are comment lines (free text): SHIFT (also inside REPT inside a
      macro, with ARGCOUNT/ALLARGS recomputed), EXITM in macro/REPT/IRPC bodies, parameters used in the headers of
      nested IRP/IRPN, keyword/default/excess arguments, nested and chained macro calls, macros defined inside
      a repetition; compared byte for byte in case-sensitive mode (-U), upper-cased otherwise;
    * quirk programs: the five behaviours the model takes from a probe of the real binary (IRPC "" iterates once,
      EXITM in IRP crashes, ARGCOUNT = written arguments, SHIFT leaves the last token, ALLARGS after SHIFT skips empty
      arguments) are replayed through the model
      with the probed flags.
(C) for the flat stream's SHIFT cases a hand expansion by the manual's rule (arguments move up, missing ones are
    empty) is compared with the real -P output where the rule is unambiguous; a difference is the known finding
    shift-leaves-last-parameter-token.
"""
import re
import time

from .. import common


def hx(b):
    if isinstance(b, str):
        b = b.encode("latin-1")
    return b.hex() if b else "-"


def unhx(s):
    return b"" if s == "-" else bytes.fromhex(s)


# --------------------------------------------------------------------------
# quirk probes (self-calibration of the model's three flags)

def probe_quirks(asl, bdir, wd):
    """returns (flags string for the driver, dict)"""
    rc, msg, p, i = asl(bdir, wd, "q1", " cpu z80\n org 0\n irpc c,\"\"\n;Q<c>\n endm\n", want_i=True)
    irpc_once = bool(i) and b";Q<>" in i
    rc, msg, p, i = asl(bdir, wd, "q2", " cpu z80\n org 0\n irp t,1,2\n;Q<t>\n exitm\n;R\n endm\n", want_i=True)
    exitm_crash = isinstance(rc, int) and rc < 0
    rc, msg, p, i = asl(bdir, wd, "q3", " cpu z80\n org 0\nqa macro a,b,c\n;Q<ARGCOUNT>\n endm\n qa 1\n", want_i=True)
    argc_written = bool(i) and b";Q<1>" in i
    rc, msg, p, i = asl(bdir, wd, "q4", " cpu z80\n org 0\nqs macro a,b\n shift\n;Q<a|b>\n endm\n qs 1,2\n", want_i=True)
    shift_leaves = not (bool(i) and b";Q<2|>" in i)
    rc, msg, p, i = asl(bdir, wd, "q5", " cpu z80\n org 0\nqj macro a,b,c\n shift\n;Q<ALLARGS>\n endm\n qj 1,,3\n", want_i=True)
    skips_empty = bool(i) and b";Q<3>" in i
    d = dict(irpcEmptyOnce=irpc_once, exitmIrpCrash=exitm_crash, argCountWritten=argc_written, shiftLeavesToken=shift_leaves,
             allArgsSkipsEmpty=skips_empty)
    return "".join("1" if d[k] else "0" for k in ("irpcEmptyOnce", "exitmIrpCrash", "argCountWritten", "shiftLeavesToken",
                                                   "allArgsSkipsEmpty")), d


# --------------------------------------------------------------------------
# tree stream helpers

def tree_request(enc, flags):
    w = enc.split(" ", 1)
    return "T %s %s %s" % (w[0], flags, w[1] if len(w) > 1 else "")


def parse_answer(ans):
    if not ans.startswith("ok "):
        return None
    f = ans.split()
    kv = dict(x.split("=", 1) for x in f[1:4])
    return dict(crashed=kv.get("crashed") == "1", stack=int(kv.get("stack", "-1")), coll=kv.get("coll") == "1",
                lines=[unhx(x) for x in f[4:]])


# --------------------------------------------------------------------------
# flat stream: generator

WORDS = ["x", "y", "zz", "7", "42", "k9", "A1", "q", "lo", "HI", "r2"]


class Flat:
    def __init__(self, rng, cs):
        self.rng = rng
        self.cs = cs
        self.nid = 0
        self.macros = {}      # id -> (params, defaults, uses_params_in_headers)
        self.stats = dict(shift=0, shift_in_rept=0, exitm=0, call=0, nested_call=0, keyword=0, default=0, excess=0, irp=0, irpn=0,
                          irpc=0, rept=0, ragged=0, param_in_header=0, argcount=0, allargs=0, def_in_body=0, maxdepth=0, lines=0)

    def fresh(self):
        self.nid += 1
        return self.nid

    def text(self, names):
        rng = self.rng
        parts = []
        for _ in range(rng.randrange(1, 5)):
            r = rng.random()
            if names and r < 0.55:
                n = rng.choice(names)
                if not self.cs and rng.random() < 0.3:
                    n = n.upper()
                parts.append(rng.choice(["<%s>", "%s", "%s+1", "x%s", "%s_", "(%s)"]) % n)
            else:
                parts.append(rng.choice(WORDS))
        self.stats["lines"] += 1
        return ";" + rng.choice(["", " "]) + rng.choice([" ", ",", "|"]).join(parts)

    def value(self):
        return self.rng.choice(WORDS)

    def body(self, names, depth, in_macro, allow_exit, allow_shift):
        """list of nodes"""
        rng = self.rng
        self.stats["maxdepth"] = max(self.stats["maxdepth"], depth)
        out = []
        for _ in range(rng.randrange(1, 5)):
            r = rng.random()
            if r < 0.45 or depth >= 3:
                nm = list(names)
                if in_macro and rng.random() < 0.25:
                    extra = rng.choice(["ARGCOUNT", "ALLARGS"])
                    self.stats["argcount" if extra == "ARGCOUNT" else "allargs"] += 1
                    nm = nm + [extra]
                out.append(("P", self.text(nm)))
            elif r < 0.55 and allow_shift and in_macro:
                out.append(("S",))
                self.stats["shift"] += 1
                if depth > 1:
                    self.stats["shift_in_rept"] += 1
            elif r < 0.62 and allow_exit:
                out.append(("X",))
                self.stats["exitm"] += 1
                out.append(("P", self.text(names)))
            elif r < 0.72 and self.macros and depth < 3:
                mid = rng.choice(sorted(self.macros))
                out.append(self.call(mid, names))
                self.stats["nested_call"] += 1
            else:
                out.append(self.construct(names, depth + 1, in_macro))
        return out

    def hdr_arg(self, names):
        if names and self.rng.random() < 0.35:
            self.stats["param_in_header"] += 1
            return self.rng.choice(names)
        return self.value()

    def construct(self, names, depth, in_macro):
        rng = self.rng
        kind = rng.choice("RRIINC")
        cid = self.fresh()
        if kind == "R":
            n = rng.choice([0, 1, 2, 2, 3, 5]) if depth > 1 else rng.choice([0, 1, 2, 3, 7, 40])
            self.stats["rept"] += 1
            return ("R", n, self.body(names, depth, in_macro, True, True))
        if kind == "I":
            v = "v%d" % cid
            args = [self.hdr_arg(names) for _ in range(rng.choice([1, 2, 3, 5]))]
            self.stats["irp"] += 1
            return ("I", v, args, self.body(names + [v], depth, in_macro, False, True))
        if kind == "N":
            k = rng.choice([1, 2, 2, 3, 4])
            vs = ["w%d%s" % (cid, "abcd"[j]) for j in range(k)]
            na = rng.randrange(k, 3 * k + 2)
            args = [self.hdr_arg(names) for _ in range(na)]
            self.stats["irpn"] += 1
            self.stats["ragged"] += int(na % k != 0)
            return ("N", k, vs, args, self.body(names + vs, depth, in_macro, False, True))
        v = "c%d" % cid
        chars = "".join(rng.choice("XYZ019ab") for _ in range(rng.randrange(1, 5)))
        self.stats["irpc"] += 1
        return ("C", v, chars, self.body(names + [v], depth, in_macro, True, True))

    def call(self, mid, names):
        rng = self.rng
        params, defaults, strict = self.macros[mid]
        np_ = len(params)
        args = []
        npos = np_ if (strict or rng.random() < 0.6) else rng.randrange(0, np_ + 1)
        for j in range(npos):
            if not strict and rng.random() < 0.12:
                args.append((None, ""))
                self.stats["default"] += 1
            else:
                args.append((None, rng.choice(names) if names and rng.random() < 0.3 else self.value()))
        if npos == np_ and rng.random() < 0.3:
            for _ in range(rng.randrange(1, 4)):
                args.append((None, self.value()))
                self.stats["excess"] += 1
        elif npos < np_:
            rest = list(range(npos, np_))
            rng.shuffle(rest)
            for j in rest[:rng.randrange(0, len(rest) + 1)]:
                k = params[j]
                if not self.cs and rng.random() < 0.3:
                    k = k.upper()
                args.append((k, self.value()))
                self.stats["keyword"] += 1
        while args and args[-1] == (None, ""):
            args.pop()          # a trailing empty argument changes ArgCnt in the real parser
        if len(args) == 1 and args[0][0] is None and args[0][1] in names:
            # a single argument that may become empty by substitution: for the real parser a line with an empty
            # argument part has NO argument (ArgCnt = 0, visible through ARGCOUNT) - outside the model
            args[0] = (None, self.value())
        self.stats["call"] += 1
        return ("M", mid, args)

    def macro(self):
        rng = self.rng
        mid = self.fresh()
        np_ = rng.choice([0, 1, 2, 2, 3, 4])
        params = ["p%d%s" % (mid, "abcd"[j]) for j in range(np_)]
        defaults = [(self.value() if rng.random() < 0.3 else "") for _ in range(np_)]
        before = self.stats["param_in_header"]
        body = self.body(params, 1, True, True, True)
        strict = self.stats["param_in_header"] > before     # parameters in IRP/IRPN headers: never bind them to empty text
        if strict:
            defaults = [d or "dflt" for d in defaults]
        node = ("D", mid, params, defaults, body)
        self.macros[mid] = (params, defaults, strict)
        return node


def flatten_nodes(nodes, out):
    for nd in nodes:
        k = nd[0]
        if k in ("P", "S", "X", "M"):
            out.append(nd)
        elif k == "D":
            out.append(("D", nd[1], nd[2], nd[3]))
            flatten_nodes(nd[4], out)
            out.append(("E",))
        elif k == "R":
            out.append(("R", nd[1]))
            flatten_nodes(nd[2], out)
            out.append(("E",))
        elif k == "I":
            out.append(("I", nd[1], nd[2]))
            flatten_nodes(nd[3], out)
            out.append(("E",))
        elif k == "N":
            out.append(("N", nd[1], nd[2] + nd[3]))
            flatten_nodes(nd[4], out)
            out.append(("E",))
        elif k == "C":
            out.append(("C", nd[1], nd[2]))
            flatten_nodes(nd[3], out)
            out.append(("E",))


def render_flat(lines):
    out = []
    for nd in lines:
        k = nd[0]
        if k == "P":
            out.append(nd[1])
        elif k == "S":
            out.append(" shift")
        elif k == "X":
            out.append(" exitm")
        elif k == "E":
            out.append(" endm")
        elif k == "D":
            out.append("mac%d macro %s" % (nd[1], ",".join(("%s=%s" % (p, d)) if d else p for p, d in zip(nd[2], nd[3]))))
        elif k == "R":
            out.append(" rept %d" % nd[1])
        elif k == "I":
            out.append(" irp %s,%s" % (nd[1], ",".join(nd[2])))
        elif k == "N":
            out.append(" irpn %d,%s" % (nd[1], ",".join(nd[2])))
        elif k == "C":
            out.append(" irpc %s,\"%s\"" % (nd[1], nd[2]))
        elif k == "M":
            out.append(" mac%d %s" % (nd[1], ",".join((("%s=%s" % (kk, v)) if kk is not None else v) for kk, v in nd[2])))
    return "\n".join(out) + "\n"


def encode_flat(lines):
    out = []
    for nd in lines:
        k = nd[0]
        if k == "P":
            out += ["P", hx(nd[1])]
        elif k in ("S", "X", "E"):
            out.append(k)
        elif k == "D":
            out += ["D", str(nd[1]), str(len(nd[2]))]
            for p, d in zip(nd[2], nd[3]):
                out += [hx(p), hx(d)]
        elif k == "R":
            out += ["R", str(nd[1])]
        elif k == "I":
            out += ["I", hx(nd[1]), str(len(nd[2]))] + [hx(x) for x in nd[2]]
        elif k == "N":
            out += ["N", str(nd[1]), str(len(nd[2]))] + [hx(x) for x in nd[2]]
        elif k == "C":
            out += ["C", hx(nd[1]), hx(nd[2])]
        elif k == "M":
            out += ["M", str(nd[1]), str(len(nd[2]))]
            for kk, v in nd[2]:
                out += ["~" if kk is None else hx(kk), hx(v)]
    return " ".join(out)


def gen_flat(rng, cs):
    g = Flat(rng, cs)
    top = []
    for _ in range(rng.randrange(1, 4)):
        top.append(g.macro())
    for _ in range(rng.randrange(1, 5)):
        r = rng.random()
        if r < 0.6:
            top.append(g.call(rng.choice(sorted(g.macros)), []))
        elif r < 0.7:
            top.append(("P", g.text([])))
        elif r < 0.78:
            # a macro defined inside a repetition that runs once, then called
            m = g.macro()
            top.append(("R", 1, [m]))
            top.append(g.call(m[1], []))
            g.stats["def_in_body"] += 1
        else:
            top.append(g.construct([], 1, False))
    lines = []
    flatten_nodes(top, lines)
    lines.append(("P", ";END"))
    return lines, g.stats


def comment_lines(data):
    return [ln.rstrip(b"\r") for ln in data.split(b"\n") if ln.startswith(b";")]


# --------------------------------------------------------------------------
# SHIFT: hand expansion by the manual for the simple shape (a macro body of comment lines and SHIFTs)

def shift_case(rng, cs):
    np_ = rng.choice([1, 2, 3, 4])
    params = ["s%s" % "abcd"[j] for j in range(np_)]
    nargs = rng.randrange(0, np_ + 3)
    args = [rng.choice(WORDS) for _ in range(nargs)]
    body = []
    for _ in range(rng.randrange(2, 6)):
        if rng.random() < 0.4:
            body.append(None)        # shift
        else:
            body.append(rng.sample(params, rng.randrange(1, np_ + 1)))
    return params, args, body


def shift_source(params, args, body):
    src = ["smac macro " + ",".join(params)]
    for b in body:
        src.append(" shift" if b is None else ";S " + " ".join("<%s>" % p for p in b))
    src += [" endm", " smac " + ",".join(args)]
    return "\n".join(src) + "\n"


def shift_hand(params, args, body, cs):
    """the manual: SHIFT discards the first argument, the others move up; missing arguments are empty strings"""
    cur = list(args if cs else [a.upper() for a in args])
    out = []
    for b in body:
        if b is None:
            cur = cur[1:]
        else:
            vals = {p: (cur[i] if i < len(cur) else "") for i, p in enumerate(params)}
            out.append((";S " + " ".join("<%s>" % vals[p] for p in b)).encode("latin-1"))
    return out


def shift_flat(params, args, body):
    lines = [("D", 1, params, [""] * len(params))]
    for b in body:
        lines.append(("S",) if b is None else ("P", ";S " + " ".join("<%s>" % p for p in b)))
    lines += [("E",), ("M", 1, [(None, a) for a in args])]
    return lines


def renumber(src):
    return src.replace("smac", "mac1")


# --------------------------------------------------------------------------

def run_streams(args, asl, bdir, wd, drv_ok, flags, dist, spec_fail, corr_fail, proof_problems, samples):
    """flat stream + SHIFT stream + quirk programs; returns (evaluations, distinct set)"""
    evaluations = 0
    distinct = set()
    t0 = time.time()
    if not drv_ok:
        return evaluations, distinct
    nflat = {"quick": 260, "thorough": 6000}[args.tier]
    nshift = {"quick": 120, "thorough": 2500}[args.tier]
    agg = {}
    d = dict(flat_programs=0, flat_lines_compared=0, flat_exact=0, shift_cases=0, shift_manual_agrees=0, shift_manual_differs=0,
             quirk_programs=0)
    # ---------------- flat stream
    rng = common.rng_for(args.seed, "C11/tags/flat")
    progs = []
    for k in range(nflat):
        cs = (k % 2 == 0)
        lines, st = gen_flat(rng, cs)
        progs.append((lines, st, cs))
    answers = common.driver("c11tag", ["F %d %s %s" % (int(cs), flags, encode_flat(lines)) for lines, st, cs in progs], timeout=1800)
    for k, ((lines, st, cs), ans) in enumerate(zip(progs, answers)):
        a = parse_answer(ans)
        src = " cpu z80\n org 0\n" + render_flat(lines)
        if a is None:
            proof_problems.append("driver c11tag: %s on flat program %d" % (ans[:60], k))
            continue
        rc, msg, p, i = asl(bdir, wd, "f%d" % k, src, flags=(["-U"] if cs else []), want_i=True)
        evaluations += 1
        d["flat_programs"] += 1
        distinct.add(encode_flat(lines))
        for kk, v in st.items():
            agg[kk] = max(agg.get(kk, 0), v) if kk == "maxdepth" else agg.get(kk, 0) + v
        info = dict(tag="tags flat %d" % k, source=src, asflags="-U" if cs else "")
        if rc != 0 or i is None:
            info["why"] = "generated flat program rejected by asl (generator problem or crash): rc=%s %s; model: crashed=%s" % (rc, msg[-300:], a["crashed"])
            if a["crashed"] and isinstance(rc, int) and rc < 0:
                continue
            corr_fail.append(info)
            continue
        real = comment_lines(i)
        model = [x for x in a["lines"]]
        if not cs:
            real = [x.upper() for x in real]
            model = [x.upper() for x in model]
        else:
            d["flat_exact"] += 1
        d["flat_lines_compared"] += len(real)
        if a["crashed"] or a["stack"] != 0 or a["coll"] or model != real:
            j = [t for t in range(min(len(model), len(real))) if model[t] != real[t]][:1]
            info["why"] = "tag machine model and asl -P output differ (crashed=%s stack=%s coll=%s)" % (a["crashed"], a["stack"], a["coll"])
            info["first_diff"] = repr((model[j[0]], real[j[0]])) if j else "lengths %d/%d" % (len(model), len(real))
            corr_fail.append(info)
        elif len(samples) < 8 and st["shift"] and st["maxdepth"] >= 2 and len(real) > 5:
            samples.append(dict(kind="tags-flat", source=src[:700], delivered_lines=len(real)))
    d["flat_constructs"] = agg
    # ---------------- SHIFT against the manual's rule
    rng = common.rng_for(args.seed, "C11/tags/shift")
    cases = []
    for k in range(nshift):
        cs = (k % 2 == 0)
        cases.append((shift_case(rng, cs), cs))
    answers = common.driver("c11tag", ["F %d %s %s" % (int(cs), flags, encode_flat(shift_flat(*c))) for c, cs in cases], timeout=1800)
    for k, ((c, cs), ans) in enumerate(zip(cases, answers)):
        params, cargs, body = c
        a = parse_answer(ans)
        src = " cpu z80\n org 0\n" + shift_source(params, cargs, body)
        if a is None:
            proof_problems.append("driver c11tag: %s on shift case %d" % (ans[:60], k))
            continue
        rc, msg, p, i = asl(bdir, wd, "s%d" % k, src, flags=(["-U"] if cs else []), want_i=True)
        evaluations += 1
        d["shift_cases"] += 1
        distinct.add(("shift", tuple(params), tuple(cargs), tuple(None if b is None else tuple(b) for b in body)))
        info = dict(tag="tags shift %d" % k, source=src, asflags="-U" if cs else "")
        if rc != 0 or i is None:
            info["why"] = "SHIFT case rejected: rc=%s %s" % (rc, msg[-300:])
            corr_fail.append(info)
            continue
        real = [x for x in comment_lines(i) if x.startswith(b";S")]
        model = [x for x in a["lines"] if x.startswith(b";S")]
        if not cs:
            model = [x.upper().replace(b";S ", b";S ") for x in model]
            real = [x.upper() for x in real]
        if model != real:
            info["why"] = "SHIFT: tag machine model and asl -P output differ"
            info["model"] = repr(model[:6])
            info["real"] = repr(real[:6])
            corr_fail.append(info)
            continue
        hand = shift_hand(params, cargs, body, cs)
        if not cs:
            hand = [x.upper() for x in hand]
        if hand == real:
            d["shift_manual_agrees"] += 1
        else:
            d["shift_manual_differs"] += 1
            j = [t for t in range(min(len(hand), len(real))) if hand[t] != real[t]][:1]
            leftover = bool(j) and any(ch < 32 for ch in real[j[0]])
            info["why"] = "SHIFT: the manual's rule (arguments move up, missing ones are empty) gives %r, asl delivers %r" % (
                hand[j[0]] if j else len(hand), real[j[0]] if j else len(real))
            if leftover:
                info["sig"] = "shift-leaves-last-parameter-token"
            spec_fail.append(info)
    # ---------------- finding: ALLARGS after SHIFT (the manual: the comma-separated list of the arguments; SHIFT discards the first)
    fsrc = " cpu z80\n org 0\nfj macro a,b,c\n shift\n;J<ALLARGS>\n endm\n fj 1,,3\n"
    rc, msg, p, i = asl(bdir, wd, "fj", fsrc, flags=["-U"], want_i=True)
    got = [x for x in comment_lines(i)] if i else None
    evaluations += 1
    if got != [b";J<,3>"]:
        spec_fail.append(dict(sig="allargs-after-shift-drops-empty-argument", tag="probe:allargs-after-shift", source=fsrc, asflags="-U",
                              why="after SHIFT the arguments left of `fj 1,,3` are `` and `3`, ALLARGS by the manual is ',3'; asl delivers %r (rc=%s)" % (got, rc)))
    # ---------------- quirk programs through the model
    qprogs = [
        ("irpc-empty", [("C", "c", ""), ("P", ";Q<c>"), ("E",), ("P", ";END")]),
        ("exitm-in-irp", [("I", "t", ["1", "2"]), ("P", ";Q<t>"), ("X",), ("P", ";R"), ("E",), ("P", ";END")]),
        ("exitm-in-irpn", [("N", 2, ["t", "u", "1", "2", "3"]), ("P", ";Q<t><u>"), ("X",), ("E",), ("P", ";END")]),
        ("argcount-few", [("D", 1, ["a", "b", "c"], ["", "", ""]), ("P", ";Q<ARGCOUNT>"), ("E",), ("M", 1, [(None, "1")]), ("P", ";END")]),
        ("argcount-shift", [("D", 1, ["a", "b"], ["", ""]), ("S",), ("P", ";Q<ARGCOUNT|ALLARGS>"), ("E",),
                            ("M", 1, [(None, "1"), (None, "2"), (None, "3")]), ("P", ";END")]),
        ("allargs-shift-empty", [("D", 1, ["a", "b", "c"], ["", "", ""]), ("S",), ("P", ";Q<ALLARGS|ARGCOUNT>"), ("S",), ("P", ";R<ALLARGS>"), ("E",),
                                 ("M", 1, [(None, "1"), (None, ""), (None, ""), (None, "4"), (None, "5")]), ("P", ";END")]),
        ("exitm-in-macro-in-irp", [("D", 1, ["a"], [""]), ("P", ";A<a>"), ("X",), ("P", ";B"), ("E",),
                                   ("I", "t", ["1", "2"]), ("M", 1, [(None, "t")]), ("P", ";C<t>"), ("E",), ("P", ";END")]),
    ]
    answers = common.driver("c11tag", ["F 1 %s %s" % (flags, encode_flat(l)) for _, l in qprogs], timeout=600)
    for (name, lines), ans in zip(qprogs, answers):
        a = parse_answer(ans)
        src = " cpu z80\n org 0\n" + render_flat(lines)
        rc, msg, p, i = asl(bdir, wd, "qp", src, flags=["-U"], want_i=True)
        evaluations += 1
        d["quirk_programs"] += 1
        info = dict(tag="tags quirk " + name, source=src, asflags="-U", quirk_flags=flags)
        if a is None:
            proof_problems.append("driver c11tag: %s on quirk program %s" % (ans[:60], name))
            continue
        real_crash = isinstance(rc, int) and rc < 0
        if a["crashed"] != real_crash:
            info["why"] = "model (with the probed quirk flags) says crashed=%s, asl rc=%s" % (a["crashed"], rc)
            corr_fail.append(info)
            continue
        if not real_crash:
            real = comment_lines(i) if i else None
            if real != a["lines"]:
                info["why"] = "model (with the probed quirk flags) and asl -P output differ: %r vs %r" % (a["lines"][:5], real[:5] if real else real)
                corr_fail.append(info)
    d["wall_s"] = round(time.time() - t0, 1)
    dist["tags"] = d
    return evaluations, distinct
