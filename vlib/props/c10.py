"""C10 - address bookkeeping: ORG, RORG, ALIGN, reservations, SEGMENT, PHASE/DEPHASE, SAVE/RESTORE, STRUCT/UNION.

(A) theorems in lean/AslModel/Props/C10.lean (refinement MODEL -> SPEC machine, corollaries)
(B) real asl vs Model/Addr.lean on random statement interleavings: `$`, MOMCPU, LISTON, MOMSEGMENT and every
    symbol a statement defines are read back through a MESSAGE line after every statement; error numbers per
    line; signal; end-of-pass errors; the records of the code file
(C) Spec/AddrSpec.lean (written from the manual) run against the same observations of the real program, and
    the cells of the real code file against the load addresses the spec machine computes.
Further parts with their own generators, models and driver modes: c10_res.py (reservations of elements smaller than the address
unit, mode c10r), c10_lab.py (labels at pad bytes and on / before lines that open a macro call, REPT, IRP, IRPN, IRPC, WHILE;
Motorola-style reservations with several operands inside and outside STRUCT/UNION; mode c10l).
"""
import json
import os
import re

from .. import common
from ..common import log
from . import c10_res
from . import c10_lab

# target index -> (CPU name, MOMCPU value, segment id -> name, data statement, reservation statement)
TARGETS = [
    dict(name="8051", momcpu=0x8051, segs={1: "code", 2: "data", 3: "idata", 4: "xdata", 6: "bitdata"},
         limit={1: 0xffff, 2: 0xff, 3: 0xff, 4: 0xffff, 6: 0xff}, emit="db", res="ds", gran=1),
    dict(name="320C25", momcpu=0x320C25, segs={1: "code", 2: "data", 7: "io"},
         limit={1: 0xffff, 2: 0xffff, 7: 0xf}, emit="word", res="res", gran=2),
]
SEGNAMES = ["NOTHING", "CODE", "DATA", "IDATA", "XDATA", "YDATA", "BITDATA", "IO", "REG", "ROMDATA", "EEDATA", "STRUCT"]
ALL_SEG_NAMES = {1: "code", 2: "data", 3: "idata", 4: "xdata", 5: "ydata", 6: "bitdata", 7: "io", 10: "eedata"}
ALIGN_POOL = [1, 2, 2, 3, 4, 4, 7, 8, 8, 16, 32, 64, 100, 256]
ALIGN_BIG = [1024, 4096, 32767, 32768, 65535]


def sym_name(tok, sep="_"):
    """driver symbol token `p.p/leaf` -> assembler symbol name (`sep` = `.` under DOTTEDSTRUCTS ON)"""
    path, leaf = tok.split("/")
    parts = ["N" + p for p in path.split(".") if p != ""]
    parts.append("LEN" if leaf == "LEN" else "N" + leaf)
    return sep.join(parts)


class Gen:
    """structured generator; keeps a light approximation of the counters only to steer values into range"""

    def __init__(self, rng, nmax):
        self.rng = rng
        self.cpu = rng.choice([0, 0, 1])
        self.cpu0 = self.cpu
        self.seg = 1
        self.pc = {}
        self.off = {}
        self.pdepth = {}
        self.saves = []
        self.structs = []      # (named, isUnion)
        self.next_id = 1
        self.stmts = []        # (token, source line, kind)
        self.wild = rng.random() < 0.10
        self.orgphase = rng.random() < 0.12
        self.n = rng.randrange(6, nmax)
        self.kinds = {}
        # the target comes from the command line (`asl -cpu <name>`), the source has no leading CPU statement: the initial
        # CODE segment has then never been entered through SetNSeg - only WriteCode's `PCsUsed[ActPC] = True` marks it
        self.nocpu = rng.random() < 0.3
        self.hops = 0

    def new_id(self):
        self.next_id += 1
        return self.next_id - 1

    def add(self, kind, tok_tail, src, label=None):
        lab = "-" if label is None else str(label)
        self.stmts.append(("%s:%s" % (lab, tok_tail), src, label, kind))
        self.kinds[kind] = self.kinds.get(kind, 0) + 1

    def lim(self):
        return TARGETS[self.cpu]["limit"].get(self.seg, 0xff)

    def approx(self):
        pc = self.pc.get((self.seg), 0)
        return pc, pc + self.off.get(self.seg, 0)

    def maybe_label(self, p=0.45):
        return self.new_id() if self.rng.random() < p else None

    def setter(self):
        """a counter-setting statement (ORG, RORG, ALIGN, PHASE) that places nothing"""
        rng = self.rng
        lim = self.lim()
        pc, ex = self.approx()
        lab = self.maybe_label(0.3)
        w = rng.random()
        off = self.off.get(self.seg, 0)
        if w < 0.45 and (off == 0 or self.orgphase):
            hi = max(1, (lim + 1) // 2)
            v = rng.choice([1, hi // 2, hi, rng.randrange(1, hi), rng.randrange(1, hi)])
            kind = "org-under-phase" if off != 0 else ("org-same" if v == ex else "org")
            self.add(kind, "org:%d" % v, "org %d" % v, lab)
            self.pc[self.seg] = v
        elif w < 0.65:
            d = rng.choice([1, 2, 4, 8, 16])
            self.add("rorg", "rorg:%d" % d, "rorg %d" % d, lab)
            self.pc[self.seg] = pc + d
        elif w < 0.8:
            n = rng.choice(ALIGN_POOL)
            self.add("align", "align:%d:-" % n, "align %d" % n, lab)
            if ex >= 0:
                self.pc[self.seg] = pc + (-ex) % n
        else:
            hi = max(2, (lim + 1) // 2)
            v = rng.choice([1, hi, rng.randrange(0, hi)])
            self.add("phase", "phase:%d" % v, "phase %d" % v, lab)
            self.pdepth[self.seg] = self.pdepth.get(self.seg, 0) + 1
            self.off.setdefault(("stk", self.seg), []).append(self.off.get(self.seg, 0))
            self.off[self.seg] = v - pc

    def hop(self):
        """leave the active segment and come back (SEGMENT <other> … SEGMENT <back>, or a CPU statement) with nothing placed in
        it since the last counter-setting statement, then place labelled code: SetNSeg must not re-initialise the counter"""
        rng = self.rng
        t = TARGETS[self.cpu]
        self.hops += 1
        back = self.seg
        if rng.random() < 0.65:
            others = [x for x in t["segs"] if x != back] or [1]
            o = rng.choice(others)
            self.add("segment", "seg:%d" % o, "segment %s" % ALL_SEG_NAMES[o], None)
            self.seg = o
            w = rng.random()
            if w < 0.35:
                self.setter()
            elif w < 0.6:
                k = rng.choice([1, 2])
                self.add("res", "res:%d" % k, "%s %d" % (t["res"], k), self.maybe_label())
                self.pc[self.seg] = self.pc.get(self.seg, 0) + k
            self.add("segment", "seg:%d" % back, "segment %s" % ALL_SEG_NAMES[back], None)
            self.seg = back
        else:
            c = rng.choice([0, 1])
            self.add("cpu", "cpu:%d" % c, "cpu %s" % TARGETS[c]["name"], None)
            self.cpu = c
            self.seg = 1
        t = TARGETS[self.cpu]
        pc, ex = self.approx()
        k = rng.choice([1, 2, 3])
        if max(pc, ex) + k > self.lim():
            k = 1
        tag = 1 + len(self.stmts) % 250
        if rng.random() < 0.8:
            self.add("emit", "emit:%d:%d" % (k, tag), "%s %s" % (t["emit"], ",".join([str(tag)] * k)), self.new_id())
        else:
            self.add("res", "res:%d" % k, "%s %d" % (t["res"], k), self.new_id())
        self.pc[self.seg] = pc + k

    def one(self):
        rng = self.rng
        t = TARGETS[self.cpu]
        ins = bool(self.structs)
        r = rng.random()
        lab = self.maybe_label()
        lim = self.lim()
        pc, ex = self.approx()
        if not ins and rng.random() < 0.04:
            self.setter()
            if self.off.get(self.seg, 0) == 0 or rng.random() < 0.5:
                self.hop()
            return
        if ins:
            # structure body: reservations, aligns, nested structures, end
            if r < 0.42:
                k = rng.choice([1, 1, 2, 2, 3, 4, 6, 8, 16])
                self.add("res", "res:%d" % k, "%s %d" % (t["res"], k), lab)
            elif r < 0.52:
                n = rng.choice(ALIGN_POOL)
                self.add("align", "align:%d:-" % n, "align %d" % n, lab)
            elif r < 0.66 and len(self.structs) < 4:
                u = rng.random() < 0.4
                named = rng.random() < 0.75
                nid = self.new_id() if named else None
                self.structs.append((nid, u))
                self.add("union" if u else "struct", "struct:%s:%s" % (nid if named else "-", "u" if u else "s"),
                         "union" if u else "struct", None)
                self.stmts[-1] = (self.stmts[-1][0], self.stmts[-1][1], nid, self.stmts[-1][3])
            elif r < 0.86:
                nid, u = self.structs.pop()
                self.add("endstruct", "endstruct", "endunion" if u else "endstruct", None)
                if nid is not None and rng.random() < 0.5:
                    self.stmts[-1] = (self.stmts[-1][0], self.stmts[-1][1], nid, self.stmts[-1][3])
            elif r < 0.90:
                v = rng.choice([0, 1, 2, 5, 8, 16, 40])
                self.add("org-in-struct", "org:%d" % v, "org %d" % v, lab)
            elif r < 0.93:
                d = rng.choice([1, 2, 3, -1, 4])
                self.add("rorg-in-struct", "rorg:%d" % d, "rorg %d" % d, lab)
            elif r < 0.96:
                self.add("nop", "nop", "", lab if lab is not None else self.new_id())
            elif self.wild:
                w = rng.random()
                if w < 0.25:
                    # no label: the TI data pseudo-ops post-process a label (outside the model)
                    self.add("emit-in-struct", "emit:1:%d" % 7, "%s 7" % t["emit"], None)
                elif w < 0.45:
                    self.add("phase-in-struct", "phase:16", "phase 16", lab)
                elif w < 0.6:
                    self.add("dephase-in-struct", "dephase", "dephase", lab)
                elif w < 0.75:
                    self.saves.append((self.cpu, self.seg))
                    self.add("save-in-struct", "save", "save", lab)
                elif w < 0.9 and self.saves:
                    self.cpu, self.seg = self.saves.pop()
                    self.add("restore-in-struct", "restore", "restore", lab)
                else:
                    self.add("segment-in-struct", "seg:1", "segment code", lab)
            else:
                self.add("nop", "nop", "", lab if lab is not None else self.new_id())
            return
        if r < 0.22:
            k = rng.choice([1, 1, 2, 3, 4, 5, 8, 12, 20])
            if max(pc, ex) + k > lim and not self.wild:
                k = 1
            tag = 1 + len(self.stmts) % 250
            self.add("emit", "emit:%d:%d" % (k, tag), "%s %s" % (t["emit"], ",".join([str(tag)] * k)), lab)
            self.pc[self.seg] = pc + k
        elif r < 0.34:
            k = rng.choice([1, 1, 2, 3, 4, 7, 16, 33])
            if max(pc, ex) + k > lim and not self.wild:
                k = 1
            self.add("res", "res:%d" % k, "%s %d" % (t["res"], k), lab)
            self.pc[self.seg] = pc + k
        elif r < 0.46:
            off = self.off.get(self.seg, 0)
            if off != 0 and not self.orgphase:
                # RORG is what the manual recommends under PHASE
                d = rng.choice([1, 2, 4, 8, -1, -2, 16])
                if pc + d < 0:
                    d = 1
                self.add("rorg", "rorg:%d" % d, "rorg %d" % d, lab)
                self.pc[self.seg] = pc + d
            else:
                hi = max(1, (lim + 1) // 2)
                v = rng.choice([0, 1, hi // 2, hi, rng.randrange(0, hi), rng.randrange(0, hi), pc, ex])
                if rng.random() < 0.04:
                    v = rng.choice([lim, lim + 1, 0x10000, 0x7fffffff, 0xffffffff, 2 ** 63])
                v = max(0, v)
                kind = "org-under-phase" if off != 0 else ("org-same" if v == ex else "org")
                self.add(kind, "org:%d" % v, "org %d" % v, lab)
                self.pc[self.seg] = v
        elif r < 0.52:
            d = rng.choice([1, 2, 3, 4, 8, 16, -1, -2, -4])
            if pc + d < 0 and not self.wild:
                d = 1
            self.add("rorg", "rorg:%d" % d, "rorg %d" % d, lab)
            self.pc[self.seg] = pc + d
        elif r < 0.62:
            n = rng.choice(ALIGN_POOL) if rng.random() < 0.9 else rng.choice(ALIGN_BIG)
            fill = None
            if self.cpu == 0 and n <= 64 and rng.random() < 0.3:
                fill = rng.randrange(256)
            self.add("align-fill" if fill is not None else "align", "align:%d:%s" % (n, "-" if fill is None else fill),
                     "align %d%s" % (n, "" if fill is None else ",%d" % fill), lab)
            if n > 0 and ex >= 0:
                self.pc[self.seg] = pc + (-ex) % n
        elif r < 0.70:
            choices = [s for s in t["segs"] if s != self.seg] or [1]
            s = rng.choice(choices)
            if rng.random() < 0.1:
                s = self.seg
            if self.wild and rng.random() < 0.3:
                s = rng.choice(list(ALL_SEG_NAMES))
            self.add("segment", "seg:%d" % s, "segment %s" % ALL_SEG_NAMES[s], lab)
            if s in t["segs"]:
                self.seg = s
        elif r < 0.78:
            hi = max(2, (lim + 1) // 2)
            v = rng.choice([0, 1, hi, rng.randrange(0, hi), rng.randrange(0, hi), pc])
            if rng.random() < 0.05:
                v = rng.choice([-1, -16, lim, lim + 1, 0x7fffffff])
            self.add("phase", "phase:%d" % v, "phase %d" % v, lab)
            self.pdepth[self.seg] = self.pdepth.get(self.seg, 0) + 1
            self.off.setdefault(("stk", self.seg), []).append(self.off.get(self.seg, 0))
            self.off[self.seg] = v - pc
        elif r < 0.84:
            if self.pdepth.get(self.seg, 0) > 0 or rng.random() < 0.25:
                kind = "dephase" if self.pdepth.get(self.seg, 0) > 0 else "dephase-empty"
                self.add(kind, "dephase", "dephase", lab)
                stk = self.off.get(("stk", self.seg), [])
                self.off[self.seg] = stk.pop() if stk else 0
                self.pdepth[self.seg] = max(0, self.pdepth.get(self.seg, 0) - 1)
            else:
                self.add("nop", "nop", "", lab if lab is not None else self.new_id())
        elif r < 0.88:
            self.saves.append((self.cpu, self.seg))
            self.add("save", "save", "save", lab)
        elif r < 0.92:
            if self.saves:
                c, s = self.saves.pop()
                self.add("restore", "restore", "restore", lab)
                self.cpu, self.seg = c, s
            elif self.wild:
                self.add("restore-empty", "restore", "restore", lab)
        elif r < 0.94:
            b = rng.random() < 0.5
            self.add("listing", "listing:%d" % (1 if b else 0), "listing %s" % ("on" if b else "off"), lab)
        elif r < 0.96:
            c = rng.choice([0, 1])
            self.add("cpu", "cpu:%d" % c, "cpu %s" % TARGETS[c]["name"], lab)
            self.cpu = c
            self.seg = 1
        elif r < 0.995:
            u = rng.random() < 0.35
            named = not (self.wild and rng.random() < 0.3)
            nid = self.new_id() if named else None
            if named:
                self.structs.append((nid, u))
            self.add("union" if u else "struct", "struct:%s:%s" % (nid if named else "-", "u" if u else "s"),
                     "union" if u else "struct", None)
            self.stmts[-1] = (self.stmts[-1][0], self.stmts[-1][1], nid, self.stmts[-1][3])
        elif self.wild:
            self.add("endstruct-without-struct", "endstruct", "endstruct", None)

    def build(self):
        if self.nocpu and self.rng.random() < 0.6:
            # the shape at the very start of a source without CPU statement
            for _ in range(self.rng.choice([1, 1, 2])):
                self.setter()
            self.hop()
        while len(self.stmts) < self.n:
            self.one()
        # close what is open (mostly)
        if not (self.wild and self.rng.random() < 0.3):
            while self.structs:
                nid, u = self.structs.pop()
                self.add("endstruct", "endstruct", "endunion" if u else "endstruct", None)
            while self.saves:
                self.saves.pop()
                self.add("restore", "restore", "restore", None)
        return self


class StructGen:
    """structure-centred generator: programs that mostly consist of nested STRUCT/UNION definitions (depth <= 3; unions in
    structures and structures in unions; named and nameless inner frames; fields by DS/RES and `DB ?`-style reservations,
    labelled empty lines, ALIGN, forward ORG/RORG inside; SAVE/RESTORE around and - rarely - inside bodies) between a few
    ordinary statements, so that the spec machine accepts nearly all of them to the end."""

    def __init__(self, rng):
        self.rng = rng
        self.cpu = rng.choice([0, 1])
        self.cpu0 = self.cpu
        self.next_id = 1
        self.stmts = []
        self.kinds = {}
        self.wild = False
        self.dotted = rng.random() < 0.25
        self.nocpu = rng.random() < 0.2
        self.frames = []       # [named, isUnion, cur, maxlen]
        self.stats = dict(max_depth=0, union_in_struct=0, struct_in_union=0, nameless=0, structures=0, fields=0)
        self.pending_restore = 0

    new_id = Gen.new_id
    add = Gen.add

    def reserve_src(self, k):
        t = TARGETS[self.cpu]
        if self.cpu == 0 and k <= 4 and self.rng.random() < 0.4:
            return "db %s" % ",".join(["?"] * k)
        return "%s %d" % (t["res"], k)

    def advance(self, k):
        f = self.frames[-1]
        if f[1]:
            f[3] = max(f[3], k)
        else:
            f[2] += k

    def open(self, named, union):
        nid = self.new_id() if named else None
        if self.frames:
            if union and not self.frames[-1][1]:
                self.stats["union_in_struct"] += 1
            if not union and self.frames[-1][1]:
                self.stats["struct_in_union"] += 1
        if not named:
            self.stats["nameless"] += 1
        self.stats["structures"] += 1
        self.add("union" if union else "struct", "struct:%s:%s" % (nid if named else "-", "u" if union else "s"),
                 "union" if union else "struct", None)
        self.stmts[-1] = (self.stmts[-1][0], self.stmts[-1][1], nid, self.stmts[-1][3])
        self.frames.append([nid, union, 0, 0])
        self.stats["max_depth"] = max(self.stats["max_depth"], len(self.frames))

    def close(self):
        nid, union, cur, mx = self.frames.pop()
        self.add("endstruct", "endstruct", "endunion" if union else "endstruct", None)
        if nid is not None and self.rng.random() < 0.4:
            self.stmts[-1] = (self.stmts[-1][0], self.stmts[-1][1], nid, self.stmts[-1][3])
        if self.frames:
            self.advance(mx if union else cur)

    def body(self):
        rng = self.rng
        for _ in range(rng.randrange(1, 6)):
            f = self.frames[-1]
            r = rng.random()
            lab = self.new_id() if rng.random() < 0.8 else None
            if r < 0.45:
                k = rng.choice([1, 1, 2, 2, 3, 4, 4, 6, 8, 16])
                self.add("res", "res:%d" % k, self.reserve_src(k), lab)
                self.advance(k)
                if lab is not None:
                    self.stats["fields"] += 1
            elif r < 0.57:
                n = rng.choice(ALIGN_POOL)
                self.add("align", "align:%d:-" % n, "align %d" % n, lab)
                self.advance((-f[2]) % n)
            elif r < 0.82 and len(self.frames) < 3:
                self.open(rng.random() < 0.7, rng.random() < 0.45)
                self.body()
                self.close()
            elif r < 0.86 and not f[1]:
                v = f[2] + rng.choice([0, 1, 2, 5])
                self.add("org-in-struct", "org:%d" % v, "org %d" % v, lab)
                f[2] = v
            elif r < 0.90 and not f[1]:
                d = rng.choice([1, 2, 3, 4])
                self.add("rorg-in-struct", "rorg:%d" % d, "rorg %d" % d, lab)
                f[2] += d
            elif r < 0.94:
                self.add("nop", "nop", "", self.new_id())
            elif r < 0.96:
                b = rng.random() < 0.5
                self.add("listing", "listing:%d" % (1 if b else 0), "listing %s" % ("on" if b else "off"), None)
            elif r < 0.98:
                self.add("save-in-struct", "save", "save", None)
                if rng.random() < 0.6:
                    self.add("restore-in-struct", "restore", "restore", None)
                else:
                    self.pending_restore += 1
            else:
                k = rng.choice([1, 2])
                self.add("res", "res:%d" % k, self.reserve_src(k), None)
                self.advance(k)

    def outside(self):
        rng = self.rng
        t = TARGETS[self.cpu]
        r = rng.random()
        lab = self.new_id() if rng.random() < 0.5 else None
        tag = 1 + len(self.stmts) % 250
        if r < 0.4:
            k = rng.choice([1, 2, 3])
            self.add("emit", "emit:%d:%d" % (k, tag), "%s %s" % (t["emit"], ",".join([str(tag)] * k)), lab)
        elif r < 0.6:
            k = rng.choice([1, 2, 4])
            self.add("res", "res:%d" % k, "%s %d" % (t["res"], k), lab)
        elif r < 0.8:
            v = rng.choice([16, 64, 100, 128])
            self.add("org", "org:%d" % v, "org %d" % v, lab)
        else:
            n = rng.choice([2, 4, 8])
            self.add("align", "align:%d:-" % n, "align %d" % n, lab)

    def build(self):
        rng = self.rng
        for _ in range(rng.randrange(0, 3)):
            self.outside()
        phased = rng.random() < 0.25
        if phased:
            v = rng.choice([32, 64, 200])
            self.add("phase", "phase:%d" % v, "phase %d" % v, None)
        for _ in range(rng.randrange(1, 4)):
            around = rng.random() < 0.3
            if around:
                self.add("save", "save", "save", None)
                if rng.random() < 0.4:
                    self.add("listing", "listing:0", "listing off", None)
            self.open(True, rng.random() < 0.3)
            self.body()
            self.close()
            while self.pending_restore:
                self.pending_restore -= 1
                self.add("restore", "restore", "restore", None)
            if around:
                self.add("restore", "restore", "restore", None)
            for _ in range(rng.randrange(0, 3)):
                self.outside()
        if phased:
            self.add("dephase", "dephase", "dephase", None)
        self.outside()
        return self


def render(g, plan):
    """source text + map line number -> (statement index, 's'|'m')"""
    # without a leading CPU statement (target from `asl -cpu`) OUTRADIX is the first statement: WriteCode marks the initial CODE
    # segment as used there, which is the state `Model/Addr.init` describes (theorem C10_init_cmdline)
    lines = (["\toutradix 10"] if getattr(g, "nocpu", False) else ["\tcpu %s" % TARGETS[g.cpu0]["name"], "\toutradix 10"])
    sep = "_"
    if getattr(g, "dotted", False):
        lines.append("\tdottedstructs on")
        sep = "."
    # every other program needs a second pass (forward reference without code): per-pass re-initialisation of
    # counters / phase offsets / stacks is then observable, the values compared are those of the last pass
    two_pass = (len(g.stmts) % 2 == 1)
    if two_pass:
        lines.append("Q_FWD\tequ\tQ_END")
    lmap = {}
    for i, (tok, src, label, kind) in enumerate(g.stmts):
        is_struct = tok.split(":")[1] in ("struct", "endstruct")
        if label is not None:
            left = "N%d" % label if is_struct else "N%d:" % label
        else:
            left = ""
        lines.append("%s\t%s" % (left, src))
        lmap[len(lines)] = (i, "s")
        syms = [] if plan[i] == "-" else plan[i].split(",")
        vals = ";".join("\\{%s}" % sym_name(s, sep) for s in syms) or "-"
        lines.append("\tmessage \"@%d \\{$} \\{MOMCPU} \\{LISTON} \\{MOMSEGMENT} %s\"" % (i, vals))
        lmap[len(lines)] = (i, "m")
    if two_pass:
        lines.append("Q_END:")
    return "\n".join(lines) + "\n", lmap


MSG_RE = re.compile(r"^@(\d+) (\d+) (\d+) (\d+) (\S+) (\S+)\s*$")
ERR_RE = re.compile(r"^> > > ([^:(]+)(?:\((\d+)\))?(?::\d+)?: (error|fatal error) #(\d+)")


def observe(bdir, wd, idx, src, lmap, n, cpuopt=None):
    f = os.path.join(wd, "q%d.asm" % idx)
    pf = os.path.join(wd, "q%d.p" % idx)
    open(f, "w").write(src)
    opts = ["-cpu", cpuopt] if cpuopt else []
    rc, so, se = common.run_tool(bdir, "asl", ["-q", "-n"] + opts + [f, "-o", pf], wd, timeout=20, env={"ASL_VERIF_MAX_PASSES": "8"})
    sig = -rc if isinstance(rc, int) and rc < 0 else (99 if rc in ("timeout", 97) else 0)
    obs = {}
    for line in so.decode(errors="replace").split("\n"):
        m = MSG_RE.match(line.strip())
        if m:
            i = int(m.group(1))
            momcpu = int(m.group(3))
            cpu = [k for k, t in enumerate(TARGETS) if t["momcpu"] == momcpu]
            seg = SEGNAMES.index(m.group(5)) if m.group(5) in SEGNAMES else 99
            obs[i] = (m.group(2), cpu[0] if cpu else 99, m.group(4), seg, m.group(6))
    errs = {}
    end_errs = []
    msg_errs = []
    for line in se.decode(errors="replace").split("\n"):
        m = ERR_RE.match(line.strip())
        if m:
            if m.group(2) is None:
                end_errs.append(m.group(4))
            else:
                i, kind = lmap.get(int(m.group(2)), (None, None))
                if kind == "s":
                    errs.setdefault(i, []).append(m.group(4))
                else:
                    msg_errs.append((int(m.group(2)), m.group(4)))
    toks = []
    for i in range(n):
        if i in obs:
            d, c, l, s, v = obs[i]
            toks.append("%s,%d,%s,%d,%s,%s" % (d, c, l, s, v, ";".join(errs.get(i, [])) or "-"))
        else:
            toks.append("x")
    pfhex = "-"
    if os.path.exists(pf):
        pfhex = open(pf, "rb").read().hex() or "-"
        os.unlink(pf)
    os.unlink(f)
    tail = "end=%s sig=%d p=%s" % (";".join(end_errs) or "-", sig, pfhex)
    return toks, tail, dict(rc=rc, msg_errs=msg_errs, stderr=se.decode(errors="replace")[-600:])


def probe_org(bdir, wd):
    """self-calibration: which flavour of CodeORG_Core does the tree under test have?"""
    src = "\tcpu 8051\n\toutradix 10\n\torg 1000h\n\tphase 8000h\n\tdb 1\n\torg 2000h\n\tmessage \"@0 \\{$}\"\n"
    f = os.path.join(wd, "probe.asm")
    open(f, "w").write(src)
    rc, so, se = common.run_tool(bdir, "asl", ["-q", "-n", f, "-o", os.path.join(wd, "probe.p")], wd)
    m = re.search(r"@0 (\d+)", so.decode(errors="replace"))
    v = int(m.group(1)) if m else None
    # ALIGN 0: SIGFPE in the pinned tree; a repaired tree reports some error number
    open(f, "w").write("\tcpu 8051\n\talign 0\n")
    rc, so, se = common.run_tool(bdir, "asl", ["-q", "-n", f, "-o", os.path.join(wd, "probe.p")], wd)
    az = 0
    if isinstance(rc, int) and rc >= 0:
        m = ERR_RE.search(se.decode(errors="replace").strip().split("\n")[0]) if se.strip() else None
        az = int(m.group(4)) if m else 0
    return (v == 0x9000), v, az


WITNESS_ORG = "\tcpu 8051\n\torg 1000h\n\tphase 8000h\n\tdb 1\n\torg 2000h\n\tdb 2\n\tdephase\n\tdb 3\n"
FIXED = [
    # (name, cpu0, statement tokens/sources) - regression inputs run first
    ("org-under-phase", 0, [("-:org:4096", "org 4096"), ("-:phase:32768", "phase 32768"), ("-:emit:1:1", "db 1"),
                            ("-:org:8192", "org 8192"), ("-:emit:1:2", "db 2"), ("-:dephase", "dephase"), ("-:emit:1:3", "db 3")]),
    ("align-zero", 0, [("-:emit:1:1", "db 1"), ("-:align:0:-", "align 0"), ("-:emit:1:2", "db 2")]),
    ("save-in-struct", 0, [("1:struct:1:s", "struct"), ("-:save", "save"), ("2:res:2", "ds 2"), ("-:endstruct", "endstruct"),
                           ("-:restore", "restore"), ("-:res:1", "ds 1")]),
    ("dephase-empty", 0, [("-:org:256", "org 256"), ("-:dephase", "dephase"), ("3:emit:2:5", "db 5,5"), ("-:seg:2", "segment data"),
                          ("-:phase:128", "phase 128"), ("-:seg:1", "segment code"), ("4:emit:1:6", "db 6")]),
    # sources without CPU statement (`asl -cpu`): a counter set by ORG/RORG/ALIGN/PHASE with nothing placed yet must survive
    # SEGMENT <other> … SEGMENT <back> and the first CPU statement (SetNSeg consults PCsUsed[])
    ("nocpu-org-segment-hop", 0, [("-:org:4096", "org 4096"), ("-:seg:2", "segment data"), ("-:org:64", "org 64"), ("1:res:2", "ds 2"),
                                  ("-:seg:1", "segment code"), ("2:emit:1:165", "db 165"), ("3:emit:2:7", "db 7,7")]),
    ("nocpu-org-cpu", 1, [("-:org:4096", "org 4096"), ("-:cpu:0", "cpu 8051"), ("1:emit:1:165", "db 165")]),
    ("nocpu-rorg-align-hop", 1, [("-:rorg:5", "rorg 5"), ("-:align:4:-", "align 4"), ("-:seg:2", "segment data"), ("-:seg:1", "segment code"),
                                 ("1:emit:1:9", "word 9")]),
    ("nocpu-phase-hop", 0, [("-:org:256", "org 256"), ("-:phase:1024", "phase 1024"), ("-:seg:4", "segment xdata"), ("-:seg:1", "segment code"),
                            ("1:emit:1:3", "db 3"), ("-:dephase", "dephase"), ("2:emit:1:4", "db 4")]),
    ("cpu-org-segment-hop", 0, [("-:org:512", "org 512"), ("-:seg:3", "segment idata"), ("-:org:144", "org 144"), ("-:seg:1", "segment code"),
                                ("-:seg:3", "segment idata"), ("1:res:1", "ds 1"), ("-:seg:1", "segment code"), ("2:emit:1:8", "db 8")]),
    # finding struct-length-wraps-at-2^31: TotLen/CodeLen are 32-bit LongInts
    ("struct-longer-than-2^31", 0, [("1:struct:1:s", "struct"), ("2:res:1073741824", "ds 40000000h"), ("3:res:1073741824", "ds 40000000h"),
                                    ("4:res:1", "ds 1"), ("-:endstruct", "endstruct"), ("5:emit:1:1", "db 1")]),
    ("nested3", 0, [("-:save", "save"), ("1:struct:1:s", "struct"), ("2:res:2", "db ?,?"), ("3:struct:3:u", "union"), ("4:res:4", "ds 4"),
                    ("-:struct:-:s", "struct"), ("5:res:1", "ds 1"), ("6:res:2", "ds 2"), ("-:endstruct", "endstruct"), ("7:nop", ""),
                    ("-:endstruct", "endunion"), ("-:align:4:-", "align 4"), ("-:struct:-:u", "union"), ("8:struct:8:s", "struct"),
                    ("9:res:5", "ds 5"), ("-:endstruct", "endstruct"), ("10:res:3", "ds 3"), ("-:endstruct", "endunion"),
                    ("11:res:1", "ds 1"), ("-:endstruct", "endstruct"), ("-:restore", "restore"), ("12:emit:1:7", "db 7")]),
    ("nested", 1, [("1:struct:1:s", "struct"), ("2:res:2", "res 2"), ("3:struct:3:u", "union"), ("4:res:4", "res 4"), ("5:res:2", "res 2"),
                   ("-:endstruct", "endunion"), ("-:struct:-:s", "struct"), ("6:res:3", "res 3"), ("-:endstruct", "endstruct"),
                   ("7:res:1", "res 1"), ("-:endstruct", "endstruct"), ("8:emit:2:9", "word 9,9")]),
]


class FixedProg:
    def __init__(self, name, cpu0, items):
        self.cpu0 = cpu0
        self.cpu = cpu0
        self.stmts = []
        self.kinds = {"fixed:" + name: 1}
        self.wild = False
        self.nocpu = name.startswith("nocpu")
        for tok, src in items:
            lab = tok.split(":")[0]
            self.stmts.append((tok, src, None if lab == "-" else int(lab), "fixed"))


def run(args):
    res = common.Result("C10", args.tier, args.seed, "proof")
    bdir, audit, proof_problems = common.standard_setup(res, "C10", ["SegParams", "ListParams"])
    if bdir is None:
        return res.finish()
    ok = not any(p.startswith("driver does not build") for p in proof_problems)
    n_prog = {"quick": 3000, "thorough": 40000}[args.tier]
    rng = common.rng_for(args.seed, "C10")
    spec_fail, corr_fail, samples = [], [], []
    dist = {}
    agg = dict(programs=0, statements=0, spec_checked_statements=0, with_errors=0, crashed=0, code_files_compared=0,
               spec_cells_compared=0, spec_stop={}, wild=0, without_cpu_statement=0, counter_set_then_segment_or_cpu_hop=0)
    # structure bodies: what the generators reached and how many field / length symbols were read back and compared
    sagg = dict(struct_centred_programs=0, dotted_programs=0, max_depth_histogram={}, union_in_struct=0, struct_in_union=0, nameless_frames=0,
                structures=0, field_symbols_compared_with_model=0, length_symbols_compared_with_model=0,
                field_symbols_checked_by_spec=0, length_symbols_checked_by_spec=0, by_target={})
    distinct = set()
    with common.Workdir("c10") as wd:
        org_load, probe_val, align_zero_err = probe_org(bdir, wd)
        ol = ("1" if org_load else "0") + (":%d" % align_zero_err if align_zero_err else "")
        progs = [FixedProg(*f) for f in FIXED]
        cdir = os.path.join(common.VERIF, "corpus", "C10")
        if os.path.isdir(cdir):
            for fn in sorted(os.listdir(cdir)):
                if fn.endswith(".json"):
                    d = json.load(open(os.path.join(cdir, fn)))
                    progs.append(FixedProg("corpus-" + fn[:-5], d["cpu0"], [tuple(x) for x in d["items"]]))
        for i in range(n_prog):
            if i % 5 == 4:
                progs.append(StructGen(rng).build())
                continue
            nmax = 62 if i % 4 else 24
            progs.append(Gen(rng, nmax).build())
        if not ok:
            progs = []
        plans = common.driver("c10plan", ["%s %d %s" % (ol, g.cpu0, " ".join(s[0] for s in g.stmts)) for g in progs]) if progs else []
        reqs, metas = [], []
        for idx, (g, planline) in enumerate(zip(progs, plans)):
            if planline == "bad-request":
                proof_problems.append("driver rejected a generated program: " + " ".join(s[0] for s in g.stmts)[:300])
                continue
            plan = planline.split(" ") if planline else []
            n = len(g.stmts)
            plan = plan + ["-"] * (n - len(plan))      # after a predicted crash nothing is planned
            src, lmap = render(g, plan)
            toks, tail, info = observe(bdir, wd, idx, src, lmap, n, TARGETS[g.cpu0]["name"] if getattr(g, "nocpu", False) else None)
            reqs.append("%s %d %d %s %s %s" % (ol, g.cpu0, n, " ".join(s[0] for s in g.stmts), " ".join(toks), tail))
            metas.append((g, src, info, plan))
        answers = common.driver("c10", reqs, timeout=3600) if reqs else []
        for (g, src, info, plan), req, ans in zip(metas, reqs, answers):
            kv = dict(x.split("=", 1) for x in ans.split() if "=" in x)
            tag = ",".join(sorted(g.kinds))[:200]
            agg["programs"] += 1
            agg["statements"] += len(g.stmts)
            for k, v in g.kinds.items():
                dist[k] = dist.get(k, 0) + v
            if getattr(g, "wild", False):
                agg["wild"] += 1
            if getattr(g, "nocpu", False):
                agg["without_cpu_statement"] += 1
            agg["counter_set_then_segment_or_cpu_hop"] += getattr(g, "hops", 0)
            if ans == "bad-request" or "model" not in kv:
                proof_problems.append("driver: bad request for " + req[:200])
                continue
            agg["spec_checked_statements"] += int(kv.get("checked", 0))
            stop = kv.get("stop", "?").split("@")[0]
            agg["spec_stop"][stop] = agg["spec_stop"].get(stop, 0) + 1
            if kv.get("crash") == "1":
                agg["crashed"] += 1
            # symbols defined inside structure bodies (non-empty path): every one was read back through MESSAGE
            nchk = int(kv.get("checked", 0))
            for i, pl in enumerate(plan):
                for tok_ in ([] if pl == "-" else pl.split(",")):
                    if tok_.startswith("/"):
                        continue
                    kind_ = "length" if tok_.endswith("/LEN") else "field"
                    if kv.get("model") == "eq":
                        sagg["%s_symbols_compared_with_model" % kind_] += 1
                        tn = TARGETS[g.cpu0]["name"]
                        sagg["by_target"][tn] = sagg["by_target"].get(tn, 0) + 1
                    if i < nchk and kv.get("spec") == "ok":
                        sagg["%s_symbols_checked_by_spec" % kind_] += 1
            if hasattr(g, "stats"):
                sagg["struct_centred_programs"] += 1
                sagg["dotted_programs"] += 1 if g.dotted else 0
                dkey = str(g.stats["max_depth"])
                sagg["max_depth_histogram"][dkey] = sagg["max_depth_histogram"].get(dkey, 0) + 1
                sagg["union_in_struct"] += g.stats["union_in_struct"]
                sagg["struct_in_union"] += g.stats["struct_in_union"]
                sagg["nameless_frames"] += g.stats["nameless"]
                sagg["structures"] += g.stats["structures"]
            if int(kv.get("nerr", 0)) > 0:
                agg["with_errors"] += 1
            if kv.get("pfile") == "eq" and int(kv.get("nerr", 0)) == 0:
                agg["code_files_compared"] += 1
            if kv.get("cells") == "eq":
                agg["spec_cells_compared"] += 1
            toks = tuple(s[0] for s in g.stmts)
            if len(toks) >= 8 and len({t.split(":")[1] for t in toks}) >= 4:
                distinct.add(toks)
            if len(samples) < 3 and len(g.stmts) >= 12 and kv.get("spec") == "ok" and stop == "end":
                samples.append(dict(source=src[:1500], verdict=ans))
            short_req = req if len(req) < 60000 else req[:60000]
            if kv.get("spec") != "ok" or kv.get("cells") == "ne":
                sig = kv.get("sig", "-")
                why = kv.get("swhy") if kv.get("spec") != "ok" else "cells-of-the-code-file-differ-from-the-spec's-load-addresses"
                spec_fail.append(dict(tag=tag, why="spec machine (manual) vs real asl: " + str(why), sig=None if sig == "-" else sig,
                                      source=src, request=short_req, answer=ans))
            if kv.get("model") != "eq" or kv.get("pfile") == "ne":
                corr_fail.append(dict(tag=tag, why="Lean model of asmallg.c/as.c vs real asl: %s pfile=%s" % (kv.get("mwhy"), kv.get("pfile")),
                                      source=src, request=short_req, answer=ans, asl=info))

        # reservations of elements smaller / larger than the address unit (DN/DB/DW/DD/DQ with `?` and DUP groups on AVR, KCPSM,
        # KCPSM3, Mico8 CODE and on byte-addressed segments): vlib/props/c10_res.py, driver mode c10r
        rp = c10_res.run_part(args, bdir, wd, ok)
        spec_fail += rp["spec_fail"]
        corr_fail += rp["corr_fail"]
        proof_problems += rp["problems"]

        # labels at pad bytes: on lines that open a construct (macro call, REPT, IRP, IRPN, IRPC, WHILE) / alone before them, on
        # targets with automatic word alignment; Motorola-style reservations with several operands, inside and outside
        # STRUCT/UNION: vlib/props/c10_lab.py, driver mode c10l
        lp = c10_lab.run_part(args, bdir, wd, ok)
        spec_fail += lp["spec_fail"]
        corr_fail += lp["corr_fail"]
        proof_problems += lp["problems"]

    res.coverage = common.proof_coverage(audit, "C10", [
        "translate/tables.py gen_segparams (segment parameters of SwitchTo_51/SwitchTo_3202x via clang AST, widths/error numbers via compiled dumper)",
        "correspondence: real asl vs Model/Addr.lean on generated programs (differential test); ORG flavour self-calibrated by a probe",
        "symbol naming (separator `_` / `.` of BuildStructName) is part of the harness (sym_name), not of the Lean model: the model identifies a symbol by the list of enclosing named structures",
        "Spec/AddrSpec.lean: my reading of doc/pseudo-instructions.md",
        "reservation part: Spec/AddrRes.lean = my reading of the section DN,DB,DW,DD,DQ,DT (element count, DUP multiplies, packing into address units); "
        "the unit sizes of the segments handed to the spec are those of the targets' documentation (table RT in c10_res.py), the model takes Grans[] from "
        "Generated/ListParams.lean; correspondence: real asl vs Model/AddrRes.lean (DecodeIntelDx transcription of Model/DataExt.lean)",
        "label part: Spec/AddrLab.lean = my reading of the sections PADDING (the label of the padded line points behind the pad byte; so does the label of the "
        "label-only line immediately before it while it is the most recent label, i.e. when the padded line has no label of its own - tests/t_padding label5..label8), MACRO/IRP/IRPN/IRPC/REPT/WHILE (a construct is replaced by its expansion), DC/DS/BYT/FCB/ADR/FDB/DFS/RMB (operands x "
        "repeat factor x element size; Spec/Data.lean of C09) and Structures; which statements of a target are word-sized objects and the byte order of its "
        "data words are those of the targets' documentation (tables CT/MT in c10_lab.py); the encodings of the 2-byte machine instructions used as objects "
        "and the PADDING default of each target are read from the binary under test (calibration); correspondence: real asl vs Model/AddrLab.lean "
        "(Produce_Code label part with the ResetLastLabel rule, LabelHandle/LabelModify/LabelReset, InsertPadding, Model/Data.lean modelStmt); "
        "the flag `fixStruct` of the model is set by a probe"])
    res.coverage.update(
        evaluations=agg["programs"] + rp["evaluations"] + lp["evaluations"], distinct_nontrivial=len(distinct) + len(rp["distinct"]) + len(lp["distinct"]),
        rule="random interleavings (6..61 statements) of ORG/RORG/ALIGN[,fill]/DS/DB/SEGMENT/CPU/PHASE/DEPHASE/SAVE/RESTORE/LISTING/STRUCT/UNION/ENDSTRUCT with labels on "
             "8051 (byte granular, 5 segments) and 320C25 (word granular, 3 segments); after every statement $, MOMCPU, LISTON, MOMSEGMENT and the symbols it defines "
             "are read back; 30% of the sources have no CPU statement (target from `asl -cpu`), counter-setting statements (ORG/RORG/ALIGN/PHASE) are followed "
             "directly by SEGMENT <other> … SEGMENT <back> or CPU and then labelled code (at the very start of such sources and inside programs); every 5th program is structure-centred (nested STRUCT/UNION up to depth 3, named and nameless, DS/RES/`DB ?` fields, ALIGN/ORG/RORG "
             "inside, SAVE/RESTORE around and inside, a quarter of them under DOTTEDSTRUCTS ON); non-trivial = at least 8 statements of at least 4 different kinds; "
             "distinct by statement list; plus (reservation part, c10_res.py) programs of 5..25 labelled DN/DB/DW/DD/DQ statements - pure reservations made of loose `?` and "
             "nested `n DUP (...)` groups that start and end anywhere inside an address unit, constant statements as markers, a few refused mixtures - interleaved with "
             "ORG/RORG/SEGMENT/label-only lines on AVR (CODE 16-bit units, DATA/EEDATA bytes), KCPSM (16-bit, big endian), KCPSM3 and Mico8 (32-bit units), Z80, 8051, 8086 "
             "(DN: two nibbles per byte); the counter symbol, MOMSEGMENT and the statement's label are read back after every statement; non-trivial there = at least "
             "one reservation whose DUP group starts inside an address unit; plus (label part, c10_lab.py) construct programs - 3..8 groups of [bytes to reach an odd address] "
             "[label on the line / alone on the line before / two label-only lines / none] [macro call | REPT | IRP | IRPN | IRPC | WHILE with 0..3 iterations, nested to depth 3, first "
             "body statement word-sized, byte-sized, placing nothing, labelled, or another construct | plain statement] on 68000 (PADDING ON by default), MSP430, TMS9900, AVR with "
             "8-bit code segment, with PADDING ON/OFF switches, PHASE/DEPHASE blocks and ORG to odd addresses - and reservation programs - 6..21 labelled BYT/FCB/BYTE/DB, "
             "ADR/FDB/DW, DC.B/W/L statements with 1..5 operands `?` / `[n]?` (n = 0..9), constants as markers, refused mixtures, DS.x / RMB / DFS, label-only lines, ORG, "
             "STRUCT and UNION bodies made of such reservations, PADDING ON where available, on 6809, 6800, 68HC11, 68HC08, 68HC12, 6502, 65C02, 68000; every symbol, the program "
             "counter, the error lines and the code file are read back at the end of the program; non-trivial there = a construct program in which a label on / before a "
             "construct line was moved behind a pad byte, resp. a reservation program judged to its end",
        samples=samples + rp["samples"] + lp["samples"], distribution=dict(statement_kinds=dist, structure_bodies=sagg,
                                                         label_part=dict(dict(lp["agg"]), targets_and_stops=dict(lp["dist"]), construct_generator=dict(lp["stats"]),
                                                                         reservation_generator=dict(lp["mstats"]), calibration=lp.get("calibration")),
                                                         reservation_part=dict(dict(rp["agg"]), targets_and_stops=dict(rp["dist"]), generator=dict(rp["stats"])), **agg), org_flavour_probe=dict(org_is_load_address=org_load, dollar=probe_val, align_zero_error_number=align_zero_err))
    res.assumptions = ["segment sizes/initial values of the spec are the ORG table of the manual (MCS-51, 320C2x); the initial value 30h of the MCS-51 DATA segment is taken from the implementation (the table lists none)",
                       "MESSAGE lines inserted after every statement do not change the counters (they are statements with CodeLen = 0)"]
    return common.conclude(res, proof_problems, spec_fail, corr_fail, agg["programs"] + rp["evaluations"] + lp["evaluations"])


def replay(args):
    d = json.load(open(args.replay))
    print(json.dumps({k: (v if len(str(v)) < 3000 else str(v)[:3000] + "...") for k, v in d.items()}, indent=1))
    if "source" in d:
        bdir = common.repo_build("hooks")
        with common.Workdir("c10r") as wd:
            f = os.path.join(wd, "r.asm")
            open(f, "w").write(d["source"])
            rc, so, se = common.run_tool(bdir, "asl", ["-q", "-n", f, "-o", os.path.join(wd, "r.p")], wd)
            print("asl rc =", rc)
            print(so.decode(errors="replace")[-3000:])
            print(se.decode(errors="replace")[-1500:])
        if "request" in d:
            print(common.driver(d.get("mode", "c10"), [d["request"]])[0])
    return 0
