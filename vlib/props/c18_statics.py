"""C18, widened reset inventory: all persistent statics of the code generators (translate/statics.py -> Generated/GenStatics.lean,
Props/C18_Statics.lean).  Called from c18.py.

* evidence: rows per class / per classification rule, the persistent rows without a reset, the exception list with its justifications;
* the exception list of Props/C18_Statics.lean and the table EXCEPTIONS below must name the same variables;
* every exception with an experiment is run on the real assembler: `asl a b` against `asl a`, `asl b`, and (where given) one forced
  further pass over a single file.  kind "a"/"b": the runs must agree; kind "c" (a genuine leak): a difference is reported with the
  signature `static-not-reset:<file>:<var>` (known finding), no difference means the defect has been repaired;
* for every persistent row for which an instruction that writes the variable is known (instruction names registered with AddInstTable
  for a callback that may write it) a setter file is built from a line of a golden test that uses such an instruction, and run in front of
  golden tests of the same target, like the ASSUME/ON-OFF setter pairs of c18.py.
"""
import os
import re

from .. import common

# (file, variable) -> kind, why, experiment.  Lines are written without the leading tab.
#   a  behavioural experiment shows no influence (and the argument why)
#   b  harmless by construction of the code
#   c  genuine leak: known finding static-not-reset:<file>:<var>
EXCEPTIONS = {
    # ---------------------------------------------------------------- (c) findings
    ("codez80.c", "CurrPrefix"): dict(kind="c", why="Z380 DDIR: CurrPrefix is copied to LastPrefix and cleared by MakeCode_Z80 only after the early return for an empty "
        "statement; neither SwitchTo_Z80 nor InitCode_Z80 assigns it, so a DDIR that is the last statement of a file/pass is applied to the first instruction of the next",
        cpu="z380", pred=["ddir ib"], succ=["ld hl,(ix+1234h)"], single=["ld hl,(ix+1234h)", "ddir ib"]),
    ("codehmcs400.c", "AdrMode"): dict(kind="c", why="HMCS400 DecodeAdr never sets AdrMode = ModNone on entry: when the operand expression fails to evaluate, the mode of the "
        "previous operand / previous statement / previous file is used",
        cpu="hd614023", pred=["ld m,b"], succ=["ld a,#("]),
    ("code3206x.c", "UnitFlag"): dict(kind="c", why="TMS320C6x DecodeZERO calls IsCross(), which reads UnitFlag, before any unit has been decided for the statement; "
        "UnitFlag is reset neither per pass nor by SwitchTo_3206X",
        cpu="32060", pred=["mvk 1,b1"], succ=["zero a5"], single=["zero a5", "mvk 1,b1"]),
    ("code3254x.c", "OpSize"): dict(kind="c", why="TMS320C54x DecodeAdr evaluates `#` operands with the integer type OpSize, which several handlers (STM ...) do not set: "
        "the range check uses the type left by an earlier instruction (a fresh process has UInt1)",
        cpu="320c541", pred=["rpt #5"], succ=["stm #1234h,6eh"]),
    ("code7700.c", "WordSize"): dict(kind="c", why="MELPS7700/65816 DecodeAdr reads WordSize for a `#` operand; handlers whose mask has no immediate mode do not set it, so the "
        "diagnostic of an immediate operand there depends on an earlier instruction",
        cpu="65816", pred=["pea $1234"], succ=["inc #300", "nop"]),
    ("code90c141.c", "MinOneIs0"): dict(kind="c", why="TLCS-90 MinOneIs0 is set by DecodeLD and never cleared (MakeCode_90C141 resets only OpSize): the diagnostic of an immediate "
        "operand without size changes after any LD",
        cpu="90c141", pred=["ld (1234h),a"], succ=["add 5,a", "nop"]),
    ("codexa.c", "OpSize"): dict(kind="c", why="XA InternSymbol_XA decodes register names with DecodeRegCore, which reads OpSize, also in statements that never reach MakeCode_XA "
        "(EQU, SET, IF): the size attribute of the last instruction before END decides whether `R0` is a byte/word register or a pair",
        cpu="xag3", pred=["nop.d", "end"], succ=["y\tequ\tr0", "\tasl\ty,#1"], single=["y\tequ\tr0", "\tasl\ty,#1", "\tnop.d", "\tend"], raw=True),
    ("codez8.c", "AdrVal"): dict(kind="c", why="Z8 DecodeAdr: for `!addr` outside the working-register page AdrType = ModWReg although AdrVal was last written from an "
        "uninitialised local (RegDescr) - the register number in the code depends on what was assembled before",
        cpu="z8601", pred=["ld 0a5h,#0a5h"], succ=["ld !20h,#1"], single=["ld !20h,#1", "ld 0a5h,#0a5h"]),
    ("codefmc8.c", "OpSize"): dict(kind="c", why="F2MC8 DecodeAdr reads OpSize for `#` operands; DecodeCMP accepts an immediate without setting it and MakeCode_F2MC8 does not reset "
        "it: `cmp a,#12h` is 2 bytes, after a MOVW 3 bytes",
        cpu="mb89190", pred=["movw a,#1234h"], succ=["cmp a,#12h"], single=["cmp a,#12h", "movw a,#1234h"]),
    ("codeh8_3.c", "AdrMode"): dict(kind="c", why="H8/300 DecodeBit2: when the bit position does not evaluate, control falls into `switch (AdrMode)` with the mode of the previous "
        "statement; DecideAbsolute leaves AdrMode unchanged when the expression fails",
        cpu="h8/300", pred=["bset #1,@r3"], succ=["bset #9,r0l", "message \"pc=\\{*}\""]),
    ("codeh8_3.c", "AdrVals"): dict(kind="c", why="H8/300 DecodeBitArg2 builds a bit symbol from AdrVals[0] although DecideAbsolute wrote nothing (failed expression, stale ModAbs8)",
        cpu="h8/300", pred=["bset #1,@$ff10"], succ=["x\tbit\t#3,1/0", "\tmessage \"x=\\{x}\""], raw=True),
    ("codeh8_3.c", "MomSize"): dict(kind="c", why="H8/300 DecodeBitArg2 calls DecideAbsolute without the MomSize reset DecodeAdr performs: after a 16-bit absolute operand the BIT "
        "symbol is silently not defined",
        cpu="h8/300", pred=["mov.b @$1234,r0l"], succ=["x\tbit\t#3,$ff10", "\tifdef\tx", "\tnop", "\tendif"], raw=True),
    ("codeol40.c", "AdrMode"): dict(kind="c", why="OLMS-40 DecodeAdr has no reset of AdrMode on entry (same shape as codehmcs400.c): a failed operand expression uses the mode of the "
        "previous statement / file", cpu="msm5840", pred=["ld a,#1"], succ=["inc ("]),
    # ---------------------------------------------------------------- (a) experiment + argument
    ("codem16.c", "AdrVals"): dict(kind="a", why="AdrVals[i][k] is only read for k < AdrCnt1[i]/2 after a successful DecodeAdr of the same statement; AdrCnt1[i] is zeroed on entry and "
        "grows only together with the stores", cpu="m16", pred=["mov.b #55h,@@(r1*8,r2*4,r3*2,87654321h).b"], succ=["mov r1,r2", "mov #1,@r3", "mov.w #1234h,@(5,r2)"]),
    ("codem16.c", "OpSize"): dict(kind="a", why="MakeCode_M16 sets OpSize[1..ArgCnt] = unknown before every statement and every decoder reads OpSize[i] only for i <= its argument count "
        "after GetOpSize(.., i)", cpu="m16", pred=["mov.b #55h,@@(r1*8,r2*4,r3*2,87654321h).b"], succ=["qins @r1,@r2", "qdel @r1,r2"]),
    ("codes12z.c", "OpSize2"): dict(kind="a", why="DecodeAttrPart_S12Z assigns OpSize2 unconditionally on its first line and as.c calls DecodeAttrPart() before every MakeCode()",
        cpu="s912zvh128f2clq", pred=["divs.bw d7,(100,x),(16,s)"], succ=["divs.b d7,(100,x),(16,s)"]),
    ("codetms7.c", "AdrVals"): dict(kind="a", why="every read is in a case of `switch (AdrType)`; DecodeAdr resets AdrType on entry and sets each mode only together with the bytes it needs",
        cpu="tms70c08", pred=["movd %1234h,5", "mov %77h,9"], succ=["cmp a,b", "mov a,b", "tsta", "mov a,7", "cmpa @1234h", "movd %1234h(b),7"]),
    ("code166.c", "MemPage"): dict(kind="a", why="only read under MemMode == FixedPage/FixedBank; every assignment of those modes is followed by a write of MemPage; MemMode is reset "
        "by InitCode_166", cpu="80c167", pred=["extp #5,#4"], succ=["mov r0,14000h", "mov r0,4000h"], single=["mov r0,14000h", "extp #5,#4"]),
    ("code3203x.c", "PrevARs"): dict(kind="a", why="only read inside `if (ThisPar)`; MakeCode rejects ThisPar && !NextPar; SwitchTo_3203X clears NextPar and the only NextPar = True "
        "follows the writes of PrevOp/PrevARs/PrevGenInfo", cpu="320c30", pred=["ldf *ar1,r1"], succ=["||\tldf *ar2,r2", "\tnop"], raw=True),
    ("code3203x.c", "PrevGenInfo"): dict(kind="a", why="as PrevARs (guard ThisPar/NextPar)", cpu="320c30", pred=["ldf *ar1,r1"], succ=["||\tldf *ar2,r2", "\tnop"], raw=True),
    ("code3203x.c", "PrevOp"): dict(kind="a", why="as PrevARs (guard ThisPar/NextPar)", cpu="320c30", pred=["ldf *ar1,r1"], succ=["||\tldf *ar2,r2", "\tnop"], raw=True),
    ("code3206x.c", "ThisInst"): dict(kind="a", why="only read after DecodeInst() returned True; every `erg = True` is preceded by an assignment of ThisInst",
        cpu="32060", pred=["mvk 1,b1"], succ=["nop", "mvk 2,a3"]),
    ("code6812.c", "ActReg"): dict(kind="a", why="only read right of `LookupInstTable(RegTable, Reg) &&`; every RegTable entry runs LookupReg, which assigns ActReg",
        cpu="68hc12x", pred=["tfr xh,a"], succ=["tfr foo,b", "tfr a,b", "leax b,x", "sex a,d"]),
    ("code7000.c", "DelayedAdr"): dict(kind="a", why="only read inside `if (PrevDelayed)`; PrevDelayed is a copy of CurrDelayed, both cleared by SwitchTo_7000; every CurrDelayed = True "
        "comes with an assignment of DelayedAdr", cpu="sh7000", pred=["org $1000", "bra $2000"], succ=["org $100", "mov.l $120,r1", "mov.w $110,r2", "nop", "bra $300"]),
    ("code86.c", "AdrMode"): dict(kind="a", why="every read is in a branch selected by AdrType, which DecodeAdr sets to TypeNone on entry and to another value only together with AdrMode",
        cpu="8086", pred=["mov ax,es:[bp+di+1234h]"], succ=["mov ax,[bx+si]", "mov ax,[bx]", "inc word ptr [1234h]", "jmp 5", "inc 5", "mov ax,[bx+bx]"]),
    ("code86.c", "Prefixes"): dict(kind="a", why="Prefixes[i] is only read for i < PrefixLen; MakeCode_86 sets PrefixLen = 0 for every statement",
        cpu="8086", pred=["mov ax,es:[bp+di+1234h]"], succ=["mov ax,[bx+si]", "mov ax,[bx]", "nop"]),
    ("code96c141.c", "AdrMode"): dict(kind="a", why="reads are in branches selected by AdrType (set together with AdrMode) or, in DecodeCPxx, after OK was established by paths that "
        "store AdrMode", cpu="96c141", pred=["maxmode on", "ld a,(123456h)"], succ=["cpi", "cpi a,(xbc+)", "mul xwa,5", "jp 1234h", "cpi a,(5+)", "ld 5,a"]),
    ("code97c241.c", "Format"): dict(kind="a", why="assigned on every path of DecodeAttrPart_97C241, which as.c calls directly before every MakeCode()",
        cpu="97c241", pred=["add.w:g rw4,rw7"], succ=["add.w rw4,rw7", "add.w rw14,3", "add rw1,rw2", "nop"]),
    ("code97c241.c", "Prefs"): dict(kind="a", why="Prefs[i] is only read under PrefUsed[i], which MakeCode_97C241 clears for every statement and which is set only together with Prefs[i]",
        cpu="97c241", pred=["add.w:g (rw4+12345h),(10028h)"], succ=["add.w:g (rw4+12h),(28h)", "add.w rw4,rw7", "nop"]),
    ("codeace.c", "AdrVal"): dict(kind="a", why="read only under AdrMode in {Imm, Dir, XDisp} set by the DecodeAdr call of the same statement (which starts with AdrMode = ModNone) on paths "
        "that assign AdrVal", cpu="ace1202", pred=["ld a,[x,55h]"], succ=["ld a,[x]", "st a,[x]", "jmp 0812h", "add a,[x]", "jsr [x,5]"]),
    ("codeavr.c", "WordAcc"): dict(kind="a", why="only read under WordAccFull, which DecodeDATA_AVR clears before its loop and PlaceValue sets right after WordAcc = Value",
        cpu="atmega8", pred=["packing on", "data 0x11,0x22,0x33"], succ=["data \"a\"", "packing on", "data \"a\"", "data \"abc\",7,8"]),
    ("codefmc16.c", "CurrBank"): dict(kind="a", why="assigned by MakeCode_F2MC16 for every statement before LookupInstTable (switch over NextDataSeg, which only takes the values 0..3)",
        cpu="mb90500", pred=["assume adb:5", "adb", "mov a,51234h"], succ=["mov a,51234h", "mov a,1234h"]),
    ("codeh16.c", "FormatPart"): dict(kind="a", why="assigned on all paths of DecodeAttrPart_H16, which as.c calls directly before every MakeCode()",
        cpu="hd641016", pred=["mov:rq.l #3,r13"], succ=["mov.l #3,r13", "mov r5,r12", "nop", "mov.l #13,r13"]),
    ("codexa.c", "AdrPart"): dict(kind="a", why="every read is behind a test of AdrMode/MemPart, which DecodeAdr resets on entry and sets only after writing AdrPart",
        cpu="xag3", pred=["mov.b 3a5h,#5ah", "end"], succ=["movx.b [r1],#1", "push.w r1", "lea r0,[r1+2]", "call [5]", "xch.b 5,#1"]),
    ("codexa.c", "AdrVals"): dict(kind="a", why="AdrVals[0..AdrCnt-1] are only read under AdrMode Imm/Mem set in the same statement; DecodeAdr zeroes AdrCnt on entry",
        cpu="xag3", pred=["mov.b 3a5h,#5ah", "end"], succ=["movx.b [r1],#1", "mov.b r0l,#5", "adds.b #1,#1"]),
    # ---------------------------------------------------------------- (b) harmless by construction
    ("codeh16.c", "DecodeAttrPart_H16::EmptyStr"): dict(kind="b", why="the array is \"\" and never modified: it is only handed to StrCompMkTemp as the (empty) text of FormatPart/SizePart"),
    ("codexcore.c", "lr2r_Orders"): dict(kind="b", why="written only by Add_lr2r, called from InitFields (run by every SwitchTo_XCore) with constant arguments; the analysis sees the "
        "InstrZ-indexed store as a statement-time write because Add_lr2r's address is not taken"),
    ("codeh8_3.c", "AdrPart"): dict(kind="b", why="the only stale read (DecodeBit2 fall-through after a failed bit position) changes opcode bits of a statement that has already reported an "
        "error: the code file is not written and diagnostics / exit status are the same; visible in the listing only",
        cpu="h8/300", pred=["bset #1,r5h"], succ=["bset #9,r0l", "message \"pc=\\{*}\""]),
}


def lean_exceptions():
    """the (file, var) pairs of `def exceptions` in Props/C18_Statics.lean"""
    p = os.path.join(common.LEAN_DIR, "AslModel", "Props", "C18_Statics.lean")
    src = common.strip_lean_comments(open(p).read())
    m = re.search(r"def exceptions\s*:[^\n]*:=\s*\[(.*?)\]", src, re.S)
    if not m:
        return None
    return set(re.findall(r'\("([^"]+)",\s*"([^"]+)"\)', m.group(1)))


def _lines(e, key):
    """source lines of an experiment: `cpu` + the lines, tab-indented; with raw=True the successor / single-file lines are taken verbatim"""
    ls = e[key]
    if not (e.get("raw") and key != "pred"):
        ls = ["\t" + l for l in ls]
    return ["\tcpu " + e["cpu"]] + list(ls)


def mine_setter_lines(tests, cpu_to_files, wanted):
    """lines of golden tests whose mnemonic is one of the instructions known to write a variable.
    wanted: {file: {MNEMONIC: [vars]}} -> {(file, var): [(cpu, line)]}"""
    out = {}
    for _name, asm, _fl in tests:
        try:
            txt = open(asm, "rb").read().decode("latin-1")
        except OSError:
            continue
        cur = None
        for raw in txt.split("\n"):
            line = raw.rstrip("\r")
            m = re.match(r"^\s+cpu\s+([A-Za-z0-9_./+-]+)", line, re.I)
            if m:
                cur = m.group(1).upper()
                continue
            if cur is None or cur not in cpu_to_files:
                continue
            if ";" in line:
                line = line.split(";")[0].rstrip()
            m = re.match(r"^(\S+:?\s+|\s+)([A-Za-z][A-Za-z0-9_/@|]*)(\.[A-Za-z0-9]+)?(\s+.*)?$", line)
            if not m:
                continue
            if not line[:1].isspace():
                continue    # a label may be referred to elsewhere; keep to unlabelled lines
            mn = m.group(2).upper()
            for f in cpu_to_files[cur]:
                for var in wanted.get(f, {}).get(mn, ()):
                    lst = out.setdefault((f, var), [])
                    if len(lst) < 40 and (cur, line) not in lst:
                        lst.append((cur, line))
    return out


def run(bdir, wd, args, rng, tests, alone, tmap, ok_names, cpu_idx, spec_fail, proof_problems, dist, distinct):
    """returns (evaluations, evidence dict)"""
    from . import c18 as C
    from translate import statics as S
    from translate import globals as G
    quick = args.tier == "quick"
    ev = {}
    evaluations = 0
    try:
        gens = S.joined_rows(bdir)
        sgens, _core = G.inventory(bdir)
    except S.ExtractError as ex:
        if not any("translator" in p for p in proof_problems):
            proof_problems.append("translator: " + str(ex))
        return 0, dict(error=str(ex))
    # the analyser must still give the specified answers on the synthetic generator (each classification rule on a known pattern)
    from translate import statics_selftest
    wrong = statics_selftest.run()
    ev["analyser_selftest"] = "ok: %d patterns" % len(statics_selftest.EXPECT) if not wrong else wrong
    if wrong:
        proof_problems.append("translator: translate/statics.py self-test fails: " + "; ".join(wrong)[:600])
    rows = [r for g in gens for r in g["rows"]]
    cls_count, rule_count = {}, {}
    for r in rows:
        cls_count[r["cls"]] = cls_count.get(r["cls"], 0) + 1
        if r["cls"] == "scratch":
            rule_count[r["rule"]] = rule_count.get(r["rule"], 0) + 1
    is_reset = lambda r: r["initPass"] or r["switchTo"] or r["corePass"] or r["coreCpu"]
    pers = [r for r in rows if r["cls"] == "persistent"]
    unreset = sorted((r["file"], r["var"]) for r in pers if not is_reset(r))
    ev.update(files=len(gens), rows=len(rows), per_class=cls_count, scratch_by_rule=rule_count,
              persistent_reset_per_pass=len([r for r in pers if r["initPass"] or r["corePass"]]),
              persistent_reset_per_cpu_switch_only=len([r for r in pers if not (r["initPass"] or r["corePass"]) and (r["switchTo"] or r["coreCpu"])]),
              persistent_not_reset=["%s:%s" % k for k in unreset],
              settable_rows_shared_with_GenState=len([r for r in rows if r["settable"]]))
    lean_ex = lean_exceptions()
    if lean_ex is None:
        proof_problems.append("C18_Statics: cannot read the exception list of Props/C18_Statics.lean")
        lean_ex = set()
    if lean_ex != set(EXCEPTIONS):
        proof_problems.append("C18_Statics: exception list of Props/C18_Statics.lean and justifications in c18_statics.py differ: only Lean %s, only Python %s"
                              % (sorted(lean_ex - set(EXCEPTIONS)), sorted(set(EXCEPTIONS) - lean_ex)))
    unjustified = [k for k in unreset if k not in lean_ex]
    if unjustified:
        # what `C18_statics_reset` (decide over the generated table) will reject, by name
        proof_problems.append("C18_statics_reset: persistent variable(s) of a code generator that no per-pass initialiser and no SwitchTo_* assigns and that are not "
                              "justified exceptions: " + ", ".join("%s:%s" % k for k in unjustified))
    ev["exceptions"] = {"%s:%s" % k: dict(kind=v["kind"], why=v["why"]) for k, v in sorted(EXCEPTIONS.items())}
    ev["exceptions_no_longer_needed"] = ["%s:%s" % k for k in sorted(EXCEPTIONS) if k not in unreset]

    # ---- experiments of the exception list
    n_exp = n_leak = 0
    for (f, var), e in sorted(EXCEPTIONS.items()):
        if "pred" not in e:
            continue
        sig = "static-not-reset:%s:%s" % (f, var)
        pl, sl = _lines(e, "pred"), _lines(e, "succ")
        sp = C.run_joint(bdir, wd, "x", [("a", pl)])
        ss = C.run_joint(bdir, wd, "x", [("b", sl)])
        if sp[0] not in (0, 2) or ss[0] not in (0, 2):
            proof_problems.append("C18_Statics: experiment of %s:%s ends abnormally (%s, %s)" % (f, var, sp[0], ss[0]))
            continue
        j = C.run_joint(bdir, wd, "x", [("a", pl), ("b", sl)])
        evaluations += 1
        n_exp += 1
        distinct.add("static-exp:%s:%s" % (f, var))
        d = C.compare_joint([(sp[0], sp[1], sp[2], sp[3][0]), (ss[0], ss[1], ss[2], ss[3][0])], (j[0], j[1], j[2], j[3]))
        if not d and e.get("single"):
            tl = _lines(e, "single")
            r0 = C.run_joint(bdir, wd, "x", [("s", tl)])
            r1 = C.run_joint(bdir, wd, "x", [("s", tl)], env={"ASL_VERIF_EXTRA_PASSES": "1"})
            evaluations += 1
            if C.norm_passes((r0[0], r0[1], r0[2], r0[3][0])) != C.norm_passes((r1[0], r1[1], r1[2], r1[3][0])):
                d = ["one forced further pass changes the result of the single file %r" % tl]
        if d:
            n_leak += 1
            spec_fail.append(dict(tag="static:%s:%s" % (f, var), sig=sig,
                                  why="state of a code generator survives into the next file (%s; %s): %s" % (var, e["why"][:160], d),
                                  sources=[("a", pl), ("b", sl)]))
            if e["kind"] != "c":
                ev.setdefault("exceptions_refuted", []).append("%s:%s" % (f, var))
    dist["static_exception_experiments"] = n_exp
    dist["static_exception_experiments_showing_a_leak"] = n_leak

    # ---- setter histories: an instruction known to write a persistent variable, in front of golden tests of the same target
    names_of = {g["file"]: [n.upper() for n in list(g["cpuNames"]) + list(g["cpuCandidates"])] for g in sgens}
    cpu_to_files = {}
    for f, ns in names_of.items():
        for n in ns:
            cpu_to_files.setdefault(n, set()).add(f)
    wanted = {}
    for r in pers:
        for mn in r["setters"]:
            wanted.setdefault(r["file"], {}).setdefault(mn.upper(), []).append(r["var"])
    mined = mine_setter_lines(tests, cpu_to_files, wanted)
    ev["persistent_rows_with_known_setter_instruction"] = len([r for r in pers if r["setters"]])
    ev["persistent_rows_with_setter_line_in_corpus"] = len(mined)
    accepted = {}
    pair_cache = {}
    n_pairs = n_vars = 0
    for (f, var) in sorted(mined):
        cands = list(mined[(f, var)])
        rng.shuffle(cands)
        got = []
        seen_mn = set()
        for cpu, line in cands[:12]:
            mn = line.split()[0].upper()
            if mn in seen_mn:
                continue
            key = (cpu, line)
            if key not in accepted:
                rc, out, pb = C._outcome(bdir, wd, "sl", ["\tcpu " + cpu, line])
                accepted[key] = (rc == 0 and b"error" not in out)
            if accepted[key]:
                got.append(key)
                seen_mn.add(mn)
            if len(got) >= (1 if quick else 3):
                break
        if not got:
            continue
        n_vars += 1
        for cpu, line in got:
            fam = sorted({n for c in names_of.get(f, ()) for n in cpu_idx.get(c, ()) if n in ok_names})
            own = [n for n in fam if n in cpu_idx.get(cpu, ())]
            fam = own + [n for n in fam if n not in own]
            for gn in fam[: (2 if quick else 8)]:
                ck = (cpu, line, gn)
                if ck not in pair_cache:
                    sf = os.path.join(wd, "sset.asm")
                    open(sf, "w").write("\tcpu %s\n%s\n" % (cpu, line))
                    sp = C.run_paths(bdir, wd, "ssets", [sf])
                    r = C.run_paths(bdir, wd, "ssetj", [sf, tmap[gn][1]])
                    evaluations += 1
                    n_pairs += 1
                    pair_cache[ck] = C.compare_joint([(sp[0], sp[1], sp[2], sp[3][0]), alone[gn]], r)
                distinct.add("static-setter:%s:%s:%s+%s" % (f, var, line.strip(), gn))
                d = pair_cache[ck]
                if d:
                    spec_fail.append(dict(tag="static-setter:%s:%s+%s" % (f, var, gn), sig="static-not-reset:%s:%s" % (f, var),
                                          why="`%s` at the end of a predecessor changes the result of %s: %s" % (line.strip(), gn, d),
                                          sources=[("a", ["\tcpu " + cpu, line])], successor=tmap[gn][1]))
    dist["static_setter_pairs"] = n_pairs
    dist["static_setter_vars"] = n_vars
    return evaluations, ev
