"""C01, part "EQU chains and termination" (Model/Pass2.lean, Spec/Pass2.lean, Props/C01_Term.lean, driver mode c01t).

Programs over labels, fillers, `name EQU expr` and uses of expressions (6502: `lda`/`adr`, 68000: `dc.w`/`dc.l`) are
assembled by the real asl under the pass cap of hook H1 and by the Lean model; compared are the exit status, the NUMBER
OF PASSES, the end address, every encoded operand and every final symbol value (B).  On the real output alone (C):
 * termination within the cap;
 * the accept/reject decision against the manual's textual rule (`Spec.Pass2.accepted`);
 * every defining equation and every emitted operand against the mathematical value of its expression under the
   symbol values the real assembler lists (`Spec.Pass2.holdsDef/holdsUse`), addresses taken from the real listing.
"""
import os
import re
from collections import Counter

from .. import common

PASS_CAP = 40
PASSES_RE = re.compile(rb"^\s*(\d+) pass(?:es)?\s*$", re.M)
LIST_LINE_RE = re.compile(r"^\s*(\d+)/\s*([0-9A-F]+) :")
SYM_RE = re.compile(r"^\s*\*?(SY\d+) :\s+([0-9A-F]+) [-A-Z]\s*$")


# ---------------------------------------------------------------- expressions (left-deep: no parentheses needed)
def expr_text(e):
    """e = list of atoms/operators in left-deep infix order: [atom, op, atom, op, atom ...]"""
    out = []
    for t in e:
        if t[0] == "c":
            out.append(str(t[1]))
        elif t[0] == "s":
            out.append("sy%d" % t[1])
        elif t[0] == "p":
            out.append("*")
        else:
            out.append(t[0])
    return "".join(out)


def expr_rpn(e):
    def atom(t):
        return "c%d" % t[1] if t[0] == "c" else ("s%d" % t[1] if t[0] == "s" else "p")
    out = [atom(e[0])]
    i = 1
    while i < len(e):
        out.append(atom(e[i + 1]))
        out.append(e[i][0])
        i += 2
    return ",".join(out)


def expr_syms(e):
    return [t[1] for t in e if t[0] == "s"]


def gen_expr(rng, syms, allow_pc=True, big=False):
    """random left-deep expression over the given symbol ids"""
    def atom(first):
        r = rng.random()
        if syms and r < 0.62:
            return ("s", rng.choice(syms))
        if allow_pc and r < 0.74:
            return ("p",)
        if big and first and rng.random() < 0.3:
            return ("c", rng.choice([0x10000, 0x12345, 0x7fff0000, 0x00fffffe]))
        return ("c", rng.choice([0, 1, 2, 3, 5, 16, 100, 200, 250, 254, 255, 256, 257, 300, 1000]))
    e = [atom(True)]
    n = rng.choice([0, 0, 1, 1, 1, 2, 3])
    for _ in range(n):
        op = rng.choice("+++-")
        e.append((op,))
        a = atom(False)
        if (a[0] == "c" and a[1] > 300) or (op == "-" and rng.random() < 0.75):
            a = ("c", rng.choice([1, 2, 4, 7]))     # mostly small subtrahends: operands stay non-negative
        e.append(a)
    return e


# ---------------------------------------------------------------- programs
class Prog:
    """items: ('L', n) | ('S', k) | ('E', n, expr) | ('R', kind, expr)"""

    def __init__(self, flavour, family):
        self.flavour = flavour
        self.family = family
        self.items = []

    def tokens(self):
        out = []
        for it in self.items:
            if it[0] == "L":
                out.append("L%d" % it[1])
            elif it[0] == "S":
                out.append("S%d" % it[1])
            elif it[0] == "E":
                out.append("E%d=%s" % (it[1], expr_rpn(it[2])))
            else:
                out.append("R%s=%s" % (it[1], expr_rpn(it[2])))
        return out

    def render(self):
        """source text and, per item, the 1-based line number of its (first) line"""
        f6502 = self.flavour == "6502"
        lines = ["\tcpu %s" % ("6502" if f6502 else "68000")]
        where = []
        for it in self.items:
            where.append(len(lines) + 1)
            if it[0] == "L":
                lines.append("sy%d:" % it[1])
            elif it[0] == "S":
                k = it[1]
                while k > 0:
                    c = min(k, 60)
                    lines.append("\t%s %s" % ("byt" if f6502 else "dc.b", ",".join(str((7 * j + c) % 251) for j in range(c))))
                    k -= c
            elif it[0] == "E":
                lines.append("sy%d\tequ\t%s" % (it[1], expr_text(it[2])))
            else:
                mnem = {"zp": "lda", "w2": "adr" if f6502 else "dc.w", "l4": "dc.l"}[it[1]]
                lines.append("\t%s\t%s" % (mnem, expr_text(it[2])))
        return "\n".join(lines) + "\n", where

    def nontrivial(self):
        return any(it[0] == "E" and expr_syms(it[2]) for it in self.items)


def kinds_of(flavour):
    return ["zp", "zp", "w2"] if flavour == "6502" else ["w2", "l4", "l4"]


def filler(rng, flavour):
    k = rng.choice([1, 2, 3, 4, 6, 10, 60, 100, 120, 126, 200, 250, 252, 253, 254, 255, 256, 300])
    if flavour != "6502":
        k += k % 2
    return ("S", k)


def symbol_table_refs(p, ids):
    """a use of every symbol at the end: makes every final symbol value visible in the code"""
    kind = "w2" if p.flavour == "6502" else "l4"
    for n in ids:
        p.items.append(("R", kind, [("s", n)]))


def gen_chain(rng, flavour, length, order):
    """sy0 equ sy1 (+k) / ... / sy<length> equ <tail>; order: fwd (as written), bwd (reversed: no forward
    reference), stair (every link after the link it depends on, the tail last)"""
    p = Prog(flavour, "chain-" + order)
    p.chain_len = length
    links = []
    for i in range(length):
        e = [("s", i + 1)]
        if rng.random() < 0.5:
            e += [(rng.choice("+-"),), ("c", rng.choice([1, 2, 3, 10]))]
        links.append(("E", i, e))
    tailkind = rng.choice(["const", "pc", "label"])
    lab = length + 1
    if tailkind == "const":
        tail = ("E", length, [("c", rng.choice([5, 200, 255, 256, 1000]))])
    elif tailkind == "pc":
        tail = ("E", length, [("p",), ("+",), ("c", rng.choice([40, 250, 300]))])
    else:
        tail = ("E", length, [("s", lab), ("+",), ("c", rng.choice([30, 100]))])
    pre = [filler(rng, flavour)] if rng.random() < 0.7 else []
    uses_at = rng.choice(["begin", "end", "both"])
    use = ("R", rng.choice(kinds_of(flavour)), [("s", 0)])
    if order == "fwd":
        body = links + [tail]
    elif order == "bwd":
        body = [tail] + links[::-1]
    else:
        body = links[::-1] + [tail]
    items = list(pre)
    if uses_at in ("begin", "both") and rng.random() < 0.5:
        items.append(use)
    items += body
    if uses_at in ("end", "both"):
        items.append(use)
    if tailkind == "label":
        # the label the tail refers to: before everything (backward) or behind everything (forward)
        if rng.random() < 0.5:
            items = [("L", lab)] + items
        else:
            items += [filler(rng, flavour), ("L", lab)]
    p.items = items
    symbol_table_refs(p, list(range(length + 1)))
    return p


def gen_mixed(rng, flavour):
    p = Prog(flavour, "mixed")
    nsym = rng.randrange(2, 9)
    ids = list(range(1, nsym + 1))
    is_label = {n: rng.random() < 0.45 for n in ids}
    order = ids[:]
    rng.shuffle(order)
    fwd_bias = rng.choice([0.0, 0.15, 0.4, 0.8])
    defined = []
    pending = order[:]
    items = [filler(rng, flavour)] if rng.random() < 0.6 else []
    big = flavour != "6502" and rng.random() < 0.3
    p.big = big
    kinds = ["l4"] if big else kinds_of(flavour)
    while pending:
        r = rng.random()
        if r < 0.45:
            n = pending.pop(0)
            if is_label[n]:
                items.append(("L", n))
            else:
                pool = defined if (rng.random() >= fwd_bias or not pending) else pending
                pool = pool or defined or pending
                e = gen_expr(rng, [rng.choice(pool) for _ in range(3)] if pool else [], big=big)
                items.append(("E", n, e))
            defined.append(n)
        elif r < 0.75:
            pool = defined if (rng.random() >= fwd_bias or not pending) else pending
            pool = pool or defined or pending
            e = gen_expr(rng, [rng.choice(pool)], allow_pc=rng.random() < 0.3, big=False)
            items.append(("R", rng.choice(kinds), e))
        else:
            items.append(filler(rng, flavour))
    p.items = items
    symbol_table_refs(p, ids)
    return p


def gen_osc(rng):
    """operands that fall with a rising label: `lda K - lab` around the zero-page limit"""
    p = Prog("6502", "antitone")
    pre = rng.choice([0, 0, 1, 2, 5, 100])
    k = 256 + pre + rng.choice([0, 1, 2, 2, 2, 3, 3, 4, 5, 6])
    items = [("S", pre)] if pre else []
    via_equ = rng.random() < 0.5
    e = [("c", k), ("-",), ("s", 1)]
    if via_equ:
        if rng.random() < 0.5:
            items += [("E", 2, e), ("R", "zp", [("s", 2)])]
        else:
            items += [("R", "zp", [("s", 2)]), ("E", 2, e)]
    else:
        items.append(("R", "zp", e))
    if rng.random() < 0.4:
        items.append(("S", rng.choice([1, 2, 3])))
    items.append(("L", 1))
    p.items = items
    return p


def gen_threshold(rng):
    """zero-page/absolute choices that depend on EQU symbols that depend on labels behind the instructions: the shape that
    needs three and more passes"""
    p = Prog("6502", "threshold")
    pre = rng.choice([0, 0, 1, 2, 3, 4])
    items = [("S", pre)] if pre else []
    nref = rng.randrange(1, 5)
    # sy1 = label behind the block, sy2 = sy1 +- k (forward EQU), sy3 = sy2 +- k (backward link), sy4 = *+k behind the block
    defs_first = rng.random() < 0.6
    equs = [("E", 2, [("s", rng.choice([1, 4])), (rng.choice("+-"),), ("c", rng.choice([0, 1, 2, 3]))]),
            ("E", 3, [("s", 2), (rng.choice("+-"),), ("c", rng.choice([0, 1, 2]))])]
    if defs_first:
        items += equs
    for _ in range(nref):
        items.append(("R", "zp", [("s", rng.choice([2, 3] if defs_first else [1, 4]))]))
    if not defs_first:
        items += equs
    fill = 256 - pre - 2 * nref - rng.choice([0, 1, 2, 3, 4, 5, 6, 8])
    items.append(("S", max(fill, 1)))
    if rng.random() < 0.5:
        items += [("L", 1), ("E", 4, [("p",), ("+",), ("c", rng.choice([0, 1, 2]))])]
    else:
        items += [("E", 4, [("p",), ("+",), ("c", rng.choice([0, 1, 2]))]), ("S", rng.choice([1, 2])), ("L", 1)]
    p.items = items
    symbol_table_refs(p, [1, 2, 3, 4])
    return p


FIXED = [
    # (name, flavour, items) - the programs of the theorems and of the manual
    ("oscillation (C01_oscillation_example)", "6502", [("R", "zp", [("c", 258), ("-",), ("s", 1)]), ("L", 1)]),
    ("manual: forward-referenced forward EQU", "68000", [("R", "l4", [("s", 2)]), ("E", 2, [("s", 1), ("+",), ("c", 5)]), ("E", 1, [("c", 0)])]),
    ("chain 0", "6502", [("E", 0, [("c", 5)]), ("R", "w2", [("s", 0)])]),
    ("chain 1", "6502", [("E", 0, [("s", 1)]), ("E", 1, [("c", 5)]), ("R", "w2", [("s", 0)])]),
    ("chain 2", "6502", [("E", 0, [("s", 1)]), ("E", 1, [("s", 2)]), ("E", 2, [("c", 5)]), ("R", "w2", [("s", 0)])]),
    ("stair 3", "6502", [("E", 2, [("s", 3)]), ("E", 1, [("s", 2)]), ("E", 0, [("s", 1)]), ("E", 3, [("c", 5)]), ("R", "w2", [("s", 0)])]),
    ("four passes (Props example)", "6502", [("E", 2, [("s", 1), ("+",), ("c", 1)]), ("R", "zp", [("s", 2)]), ("S", 252),
                                            ("E", 1, [("p",), ("+",), ("c", 2)]), ("L", 3)]),
]


# ---------------------------------------------------------------- real side
def parse_listing(text):
    """(line number -> address, symbol name -> value, end address)"""
    addr = {}
    syms = {}
    last = None
    for line in text.split("\n"):
        m = LIST_LINE_RE.match(line)
        if m:
            ln = int(m.group(1))
            if ln not in addr:
                addr[ln] = int(m.group(2), 16)
            last = int(m.group(2), 16)
            continue
        if "|" in line and " : " in line:
            for cell in line.split("|"):
                m = SYM_RE.match(cell)
                if m:
                    v = int(m.group(2), 16)
                    if v >= 1 << 63:
                        v -= 1 << 64
                    syms[m.group(1)] = v
    return addr, syms, last


def image_of(pdata):
    items = common.parse_pfile_py(pdata)
    if items is None:
        return None
    img = {}
    for it in items:
        if it[0] == "D":
            _, cpu, seg, gran, start, data = it
            for i, b in enumerate(data):
                img[start * gran + i] = b
    return img


def decode_use(img, a, kind, flavour):
    g = lambda k: img.get(a + k)
    if kind == "zp":
        if g(0) == 0xA5 and g(1) is not None:
            return g(1)
        if g(0) == 0xAD and None not in (g(1), g(2)):
            return g(1) | (g(2) << 8)
        return None
    if kind == "w2":
        if None in (g(0), g(1)):
            return None
        return (g(0) | (g(1) << 8)) if flavour == "6502" else ((g(0) << 8) | g(1))
    if None in (g(0), g(1), g(2), g(3)):
        return None
    return (g(0) << 24) | (g(1) << 16) | (g(2) << 8) | g(3)


def assemble_real(bdir, wd, tag, text):
    f = os.path.join(wd, tag + ".asm")
    open(f, "w").write(text)
    pf = os.path.join(wd, tag + ".p")
    lf = os.path.join(wd, tag + ".lst")
    rc, so, se = common.run_tool(bdir, "asl", ["-L", f, "-o", pf], wd, env={"ASL_VERIF_MAX_PASSES": str(PASS_CAP)}, timeout=60)
    real = dict(rc=rc, passes=None, img=None, listing=None, msg=(se or b"")[-300:].decode(errors="replace"))
    m = PASSES_RE.search(so or b"")
    if m:
        real["passes"] = int(m.group(1))
    if rc == 0 and os.path.exists(pf):
        real["img"] = image_of(open(pf, "rb").read())
    if rc == 0 and os.path.exists(lf):
        real["listing"] = parse_listing(open(lf, errors="replace").read())
    for x in (f, pf, lf):
        if os.path.exists(x):
            os.unlink(x)
    return real


def limit_of(p):
    return (1 << 31) - 1 if getattr(p, "big", False) else 65535


def run_part(args, bdir, wd, drv_ok=True):
    """returns dict(spec_fail, corr_fail, evaluations, distinct, dist, samples, problems)"""
    rng = common.rng_for(args.seed, "C01T")
    n = {"quick": 330, "thorough": 7000}[args.tier]
    spec_fail, corr_fail, samples, problems = [], [], [], []
    dist = Counter()
    progs = []
    for (name, flavour, items) in FIXED:
        p = Prog(flavour, "fixed")
        p.items = list(items)
        p.name = name
        progs.append(p)
    for i in range(n):
        flavour = "6502" if i % 2 == 0 else "68000"
        r = i % 10
        if r < 4:
            order = ["fwd", "bwd", "stair", "fwd"][r]
            progs.append(gen_chain(rng, flavour, rng.randrange(0, 13), order))
        elif r < 8:
            progs.append(gen_mixed(rng, flavour))
        elif r < 9:
            progs.append(gen_threshold(rng))
        else:
            progs.append(gen_osc(rng))
    reqs = ["M %d %s" % (PASS_CAP, " ".join(p.tokens())) for p in progs]
    try:
        answers = common.driver("c01t", reqs, timeout=1800) if drv_ok else []
    except RuntimeError as ex:
        problems.append(str(ex))
        answers = []
    if answers and len(answers) != len(reqs):
        problems.append("driver c01t answered %d of %d requests" % (len(answers), len(reqs)))
        answers = []
    distinct = set()
    spec_reqs, spec_meta = [], []
    passes_hist = Counter()
    for idx, (p, rq) in enumerate(zip(progs, reqs)):
        ans = answers[idx] if idx < len(answers) else ""
        kv = dict(x.split("=", 1) for x in ans.split() if "=" in x)
        if "passes" not in kv:
            if answers:
                problems.append("driver rejected a c01t request: %r / %s" % (ans, rq[:200]))
            continue
        text, where = p.render()
        # range filter (model side, all passes): operands must fit the data word so that no range error interferes
        vmin, vmax = int(kv["vmin"]), int(kv["vmax"])
        if vmin < 0 or vmax > limit_of(p):
            dist["discarded:operand-out-of-range-in-some-pass"] += 1
            continue
        real = assemble_real(bdir, wd, "t%d" % idx, text)
        dist["family:%s/%s" % (p.family, p.flavour)] += 1
        if p.nontrivial():
            distinct.add(rq)
        rc = real["rc"]
        outcome = {0: "assembled", 2: "rejected", 97: "pass-cap"}.get(rc, "rc=%s" % rc)
        dist["real-outcome:" + outcome] += 1
        if hasattr(p, "chain_len"):
            dist["chain-length:%02d" % p.chain_len] += 1
        if real["passes"] is not None:
            passes_hist[real["passes"]] += 1
        base = dict(source=text, model_request=rq, family=p.family)
        # ---- (C) termination
        if rc == 97 or rc == "timeout":
            sig = "size-oscillation" if (kv["passes"] == "none" and kv["cyc"] == "1") else None
            dist["cap-hits%s" % ("(model proves a cycle)" if sig else "")] += 1
            dist["cap-hits-by-family:" + p.family] += 1
            spec_fail.append(dict(base, sig=sig, why="the pass loop does not end within %d passes%s" % (
                PASS_CAP, " (the model's symbol table repeats: it never ends)" if sig else "")))
            if kv["passes"] != "none":
                corr_fail.append(dict(base, why="real asl hits the pass cap, the model ends after %s passes" % kv["passes"]))
            continue
        if kv["passes"] == "none":
            corr_fail.append(dict(base, why="the model does not end within %d passes, real asl: rc=%s passes=%s" % (PASS_CAP, rc, real["passes"])))
            continue
        if rc not in (0, 2):
            spec_fail.append(dict(base, sig=None, why="asl ended with status %s: %s" % (rc, real["msg"])))
            continue
        # ---- (C) the manual's textual accept/reject rule
        if (rc == 0) != (kv["acc"] == "1"):
            spec_fail.append(dict(base, sig=None, why="the manual's rule (EQU with forward reference is not done in pass 1, forward reference to it in pass 2 is 'symbol undefined') %s this program, asl %s it: %s" % (
                "accepts" if kv["acc"] == "1" else "rejects", "assembles" if rc == 0 else "rejects", real["msg"])))
        # ---- (B) model vs real
        mism = []
        if (kv["err"] == "1") != (rc == 2):
            mism.append("model err=%s, real rc=%s (%s)" % (kv["err"], rc, real["msg"].strip()[-120:]))
        if real["passes"] != int(kv["passes"]):
            mism.append("passes: real %s, model %s" % (real["passes"], kv["passes"]))
        uses = [(i, it) for i, it in enumerate(p.items) if it[0] == "R"]
        defsl = [(i, it) for i, it in enumerate(p.items) if it[0] in ("L", "E")]
        if rc == 0 and real["img"] is not None and real["listing"] is not None:
            addr, syms, endaddr = real["listing"]
            mrefs = [tuple(int(y) for y in x.split(":")) for x in kv["refs"].split(",") if x]
            msyms = dict((int(a), int(b)) for a, b in (x.split(":") for x in kv["syms"].split(",") if x))
            if kv["err"] == "0":
                if endaddr != int(kv["pc"]):
                    mism.append("end address: real %s, model %s" % (endaddr, kv["pc"]))
                if len(mrefs) != len(uses):
                    mism.append("model recorded %d uses, the program has %d" % (len(mrefs), len(uses)))
                for (i, it), (ma, mv) in zip(uses, mrefs):
                    ra = addr.get(where[i])
                    got = decode_use(real["img"], ra, it[1], p.flavour) if ra is not None else None
                    if ra != ma or got != mv:
                        mism.append("use %s %s: real at %s holds %s, model at %d holds %d" % (it[1], expr_text(it[2]), ra, got, ma, mv))
                for (i, it) in defsl:
                    rv = syms.get("SY%d" % it[1])
                    if rv != msyms.get(it[1]):
                        mism.append("symbol sy%d: real %s, model %s" % (it[1], rv, msyms.get(it[1])))
            # ---- (C) values: equations and operands under the symbol values the real assembler lists
            env = ",".join("%d:%d" % (it[1], syms["SY%d" % it[1]]) for (_i, it) in defsl if "SY%d" % it[1] in syms) or "-"
            itemsS, descr = [], []
            undec = []
            for (i, it) in defsl:
                a = addr.get(where[i])
                if a is None or "SY%d" % it[1] not in syms:
                    undec.append("definition of sy%d not found in the listing" % it[1])
                    continue
                itemsS.append("D%d:%d=%s" % (a, it[1], "p" if it[0] == "L" else expr_rpn(it[2])))
                descr.append("definition sy%d%s at %d, listed value %d" % (it[1], "" if it[0] == "L" else " equ " + expr_text(it[2]), a, syms["SY%d" % it[1]]))
            for (i, it) in uses:
                a = addr.get(where[i])
                got = decode_use(real["img"], a, it[1], p.flavour) if a is not None else None
                if got is None:
                    undec.append("use %s %s at %s: code not decodable" % (it[1], expr_text(it[2]), a))
                    continue
                itemsS.append("U%d:%d=%s" % (a, got, expr_rpn(it[2])))
                descr.append("use %s %s at %d encodes %d" % (it[1], expr_text(it[2]), a, got))
            if undec:
                mism += undec
            if itemsS:
                spec_reqs.append("S %s %s" % (env, " ".join(itemsS)))
                spec_meta.append((base, descr))
            dist["uses-checked"] += len(uses)
            dist["definitions-checked"] += len(defsl)
        elif rc == 0:
            mism.append("no code file / listing although asl ended with status 0")
        if mism:
            corr_fail.append(dict(base, why="; ".join(mism[:5]), correspondence="asl status/passes/end address/operands/symbol values == Model.Pass2.assemble"))
        if len(samples) < 6 and p.nontrivial() and (real["passes"] or 0) >= 2 and (idx % 7 == 0 or p.family == "fixed"):
            samples.append(dict(kind="equ/%s/%s" % (p.family, p.flavour), source=text[:500], passes=real["passes"], outcome=outcome, model=ans[:200]))
    # SPEC evaluation of all collected real outputs in one driver call
    if spec_reqs:
        try:
            sans = common.driver("c01t", spec_reqs, timeout=1800)
        except RuntimeError as ex:
            problems.append(str(ex))
            sans = []
        for (base, descr), a in zip(spec_meta, sans):
            if not a.startswith("bad="):
                problems.append("driver rejected a c01t spec request: %r" % a)
                continue
            if a != "bad=-":
                bad = [int(x) for x in a[4:].split(",")]
                spec_fail.append(dict(base, sig=None, why="the emitted code / listed symbol values do not satisfy: " + "; ".join(descr[j] for j in bad[:4])))
    dist["passes"] = dict((str(k), v) for k, v in sorted(passes_hist.items()))
    evaluations = sum(v for k, v in dist.items() if isinstance(v, int) and k.startswith("family:"))
    return dict(spec_fail=spec_fail, corr_fail=corr_fail, evaluations=evaluations, distinct=distinct, dist=dict(dist),
                samples=samples, problems=problems)
