"""C12, conditions whose truth comes from the ENVIRONMENT or from the HISTORY OF THE PASS (called from c12.run).

IFDEF/IFNDEF, IFUSED/IFNUSED, IFEXIST/IFNEXIST do not evaluate an expression: they ask the symbol table ("defined before",
"referenced at least once up to now") resp. the file system ("the same rules for search paths ... as for INCLUDE").  The programs
generated here are ladders (any nesting, ELSEIF/ELSE, mixed with IF <expr>) whose conditions test
 * symbols that are referenced / defined in front of the test, behind it, in a branch that is not assembled, never - by labels, EQU,
   SET (:=), references inside `db`; in one-pass programs, in programs that need further passes because of forward references, and with
   additional passes forced (hook ASL_VERIF_EXTRA_PASSES) - the table is carried from pass to pass, the manual's meaning is about the
   text in front of the statement;
 * files that exist beside the file that contains the statement (the main source - in the working directory or not - or an INCLUDEd file in
   another directory, also nested), beside the main source only, in a -i directory, in the working directory only, nowhere; names bare,
   quoted, without suffix (default .inc), with a path specification, absolute.
The program text is spread over the main source and INCLUDE files (balanced parts of the text); the harness hands the inlined text to the
driver (what INCLUDE does with CurrFileName is C11's subject, Props/C11_Ctx `C11_ctx_curr_inv`), every IFEXIST annotated with the file it is
written in.

(B) Model/CondEnv.lean (`passesE`: table with entry/Defined/Used, `ResetSymbolDefines` per pass, `FSearch` of CodeIFEXIST) vs the code file.
(C) Spec/CondEnv.lean `resolveText` (documented truth values) + Spec/Cond.lean `selB` on the code file; the INCLUDE oracle: for every
    IFEXIST site an `INCLUDE` of the same name written in a file of the same directory is assembled by the real asl - found / fatal error must
    be the SPEC's `fileTruth`.
"""
import os
import re
import shutil
from concurrent.futures import ThreadPoolExecutor

from .. import common

SIG_CWD = "ifexist-searches-working-directory"

NSYM = 6


def _join(*parts):
    return "/".join(p for p in parts if p)


class Prog:
    """one generated program: directory layout, files, inlined token text"""

    def __init__(self, rng, k):
        self.rng = rng
        self.k = k
        self.marker = 0
        self.files = {}          # relative path (from the root of the program) -> list of source lines
        self.targets = set()     # relative paths of the files IFEXIST may find
        self.toks = []
        self.sites = []          # IFEXIST sites in text order: dict(dir, written, name, cls)
        self.nchunks = 0
        self.stats = dict(ifdef=0, ifused=0, ifexist=0, exist_in_include_other_dir=0, used_before_ref=0, used_after_ref=0,
                          def_before=0, def_after=0, chunks=0, nested_chunks=0, cls={})
        r = rng.random()
        self.cwd = "" if r < 0.7 else "run"
        self.maindir = "" if rng.random() < 0.45 else rng.choice(["src", "src", "prj/a"])
        if self.cwd == "run" and self.maindir == "":
            self.maindir = "src"
        self.incl = rng.sample(["inc1", "inc2", "prj/inc"], rng.choice([1, 1, 2]))
        self.incl_abs = rng.random() < 0.3
        self.extra = rng.choice([0, 0, 0, 1, 2])
        # symbols: plan
        self.sym = []
        for i in range(NSYM):
            role = rng.choice(["front", "front", "back", "back", "free", "free", "never"])
            kind = rng.choice("pe") if role in ("back", "free") else rng.choice("pet")
            self.sym.append(dict(role=role, kind=kind, ndef=0, refd=False))
        self.refsyms = [i for i, s in enumerate(self.sym) if s["role"] in ("front", "back")]
        self.seen_ref = set()      # (rough) symbols referenced so far in text order, for the statistics only
        self.seen_def = set()

    # ---- text pieces
    def leaf_plain(self):
        self.marker += 1
        return ("L%d" % self.marker, "\tdb %d" % self.marker)

    def leaf_def(self, i):
        self.marker += 1
        m, k = self.marker, self.sym[i]["kind"]
        n = "q%d" % i
        self.sym[i]["ndef"] += 1
        self.seen_def.add(i)
        if k == "p":
            a = self.rng.choice(["%s:\tdb %d", "%s\tdb %d"]) % (n, m)
        elif k == "e":
            a = self.rng.choice(["%s\tequ %d", "%s\t= %d", "%s:\tequ %d"]) % (n, m)
        else:
            a = self.rng.choice(["%s\t:= %d", "%s\teval %d"]) % (n, m)
        return ("L%d:%s%d" % (m, k, i), a)

    def leaf_use(self, i):
        self.marker += 1
        self.seen_ref.add(i)
        return ("L%d:u%d" % (self.marker, i), "\tdb q%d-q%d+%d" % (i, i, self.marker))

    def rand_leaf(self):
        r = self.rng.random()
        if r < 0.35 and self.refsyms:
            return self.leaf_use(self.rng.choice(self.refsyms))
        if r < 0.5:
            # a definition somewhere inside the text: SET symbols any number of times, others once and only when nothing is referenced
            c = [i for i, s in enumerate(self.sym) if (s["kind"] == "t" and s["role"] == "front") or (s["role"] == "free" and s["ndef"] == 0)]
            if c:
                return self.leaf_def(self.rng.choice(c))
        return self.leaf_plain()

    # ---- conditions
    def exist_cond(self, fdir, out):
        rng = self.rng
        neg = rng.randrange(2)
        cls = rng.choice(["beside", "beside", "beside_main", "incl", "cwd", "absent", "absent", "sub", "up", "abs", "nosuffix"])
        if fdir != self.maindir and rng.random() < 0.5:
            # inside an include file of another directory: the names that tell "beside this file" from "beside the main source"
            cls = rng.choice(["beside", "beside", "beside_main", "nosuffix", "sub"])
        base = "t%d.inc" % rng.randrange(8)
        written = base
        if cls == "beside":
            self.targets.add(_join(fdir, base))
        elif cls == "beside_main":
            self.targets.add(_join(self.maindir, base))
        elif cls == "incl":
            self.targets.add(_join(rng.choice(self.incl), base))
        elif cls == "cwd":
            self.targets.add(_join(self.cwd, base))
        elif cls == "absent":
            base = written = "n%d.inc" % rng.randrange(4)
            if rng.random() < 0.3:
                written = "sub/" + base
        elif cls == "sub":
            base = "s" + base
            written = "sub/" + base
            self.targets.add(_join(fdir, "sub", base))
        elif cls == "up":
            base = "u" + base
            written = "sub/../" + base
            self.targets.add(_join(fdir, base))
            self.files.setdefault(_join(fdir, "sub", "keep.txt"), ["; directory"])
        elif cls == "abs":
            written = "%ROOT%/" + _join(fdir, "a" + base)
            self.targets.add(_join(fdir, "a" + base))
        else:
            written = base[:-4]
            self.targets.add(_join(fdir, base))
        name = written if written.endswith(".inc") else written + ".inc"
        spelled = '"%s"' % written if (rng.random() < 0.5 or written.startswith("%")) else written
        self.sites.append(dict(dir=fdir, written=spelled, name=name, cls=cls))
        self.stats["ifexist"] += 1
        self.stats["cls"][cls] = self.stats["cls"].get(cls, 0) + 1
        if fdir != self.maindir:
            self.stats["exist_in_include_other_dir"] += 1
        out.append(("X%d@@FILE:%s@%s" % (neg, fdir, name), "\t%s %s" % (("ifexist", "ifnexist")[neg], spelled)))

    def cond(self, fdir, out):
        rng = self.rng
        r = rng.random()
        if r < 0.2:
            c = rng.randrange(2)
            out.append(("I1:e%d" % c, "\tif %d" % c))
        elif r < 0.5:
            i = rng.randrange(NSYM)
            neg = rng.randrange(2)
            self.stats["ifused"] += 1
            self.stats["used_after_ref" if i in self.seen_ref else "used_before_ref"] += 1
            out.append(("U%d:%d" % (neg, i), "\t%s q%d" % (("ifused", "ifnused")[neg], i)))
        elif r < 0.75:
            i = rng.randrange(NSYM)
            neg = rng.randrange(2)
            self.stats["ifdef"] += 1
            self.stats["def_before" if i in self.seen_def else "def_after"] += 1
            out.append(("D%d:%d" % (neg, i), "\t%s q%d" % (("ifdef", "ifndef")[neg], i)))
        else:
            self.exist_cond(fdir, out)

    # ---- blocks
    def block(self, depth, fdir, out, chunk_level):
        rng = self.rng
        for _ in range(rng.choice([1, 1, 2, 2, 3])):
            r = rng.random()
            if depth > 0 and r < 0.08:
                self.switch(depth - 1, fdir, out, chunk_level)
            elif depth > 0 and r < 0.5:
                self.ladder(depth - 1, fdir, out, chunk_level)
            elif r < 0.62 and chunk_level < 2 and self.nchunks < 3:
                self.chunk(depth, fdir, out, chunk_level + 1)
            else:
                out.append(self.rand_leaf())

    def ladder(self, depth, fdir, out, chunk_level):
        rng = self.rng
        self.cond(fdir, out)
        self.block(depth, fdir, out, chunk_level)
        for _ in range(rng.choice([0, 0, 1, 2])):
            c = rng.randrange(2)
            out.append(("EI1:%d" % c, "\telseif %d" % c))
            self.block(depth, fdir, out, chunk_level)
        if rng.random() < 0.6:
            out.append(("EI0:0", "\t" + rng.choice(["else", "elseif", "ELSE", "elsec"])))
            self.block(depth, fdir, out, chunk_level)
        out.append(("EN0", "\t" + rng.choice(["endif", "endif", "ENDIF", "endc"])))

    def switch(self, depth, fdir, out, chunk_level):
        """SWITCH around / between the tests (selector and CASE values are literals)"""
        rng = self.rng
        out.append(("S1:i%d" % rng.choice([1, 2, 3]), None))
        sel = int(out[-1][0][4:])
        out[-1] = (out[-1][0], "\tswitch %d" % sel)
        if rng.random() < 0.3:
            self.block(depth, fdir, out, chunk_level)
        for _ in range(rng.choice([1, 2, 3])):
            vals = [rng.choice([1, 2, 3, 4]) for _ in range(rng.choice([1, 1, 2]))]
            out.append(("C:" + ",".join("i%d" % v for v in vals), "\tcase " + ",".join(map(str, vals))))
            self.block(depth, fdir, out, chunk_level)
        # always with ELSECASE: the "no CASE hit" warning is issued in every pass and the error file does not tell the passes apart
        out.append(("EC0", "\telsecase"))
        self.block(depth, fdir, out, chunk_level)
        out.append(("ED0", "\tendcase"))

    def chunk(self, depth, fdir, out, chunk_level):
        """a balanced part of the text goes into an INCLUDE file: beside the including file, in another directory (path
        specification relative to the including file), or in a -i directory (bare name)"""
        rng = self.rng
        self.nchunks += 1
        name = "part%d.inc" % self.nchunks
        where = rng.choice(["other", "other", "beside", "incl"])
        if where == "beside":
            cdir, written = fdir, name
        elif where == "incl":
            cdir, written = rng.choice(self.incl), name
        else:
            sub = rng.choice(["lib", "lib/x", "mods"])
            cdir, written = _join(fdir, sub), sub + "/" + name
        self.stats["chunks"] += 1
        if chunk_level > 1:
            self.stats["nested_chunks"] += 1
        body = []
        self.block(depth, cdir, body, chunk_level)
        self.files[_join(cdir, name)] = [a for _, a in body if a]
        out.append((None, "\tinclude %s" % (('"%s"' % written) if rng.random() < 0.7 else written)))
        out.extend((t, "") for t, _ in body)

    def build(self):
        rng = self.rng
        out = []
        # prologue: symbols that are certainly defined in front
        for i, s in enumerate(self.sym):
            if s["role"] == "front":
                out.append(self.leaf_def(i))
        # a plain leaf that refers to the label at the end of the text: a program that needs a second pass whatever else it holds
        self.fwd = rng.random() < 0.35
        if self.fwd:
            self.marker += 1
            out.append(("L%d" % self.marker, "\tdb fwd_end-fwd_end+%d" % self.marker))
        if self.k < 90:
            # the first programs are small (short witnesses)
            self.block(1, self.maindir, out, 0)
        else:
            self.block(rng.choice([1, 2, 2, 3]), self.maindir, out, 0)
            self.block(rng.choice([1, 2]), self.maindir, out, 0)
        for i, s in enumerate(self.sym):
            if s["role"] == "back":
                out.append(self.leaf_def(i))
        main = ["\tcpu z80", "\torg 0"] + [a for _, a in out if a] + ["fwd_end:"]
        self.files[_join(self.maindir, "main.asm")] = main
        self.toks = [t for t, _ in out if t]
        for t in self.targets:
            self.files.setdefault(t, ["; exists"])
        return self

    # ---- on disk
    def write(self, root):
        for d in [self.cwd, self.maindir] + self.incl:
            os.makedirs(os.path.join(root, d), exist_ok=True)
        for rel, lines in self.files.items():
            p = os.path.join(root, rel)
            os.makedirs(os.path.dirname(p), exist_ok=True)
            open(p, "w").write("\n".join(lines).replace("%ROOT%", root) + "\n")

    def flags(self, root):
        dirs = [(os.path.join(root, d) if self.incl_abs else os.path.relpath(os.path.join(root, d), os.path.join(root, self.cwd))) for d in self.incl]
        return ["-i", ":".join(dirs)]

    def relmain(self, root, name="main.asm"):
        return os.path.relpath(os.path.join(root, self.maindir, name), os.path.join(root, self.cwd))

    def request_fs(self, root, exist_cwd):
        rootc = root.strip("/")
        allf = []
        for dp, dn, fn in os.walk(root):
            for f in fn:
                allf.append(os.path.join(dp, f).strip("/"))
        return "F=%s;I=%s;W=%s;C=%d" % ("|".join(sorted(allf)) or "-", "|".join(_join(rootc, d) for d in self.incl) or "-",
                                         _join(rootc, self.cwd), exist_cwd)

    def request_toks(self, root):
        rootc = root.strip("/")
        res = []
        for t in self.toks:
            if t[0] == "X":
                head, rest = t.split("@@FILE:")
                fdir, name = rest.split("@")
                res.append("%s@%s@%s" % (head, _join(rootc, fdir, "file.asm"), name))
            else:
                res.append(t)
        return res


def _fix_abs(tok, root):
    return tok.replace("%ROOT%", root)


ERR_RE = re.compile(r"(error|warning|fatal error|fatal) #(\d+)")


def assemble(bdir, root, p, mem_of_pfile, status_str):
    cwd = os.path.join(root, p.cwd)
    outp = os.path.join(root, "out.p")
    errf = os.path.join(root, "out.err")
    env = {"ASL_VERIF_EXTRA_PASSES": str(p.extra)} if p.extra else None
    args = ["-n", "-E", errf] + p.flags(root) + [p.relmain(root), "-o", outp]
    rc, so, se = common.run_tool(bdir, "asl", args, cwd, timeout=60, env=env)
    so = so.decode(errors="replace")
    m = re.search(r"(\d+) pass", so)
    npass = int(m.group(1)) if m else 1
    errs = []
    if os.path.exists(errf):
        for line in open(errf, errors="replace"):
            mm = ERR_RE.search(line)
            if mm:
                errs.append(int(mm.group(2)))
            elif line.startswith("> > >") and "#" in line:
                errs.append(-1)
    st = status_str(rc)
    code = []
    if os.path.exists(outp):
        mem = mem_of_pfile(open(outp, "rb").read()) or {}
        code = [mem[a] for a in sorted(mem)]
    obs = "%s;%s;%s" % (bytes(code).hex() or "-", ",".join(map(str, errs)) or "-", st)
    return obs, npass


def include_oracle(bdir, root, p):
    """for every IFEXIST site: does INCLUDE of the same name, written in a file of the same directory, find a file?"""
    res = []
    cache = {}
    for j, s in enumerate(p.sites):
        key = (s["dir"], s["written"])
        if key not in cache:
            pf = "zp%d.inc" % j
            open(os.path.join(root, s["dir"], pf), "w").write("\tinclude %s\n" % s["written"].replace("%ROOT%", root))
            pm = "zpm%d.asm" % j
            rel = os.path.relpath(os.path.join(root, s["dir"], pf), os.path.join(root, p.maindir))
            open(os.path.join(root, p.maindir, pm), "w").write("\tcpu z80\n\tinclude \"%s\"\n" % rel)
            rc, so, se = common.run_tool(bdir, "asl", ["-q"] + p.flags(root) + [p.relmain(root, pm), "-o", os.path.join(root, "zp.p")],
                                         os.path.join(root, p.cwd), timeout=60)
            cache[key] = (rc == 0)
            os.unlink(os.path.join(root, s["dir"], pf))
            os.unlink(os.path.join(root, p.maindir, pm))
            if os.path.exists(os.path.join(root, "zp.p")):
                os.unlink(os.path.join(root, "zp.p"))
        res.append(cache[key])
    return res


def probe_exist_cwd(bdir, wd):
    """does IFEXIST find a file that exists in the working directory only (main source elsewhere, a -i list given)?"""
    root = os.path.join(wd, "envprobe")
    os.makedirs(os.path.join(root, "src"), exist_ok=True)
    os.makedirs(os.path.join(root, "inc"), exist_ok=True)
    open(os.path.join(root, "only.inc"), "w").write("; x\n")
    open(os.path.join(root, "src", "m.asm"), "w").write("\tcpu z80\n\tifexist only.inc\n\tmessage \"11\"\n\telse\n\tmessage \"22\"\n\tendif\n")
    rc, so, se = common.run_tool(bdir, "asl", ["-q", "-i", "inc", "src/m.asm", "-o", "m.p"], root, timeout=60)
    shutil.rmtree(root, ignore_errors=True)
    return 1 if b"11" in so else 0


def kv(ans):
    return dict(x.split("=", 1) for x in ans.split() if "=" in x)


def source_dump(p, root):
    lines = ["; asl %s %s   (cwd = <root>/%s, ASL_VERIF_EXTRA_PASSES=%d)" % (" ".join(p.flags(root)), p.relmain(root), p.cwd, p.extra)]
    for rel in sorted(p.files):
        lines.append("; ---- file %s" % rel)
        lines.extend(p.files[rel])
    return "\n".join(lines).replace("%ROOT%", "<root>") + "\n"


def run_stream(args, bdir, wd, drv_ok, cfg, mem_of_pfile, status_str, dist, spec_fail, corr_fail, proof_problems, samples):
    thorough = args.tier == "thorough"
    rng = common.rng_for(args.seed, "C12/env")
    n = 6000 if thorough else 420
    exist_cwd = probe_exist_cwd(bdir, wd)
    st = dict(switches=0, programs=0, passes={}, forced_extra_passes=0, ifdef=0, ifused=0, ifexist=0, exist_in_include_other_dir=0, used_before_ref=0,
              used_after_ref=0, def_before=0, def_after=0, chunks=0, nested_chunks=0, cls={}, include_oracle_runs=0,
              include_oracle_found=0, existCwd_probed=exist_cwd, spec_undetermined=0)
    dist["env"] = st
    progs = []
    for k in range(n):
        p = Prog(rng, k).build()
        if len(p.toks) > 400 or p.marker > 250:
            continue
        progs.append(p)

    def one(p):
        root = os.path.join(wd, "env%d" % p.k)
        os.makedirs(root, exist_ok=True)
        p.write(root)
        fsd = p.request_fs(root, exist_cwd)
        obs, npass = assemble(bdir, root, p, mem_of_pfile, status_str)
        orc = include_oracle(bdir, root, p)
        req = "%s %d %s %s %s" % (cfg, npass, fsd, obs, " ".join(_fix_abs(t, root) for t in p.request_toks(root)))
        src = source_dump(p, root)
        shutil.rmtree(root, ignore_errors=True)
        return obs, npass, orc, req, src

    with ThreadPoolExecutor(max_workers=4) as ex:
        results = list(ex.map(one, progs))
    answers = common.driver("c12env", [r[3] for r in results], timeout=1800) if drv_ok else []
    distinct = set()
    nsamp = 0
    for p, (obs, npass, orc, req, src), ans in zip(progs, results, answers):
        st["programs"] += 1
        st["passes"][npass] = st["passes"].get(npass, 0) + 1
        st["forced_extra_passes"] += int(p.extra > 0)
        for key in ("ifdef", "ifused", "ifexist", "exist_in_include_other_dir", "used_before_ref", "used_after_ref", "def_before", "def_after",
                    "chunks", "nested_chunks"):
            st[key] += p.stats[key]
        for c, v in p.stats["cls"].items():
            st["cls"][c] = st["cls"].get(c, 0) + v
        st["include_oracle_runs"] += len(orc)
        st["include_oracle_found"] += sum(orc)
        distinct.add("env " + " ".join(p.toks))
        st["switches"] += sum(1 for t in p.toks if t.startswith("S1:"))
        k = kv(ans)
        base = dict(tag="env:%d" % p.k, request=req, source=src, passes=npass, driver={a: b for a, b in k.items()}, include_oracle="".join("1" if b else "0" for b in orc) or "-")
        if "model" not in k:
            proof_problems.append("driver c12env: %s on env:%d" % (ans[:80], p.k))
            continue
        xs, xm = k.get("xs", "-"), k.get("xm", "-")
        obits = base["include_oracle"]
        # the sites where IFEXIST (model of the current code) and the rules of INCLUDE differ
        cwd_sites = [j for j in range(len(p.sites)) if xs not in ("?",) and j < len(xs) and j < len(xm) and xs[j] != xm[j]]
        if k.get("spec") == "na":
            st["spec_undetermined"] += 1
        if xs != "?" and xs != obits:
            spec_fail.append(dict(base, why="the SPEC's file search (rules of INCLUDE, Spec/MacroCtx `search`) and the real INCLUDE of the same name at the same place disagree: spec %s real INCLUDE %s" % (xs, obits)))
            continue
        if k.get("spec") == "bad":
            d = dict(base, why="spec on the real asl failed: %s (a condition that tests the symbol table / the file system selected the wrong branch)" % k.get("why"))
            xi = k.get("xi", "-")
            if (k.get("model") == "eq" and k.get("alt") == "eq" and cwd_sites
                    and all(xm[j] == "1" and xs[j] == "0" and j < len(xi) and xi[j] == "0" for j in cwd_sites)):
                # the only deviation: names that the search of CodeIFEXIST finds and the search of INCLUDE (model and real) does not
                d["sig"] = SIG_CWD
            spec_fail.append(d)
        elif k.get("model") != "eq":
            corr_fail.append(dict(base, why="real asl differs from Model/CondEnv (spec held or not applicable)"))
        elif nsamp < 2 and npass > 1 and p.stats["ifused"] and p.stats["ifexist"]:
            nsamp += 1
            samples.append(dict(tag="env:%d" % p.k, source=src[:900], observed=obs, verdict=ans[:300]))
    return len(answers), distinct
