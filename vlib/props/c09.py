"""C09 - data-definition statements lay down exactly the documented bytes."""
import json
import os
import re
import struct

from .. import common
from ..common import log
from . import c09_floats
from . import c09_ext
from . import c09_data
from . import c09_ti
from . import c09_pages

SLOT = 0x400
NSLOT = 60
BASE = 0x0400

# lg = ListGran, tw = TurnWords, mturn = DecodeMotoPseudo(Turn), ibig = DecodeIntelPseudo(BigEndian),
# sbig = byte order the documentation gives for the target
TARGETS = [
    dict(name="68000", cpu="68000", fams=["dc"], lg=2, tw=1, mturn=1, ibig=0, sbig=1, syn="moto", pre=[], padding=True),
    dict(name="6809", cpu="6809", fams=["dc", "m8"], lg=1, tw=0, mturn=1, ibig=0, sbig=1, syn="moto", pre=[], padding=True),
    dict(name="68hc12", cpu="68hc12", fams=["dc", "m8"], lg=1, tw=0, mturn=1, ibig=0, sbig=1, syn="moto", pre=[], padding=True),
    dict(name="6502", cpu="6502", fams=["m8"], lg=1, tw=0, mturn=0, ibig=0, sbig=0, syn="moto", pre=[], padding=False),
    dict(name="z80", cpu="z80", fams=["dx"], lg=1, tw=0, mturn=0, ibig=0, sbig=0, syn="intel", pre=[], padding=False),
    dict(name="8086", cpu="8086", fams=["dx"], lg=1, tw=0, mturn=0, ibig=0, sbig=0, syn="intel", pre=[], padding=False),
    dict(name="8051be", cpu="8051", fams=["dx"], lg=1, tw=0, mturn=0, ibig=1, sbig=1, syn="intel", pre=["\tbigendian on"], padding=False),
]

# (attribute, bytes, intOK, flt)
DC_KINDS = [("b", 1, 1, "-"), ("w", 2, 1, "-"), ("l", 4, 1, "-"), ("q", 8, 1, "-"),
            ("c", 2, 0, "h"), ("s", 4, 0, "s"), ("d", 8, 0, "d"), ("x", 12, 0, "x")]
DX_KINDS = [("db", 1, 1, "-"), ("dw", 2, 1, "h"), ("dd", 4, 1, "s"), ("dq", 8, 1, "d"), ("dt", 10, 0, "t")]


def dbits(x):
    return struct.unpack("<Q", struct.pack("<d", x))[0]


def bits2d(n):
    return struct.unpack("<d", struct.pack("<Q", n))[0]


def half_value(h):
    """value of a finite half bit pattern"""
    s = -1.0 if h & 0x8000 else 1.0
    e = (h >> 10) & 31
    m = h & 0x3ff
    if e == 0:
        return s * m * 2.0 ** -24
    return s * (1024 + m) * 2.0 ** (e - 25)


def single_value(w):
    return struct.unpack("<f", struct.pack("<I", w))[0]


# ------------------------------------------------------------------ AST
# ("i", v) ("s", bytes) ("f", bits) ("q",) ("r", n, arg) ("d", n, [args])

def ser_arg(a):
    t = a[0]
    if t == "i":
        return ["i%d" % a[1]]
    if t == "s":
        return ["s" + (a[1].hex() if a[1] else "-")]
    if t == "f":
        return ["f%016x" % a[1]]
    if t == "q":
        return ["q"]
    if t == "r":
        return ["r%d" % a[1]] + ser_arg(a[2])
    if t == "d":
        out = ["d%d,%d" % (a[1], len(a[2]))]
        for x in a[2]:
            out += ser_arg(x)
        return out
    raise AssertionError(t)


def ser_stmt(st):
    k = st["k"]
    if k in ("DC", "DX"):
        out = [k, str(st["bytes"]), str(st["intOK"]), st["flt"], str(len(st["args"]))]
    elif k in ("BYT", "ADR", "FCC"):
        out = [k, str(len(st["args"]))]
    else:
        return [k, str(st["n"])]
    for a in st["args"]:
        out += ser_arg(a)
    return out


def src_int(rng, v, syn):
    if rng.random() < 0.5:
        return str(v)
    if syn == "moto":
        return ("-$%x" % -v) if v < 0 else "$%x" % v
    h = "%xh" % abs(v)
    if not h[0].isdigit():
        h = "0" + h
    return ("-" + h) if v < 0 else h


def src_float(bits):
    if (bits >> 52) & 0x7ff == 0x7ff:
        return "-1e400" if bits >> 63 else "1e400"
    return "%.17e" % bits2d(bits)


def src_arg(rng, a, syn):
    t = a[0]
    if t == "i":
        return src_int(rng, a[1], syn)
    if t == "s":
        return '"%s"' % a[1].decode("ascii")
    if t == "f":
        return src_float(a[1])
    if t == "q":
        return "?"
    if t == "r":
        return "[%d]%s" % (a[1], src_arg(rng, a[2], syn))
    if t == "d":
        return "%s dup (%s)" % (src_int(rng, a[1], syn) if a[1] >= 0 else "(%d)" % a[1], ",".join(src_arg(rng, x, syn) for x in a[2]))
    raise AssertionError(t)


def src_stmt(rng, st, syn):
    k = st["k"]
    if k == "DC":
        op = "dc." + st["attr"]
    elif k == "DX":
        op = st["op"]
    elif k in ("BYT", "ADR", "FCC"):
        op = st["op"]
    else:
        return "\t%s %d" % (st["op"], st["n"])
    return "\t%s %s" % (op, ",".join(src_arg(rng, a, syn) for a in st["args"]))


# ------------------------------------------------------------------ pools

def int_pool(rng, w, bad=False):
    """bad=False: a value that fits (boundaries favoured); bad=True: one that does not"""
    lo, hi = -(1 << (w - 1)), (1 << w) - 1
    r = rng.random()
    if w == 64:
        pool = [0, 1, -1, lo, (1 << 63) - 1, 1 << 63, hi, hi - 1, 0x123456789abcdef0, 0x8000000000000001]
        if r < 0.5:
            return rng.choice(pool)
        return rng.randrange(lo, hi + 1)
    if not bad:
        pool = [0, 1, -1, 2, (1 << (w - 1)) - 1, 1 << (w - 1), lo, lo + 1, hi, hi - 1, 0x55 % (hi + 1), -2]
        if r < 0.5:
            return rng.choice(pool)
        return rng.randrange(lo, hi + 1)
    pool = [lo - 1, hi + 1, hi + 2, lo - 2, (1 << 63) - 1, -(1 << 63), 1 << (w + 1), -(1 << w), -hi, 2 * hi]
    if r < 0.6:
        return rng.choice(pool)
    if r < 0.8:
        return rng.randrange(hi + 1, hi + 1 + (1 << w))
    return rng.randrange(lo - (1 << w), lo)


def rand_string(rng, maxlen=6):
    n = rng.choice([0, 1, 1, 2, 3, 5, maxlen])
    return bytes(rng.choice(b"abcdefghijklmnopqrstuvwxyzABCDEFGHIJKLMNOPQRSTUVWXYZ0123456789 .:-+*#") for _ in range(n))


def float_pool(rng, fk, stats):
    """bit pattern of a double, chosen to stress the conversion to format fk"""
    r = rng.random()
    sgn = rng.choice([0, 0, 1]) << 63
    if fk == "h":
        if r < 0.18:
            stats["f_exact"] += 1
            h = rng.randrange(0, 0x7c00)
            return sgn | dbits(half_value(h))
        if r < 0.36:
            stats["f_tie"] += 1
            h = rng.randrange(0, 0x7bff)
            return sgn | dbits((half_value(h) + half_value(h + 1)) / 2)
        if r < 0.50:
            stats["f_near_tie"] += 1
            h = rng.randrange(0, 0x7bff)
            t = dbits((half_value(h) + half_value(h + 1)) / 2)
            return sgn | (t + rng.choice([-1, 1, -2, 2, 1 << 20, -(1 << 20)]))
        if r < 0.72:
            stats["f_half_subnormal_range"] += 1
            # anywhere in the half subnormal range and below
            e = rng.randrange(1023 - 27, 1023 - 14)
            return sgn | (e << 52) | rng.getrandbits(52)
        if r < 0.78:
            stats["f_limits"] += 1
            return sgn | rng.choice([dbits(65504.0), dbits(65503.99), dbits(65520.0), dbits(65536.0), dbits(1e5), 0x7ff0000000000000, 0,
                                     dbits(2.0 ** -24), dbits(2.0 ** -25), dbits(2.0 ** -14), dbits(1.0e-7), dbits(8.94e-8)])
        stats["f_random"] += 1
        e = rng.randrange(1023 - 14, 1023 + 16)
        bits = (e << 52) | rng.getrandbits(52)
        if bits > dbits(65504.0) and bits < dbits(65520.0):
            bits = dbits(65504.0)       # the assembler's limit is 65504, RNE would still accept up to 65520
        return sgn | bits
    if fk == "s":
        if r < 0.25:
            stats["f_exact"] += 1
            w = rng.randrange(0, 0x7f800000)
            return sgn | dbits(single_value(w))
        if r < 0.5:
            stats["f_tie"] += 1
            w = rng.randrange(0, 0x7f7ffffe)
            return sgn | dbits((single_value(w) + single_value(w + 1)) / 2)
        if r < 0.62:
            stats["f_near_tie"] += 1
            w = rng.randrange(0, 0x7f7ffffe)
            t = dbits((single_value(w) + single_value(w + 1)) / 2)
            return sgn | (t + rng.choice([-1, 1]))
        if r < 0.72:
            stats["f_single_subnormal_range"] += 1
            e = rng.randrange(1023 - 152, 1023 - 126)
            return sgn | (e << 52) | rng.getrandbits(52)
        if r < 0.78:
            stats["f_limits"] += 1
            return sgn | rng.choice([dbits(3.4e38), dbits(3.5e38), dbits(1e39), 0x7ff0000000000000, 0, dbits(1.0), dbits(2.0 ** -149), dbits(2.0 ** -150)])
        stats["f_random"] += 1
        e = rng.randrange(1023 - 126, 1023 + 127)
        return sgn | (e << 52) | rng.getrandbits(52)
    # double / extended: every double is representable
    if r < 0.06:
        stats["f_zero_or_denormal_double"] += 1
        return sgn | rng.choice([0, 1, rng.getrandbits(52), 1 << 51, (1 << 52) - 1])
    if r < 0.12:
        stats["f_limits"] += 1
        return sgn | rng.choice([0x7ff0000000000000, dbits(1.7e308), dbits(1.0), dbits(2.2250738585072014e-308), 0x0010000000000001])
    stats["f_random"] += 1
    e = rng.randrange(1, 2046) if rng.random() < 0.5 else rng.randrange(1023 - 70, 1023 + 70)
    bits = (e << 52) | rng.getrandbits(52)
    if fk == "d" and bits > dbits(1.7e308):
        bits = dbits(1.7e308)           # DC.D is limited to 1.7e308 by FloatRangeCheck
    return sgn | bits


# ------------------------------------------------------------------ statement generators

def gen_leaf(rng, bytes_, intOK, flt, stats, allow_str=True, bad=False):
    r = rng.random()
    if flt != "-" and (not intOK or r < 0.45):
        if r < 0.08 and flt in ("s", "d", "x", "t", "h"):
            stats["int_as_float"] += 1
            return ("i", rng.choice([0, 1, -1, 2, 3, 100, -7, 1000, 65504, 2047, 1 << 20, (1 << 24) + 1]))
        return ("f", float_pool(rng, flt, stats))
    if allow_str and intOK and r > (0.8 if bytes_ == 1 else 0.95):
        stats["strings"] += 1
        return ("s", rand_string(rng))
    stats["ints"] += 1
    isbad = bad and rng.random() < 0.4
    if isbad:
        stats["ints_out_of_range"] += 1
    return ("i", int_pool(rng, 8 * bytes_, isbad))


def gen_dc(rng, tgt, stats, attr=None, force_ok=False):
    attr, bytes_, intOK, flt = attr or rng.choice(DC_KINDS)
    st = dict(k="DC", attr=attr, bytes=bytes_, intOK=intOK, flt=flt, args=[])
    n = rng.choice([1, 1, 2, 3, 5])
    if rng.random() < 0.08:
        stats["reserve_stmts"] += 1
        for _ in range(n):
            st["args"].append(("r", rng.choice([0, 1, 2, 3, 7]), ("q",)) if rng.random() < 0.5 else ("q",))
        return st
    bad = (not force_ok) and rng.random() < 0.15
    if bytes_ > 1 and intOK and rng.random() < 0.06:
        # a string in a wide DC: alone and short (DecodeMotoDC reserves Rep*len instead of Rep*len*WSize bytes)
        stats["strings"] += 1
        a = ("s", rand_string(rng))
        if rng.random() < 0.4:
            a = ("r", rng.choice([0, 1, 2]), a)
        st["args"].append(a)
        return st
    for _ in range(n):
        a = gen_leaf(rng, bytes_, intOK, flt, stats, allow_str=(bytes_ == 1), bad=bad)
        if rng.random() < 0.25:
            stats["rep"] += 1
            a = ("r", rng.choice([0, 1, 2, 3, 4, 9]), a)
        st["args"].append(a)
    if rng.random() < 0.03:
        stats["mixed"] += 1
        st["args"].insert(rng.randrange(len(st["args"]) + 1), ("q",))
    return st


def gen_m8(rng, tgt, stats):
    r = rng.random()
    if r < 0.38:
        st = dict(k="BYT", op=rng.choice(["byt", "fcb"]), args=[])
        w = 1
    elif r < 0.76:
        st = dict(k="ADR", op=rng.choice(["adr", "fdb"]), args=[])
        w = 2
    elif r < 0.9:
        st = dict(k="FCC", op="fcc", args=[])
        for _ in range(rng.choice([1, 1, 2, 3])):
            a = ("s", rand_string(rng, 12))
            if rng.random() < 0.3:
                a = ("r", rng.choice([0, 1, 2, 5]), a)
            st["args"].append(a)
        stats["strings"] += 1
        return st
    else:
        stats["reserve_stmts"] += 1
        return dict(k="DFS", op=rng.choice(["dfs", "rmb"]), n=rng.choice([1, 2, 3, 17, 100, 255, 256, 300]))
    n = rng.choice([1, 1, 2, 3, 6])
    if rng.random() < 0.08:
        stats["reserve_stmts"] += 1
        for _ in range(n):
            st["args"].append(("r", rng.choice([0, 1, 2, 5]), ("q",)) if rng.random() < 0.5 else ("q",))
        return st
    bad = rng.random() < 0.15
    for _ in range(n):
        a = gen_leaf(rng, w, 1, "-", stats, bad=bad)
        if rng.random() < 0.25:
            stats["rep"] += 1
            a = ("r", rng.choice([0, 1, 2, 3, 8]), a)
        st["args"].append(a)
    if rng.random() < 0.03:
        stats["mixed"] += 1
        st["args"].append(("q",))
    return st


def gen_dx_arg(rng, bytes_, intOK, flt, stats, depth, reserve, bad=False):
    r = rng.random()
    if depth < 3 and r < (0.3 if depth == 0 else 0.22):
        stats["dup"] += 1
        stats["dup_depth_%d" % (depth + 1)] += 1
        cnt = rng.choice([0, 1, 2, 2, 3, 4]) if rng.random() < 0.95 else -1
        inner = [gen_dx_arg(rng, bytes_, intOK, flt, stats, depth + 1, reserve, bad) for _ in range(rng.choice([1, 1, 2, 3]))]
        return ("d", cnt, inner)
    if reserve:
        return ("q",)
    return gen_leaf(rng, bytes_, intOK, flt, stats, allow_str=(bytes_ <= 2), bad=bad)


def gen_dx(rng, tgt, stats):
    if rng.random() < 0.04:
        stats["reserve_stmts"] += 1
        return dict(k="DS", op="ds", n=rng.choice([1, 2, 3, 16, 100, 255, 256, 700]))
    op, bytes_, intOK, flt = rng.choice(DX_KINDS)
    reserve = rng.random() < 0.08
    if reserve:
        stats["reserve_stmts"] += 1
    st = dict(k="DX", op=op, bytes=bytes_, intOK=intOK, flt=flt, args=[])
    bad = rng.random() < 0.15
    for _ in range(rng.choice([1, 1, 2, 3, 4])):
        st["args"].append(gen_dx_arg(rng, bytes_, intOK, flt, stats, 0, reserve, bad))
    if rng.random() < 0.03:
        stats["mixed"] += 1
        st["args"].append(("i", 1) if reserve else ("q",))
    return st


def sentinel(tgt):
    if "dx" in tgt["fams"]:
        return dict(k="DX", op="db", bytes=1, intOK=1, flt="-", args=[("i", 0xa5)])
    if "m8" in tgt["fams"]:
        return dict(k="BYT", op="fcb", args=[("i", 0xa5)])
    return dict(k="DC", attr="b", bytes=1, intOK=1, flt="-", args=[("i", 0xa5)])


def est_size(st):
    def asz(a, eb):
        t = a[0]
        if t in ("i", "f", "q"):
            return eb
        if t == "s":
            return eb * len(a[1])
        if t == "r":
            return max(0, a[1]) * asz(a[2], eb)
        if t == "d":
            return max(0, a[1]) * sum(asz(x, eb) for x in a[2])
    if st["k"] in ("DFS", "DS"):
        return st["n"]
    eb = st.get("bytes") or (2 if st["k"] == "ADR" else 1)
    return sum(asz(a, eb) for a in st["args"])


def gen_case(rng, tgt, stats):
    """a slot: 1..3 statements"""
    fam = rng.choice(tgt["fams"])
    padding = tgt["padding"] and rng.random() < 0.8
    pc0 = rng.choice([0, 0, 1])
    stmts = []
    r = rng.random()
    if fam == "dc" and r < 0.3:
        # padding scenario: byte run of random parity, then a wider item
        stats["padding_scenarios"] += 1
        n = rng.choice([1, 2, 3, 4, 5])
        stmts.append(dict(k="DC", attr="b", bytes=1, intOK=1, flt="-", args=[("i", rng.randrange(256)) for _ in range(n)]))
        stmts.append(gen_dc(rng, tgt, stats, attr=rng.choice(DC_KINDS[1:]), force_ok=True))
        if rng.random() < 0.5:
            stmts.append(gen_dc(rng, tgt, stats, force_ok=True))
    else:
        g = {"dc": gen_dc, "m8": gen_m8, "dx": gen_dx}[fam]
        stmts.append(g(rng, tgt, stats))
        if rng.random() < 0.25:
            stmts.append(g(rng, tgt, stats))
    stmts.append(sentinel(tgt))
    if sum(est_size(s) for s in stmts) + 8 > SLOT - 2:
        return gen_case(rng, tgt, stats)
    return dict(tgt=tgt, padding=padding, pc0=pc0, stmts=stmts)


# ------------------------------------------------------------------ running the real assembler

ERR_RE = re.compile(rb"^> > > ?[^(]*\((\d+)\)[^:]*(?::\d+)?: (error|fatal|warning)", re.M)


def build_source(rng, tgt, cases, skip=()):
    lines = ["\tcpu %s" % tgt["cpu"]] + list(tgt["pre"])
    line_case = {}
    cur_pad = None
    for idx, c in enumerate(cases):
        if idx in skip:
            continue
        if tgt["padding"] and cur_pad != c["padding"]:
            lines.append("\tpadding %s" % ("on" if c["padding"] else "off"))
            cur_pad = c["padding"]
        base = BASE + idx * SLOT + c["pc0"]
        lines.append("\torg %s" % (("$%x" % base) if tgt["syn"] == "moto" else ("0%xh" % base)))
        for j, st in enumerate(c["stmts"]):
            if "src" not in c:
                c.setdefault("srcs", [])
                if len(c["srcs"]) <= j:
                    c["srcs"].append(src_stmt(rng, st, tgt["syn"]))
            lines.append(c["srcs"][j])
            line_case[len(lines)] = idx
    return "\n".join(lines) + "\n", line_case


def assemble(bdir, wd, name, src):
    f = os.path.join(wd, name + ".asm")
    open(f, "w").write(src)
    pf = os.path.join(wd, name + ".p")
    if os.path.exists(pf):
        os.unlink(pf)
    rc, so, se = common.run_tool(bdir, "asl", ["-q", f, "-o", pf], wd, timeout=120)
    data = open(pf, "rb").read() if os.path.exists(pf) else None
    return rc, so + se, data


def parse_pfile(data):
    ans = common.driver("pfile", [data.hex()])[0]
    if not ans.startswith("ok"):
        return None
    recs = []
    for t in ans.split()[2:]:
        if t.startswith("D:"):
            cpu, seg, gran, start, hx = t[2:].split(",")
            recs.append((int(start), bytes.fromhex(hx) if hx != "-" else b""))
    return recs


def run_batch(bdir, wd, rng, tgt, cases, tag):
    """fills c['real'] = 'ERR' | list of (off, bytes); returns list of harness problems"""
    problems = []
    src, line_case = build_source(rng, tgt, cases)
    rc, out, data = assemble(bdir, wd, tag, src)
    bad = set()
    for m in ERR_RE.finditer(out):
        if m.group(2) != b"warning":
            ln = int(m.group(1))
            if ln in line_case:
                bad.add(line_case[ln])
            else:
                problems.append("error outside a test statement: line %d of %s" % (ln, tag))
    if rc not in (0, 2) or (rc == 2 and not bad):
        problems.append("asl rc=%s on batch %s: %s" % (rc, tag, out.decode(errors="replace")[-600:]))
    if bad:
        src2, _ = build_source(rng, tgt, cases, skip=bad)
        rc2, out2, data = assemble(bdir, wd, tag + "b", src2)
        if rc2 != 0 or data is None:
            problems.append("second pass of batch %s still fails rc=%s: %s" % (tag, rc2, out2.decode(errors="replace")[-600:]))
            data = None
    for idx, c in enumerate(cases):
        c["real"] = "ERR" if idx in bad else None
        c["source"] = "\tcpu %s\n%s%s\torg %d\n%s\n" % (tgt["cpu"], "".join(p + "\n" for p in tgt["pre"]),
                                                    ("\tpadding %s\n" % ("on" if c["padding"] else "off")) if tgt["padding"] else "",
                                                    BASE + idx * SLOT + c["pc0"], "\n".join(c["srcs"]))
    if data is not None:
        recs = parse_pfile(data)
        if recs is None:
            problems.append("code file of batch %s does not parse" % tag)
            recs = []
        per = {}
        for start, bs in recs:
            if not bs:
                continue
            idx = (start - BASE) // SLOT
            per.setdefault(idx, []).append((start - (BASE + idx * SLOT), bs))
        for idx, c in enumerate(cases):
            if c["real"] == "ERR":
                continue
            chunks = sorted(per.get(idx, []))
            merged = []
            for off, bs in chunks:
                if merged and merged[-1][0] + len(merged[-1][1]) == off:
                    merged[-1] = (merged[-1][0], merged[-1][1] + bs)
                else:
                    merged.append((off, bs))
            c["real"] = merged
    else:
        for c in cases:
            if c["real"] is None:
                c["real"] = "LOST"
    return problems


def request_of(c, probes):
    t = c["tgt"]
    toks = [str(t["lg"]), str(t["tw"]), str(t["mturn"]), str(t["ibig"]), "1" if (c["padding"] and t["padding"]) else "0",
            "1" if probes["fixIEEE2"] else "0", "1" if probes["fixHalf"] else "0", str(t["sbig"]), str(c["pc0"]), str(len(c["stmts"]))]
    for st in c["stmts"]:
        toks += ser_stmt(st)
    if c["real"] == "ERR":
        toks.append("ERR")
    else:
        toks.append("OK")
        for off, bs in c["real"]:
            toks.append("%d:%s" % (off, bs.hex()))
    return " ".join(toks)


def probe(bdir, wd):
    """self-calibration: does the current tree still have the two known defects?"""
    src = "\tcpu 6809\n\torg $100\n\tdc.c 1.0\n\tcpu z80\n\torg 200h\n\tdw 1.0e-7, 8.94069671630859375e-08\n\torg 300h\n\tdb 1 dup (0 dup (60h)), 5\n"
    rc, out, data = assemble(bdir, wd, "probe", src)
    res = dict(fixIEEE2=False, fixHalf=False, fixDup=False, ok=False)
    if data is None:
        return res
    recs = parse_pfile(data) or []
    d = {s: bs for s, bs in recs}
    a, bq = d.get(0x100), d.get(0x200)
    if a is None or bq is None or len(a) != 2 or len(bq) != 4:
        return res
    res["ok"] = True
    res["fixIEEE2"] = (a == b"\x3c\x00")
    res["fixHalf"] = (bq == b"\x02\x00\x02\x00")
    res["fixDup"] = (d.get(0x300) == b"\x05")         # repair b951363: a DUP whose body lays nothing no longer drops the statement
    res["observed"] = dict(dc_c_1_0_on_6809=a.hex(), dw_1e_7_and_8_94e_8_on_z80=bq.hex(), db_1_dup_0_dup_5_on_z80=(d.get(0x300) or b"").hex())
    return res


# ------------------------------------------------------------------ classification of spec failures

def classify(c, probes=None):
    """signature of the input class of a spec failure (for known_findings.json)"""
    t = c["tgt"]
    sigs = set()

    def walk(a, st):
        if a[0] == "f" or (a[0] == "i" and st.get("flt", "-") != "-" and not st.get("intOK", 1)):
            fk = st.get("flt", "-")
            bits = a[1] if a[0] == "f" else None
            if fk == "h":
                if st["k"] == "DC" and t["lg"] == 1:
                    sigs.add("moto-dc-half-on-byte-listing-target")
                if bits is not None and ((bits >> 52) & 0x7ff) < 1009:
                    sigs.add("half-subnormal-result")
            if fk in ("t", "x") and ((bits is not None and ((bits >> 52) & 0x7ff) == 0) or (a[0] == "i" and a[1] == 0)):
                sigs.add("ext80-of-zero-or-denormal-double")
        elif a[0] == "s" and st.get("flt", "-") in ("t", "x") and not st.get("intOK", 1):
            pass
        elif a[0] == "r":
            walk(a[2], st)
        elif a[0] == "d":
            for x in a[2]:
                walk(x, st)
    def sets_no_flag(a):
        return a[0] == "d" and (a[1] <= 0 or all(sets_no_flag(x) for x in a[2]))

    def first_flag_setter_is_empty_dup(args):
        """the statement's DSFlag is still unset when a DUP with positive count finishes"""
        for a in args:
            if a[0] != "d":
                return False
            if a[1] <= 0:
                continue
            if all(sets_no_flag(x) for x in a[2]):
                return True
            return first_flag_setter_is_empty_dup(a[2])
        return False
    for st in c["stmts"]:
        for a in st.get("args", []):
            walk(a, st)
        if st["k"] == "DX" and first_flag_setter_is_empty_dup(st["args"]):
            sigs.add("intel-dup-with-empty-body-drops-statement")
    # a defect the calibration probes show to be absent cannot explain a failure
    if probes and probes.get("fixIEEE2"):
        sigs.discard("moto-dc-half-on-byte-listing-target")
    if probes and probes.get("fixHalf"):
        sigs.discard("half-subnormal-result")
    if probes and probes.get("fixDup"):
        sigs.discard("intel-dup-with-empty-body-drops-statement")
    if "intel-dup-with-empty-body-drops-statement" in sigs:
        return "intel-dup-with-empty-body-drops-statement"
    if len(sigs) == 1:
        return sigs.pop()
    if "moto-dc-half-on-byte-listing-target" in sigs:
        return "moto-dc-half-on-byte-listing-target"
    if sigs:
        return sorted(sigs)[0]
    return None


def hand_cases():
    """fixed regression inputs (design document section 6 witnesses and boundary statements)"""
    T = {t["name"]: t for t in TARGETS}
    out = []

    def add(tn, stmts, padding=True, pc0=0):
        out.append(dict(tgt=T[tn], padding=padding, pc0=pc0, stmts=stmts + [sentinel(T[tn])], hand=True))
    H = dict(k="DX", op="dw", bytes=2, intOK=1, flt="h")
    add("z80", [dict(H, args=[("f", dbits(1.0e-7))])])
    add("z80", [dict(H, args=[("f", dbits(8.94e-8))])])
    add("z80", [dict(H, args=[("f", 0xBF07FC0002FFFFFF)])])
    add("z80", [dict(H, args=[("f", dbits(1.0)), ("f", dbits(65504.0)), ("f", dbits(2.0 ** -14)), ("f", dbits(2.0 ** -24))])])
    add("68hc12", [dict(k="DC", attr="c", bytes=2, intOK=0, flt="h", args=[("f", dbits(1.0))])])
    add("68000", [dict(k="DC", attr="c", bytes=2, intOK=0, flt="h", args=[("f", dbits(1.0)), ("f", dbits(1.0e-7))])])
    add("68000", [dict(k="DC", attr="b", bytes=1, intOK=1, flt="-", args=[("i", 1), ("i", 2), ("i", 3)]),
                  dict(k="DC", attr="w", bytes=2, intOK=1, flt="-", args=[("i", 0x1234)])])
    add("68000", [dict(k="DC", attr="b", bytes=1, intOK=1, flt="-", args=[("i", 1)]),
                  dict(k="DC", attr="l", bytes=4, intOK=1, flt="-", args=[("q",)])])
    add("68000", [dict(k="DC", attr="w", bytes=2, intOK=1, flt="-", args=[("i", 0x1234)])], padding=True, pc0=1)
    add("68000", [dict(k="DC", attr="w", bytes=2, intOK=1, flt="-", args=[("i", 0x1234)])], padding=False, pc0=1)
    for w, attr in ((8, "b"), (16, "w"), (32, "l")):
        for v in (-(1 << (w - 1)), -(1 << (w - 1)) - 1, (1 << w) - 1, 1 << w):
            add("68000", [dict(k="DC", attr=attr, bytes=w // 8, intOK=1, flt="-", args=[("i", v)])])
    for v in (-(1 << 63), (1 << 64) - 1, 1 << 63):
        add("68000", [dict(k="DC", attr="q", bytes=8, intOK=1, flt="-", args=[("i", v)])])
        add("8086", [dict(k="DX", op="dq", bytes=8, intOK=1, flt="d", args=[("i", v)])])
    add("8086", [dict(k="DX", op="db", bytes=1, intOK=1, flt="-", args=[("d", 2, [("i", 1), ("d", 2, [("i", 3), ("i", 4)])]), ("s", b"hi")])])
    add("8086", [dict(k="DX", op="dw", bytes=2, intOK=1, flt="h", args=[("d", 3, [("q",)])])])
    add("8086", [dict(k="DX", op="dt", bytes=10, intOK=0, flt="t", args=[("f", dbits(1.5)), ("f", dbits(-2.0 ** -1000))])])
    add("8086", [dict(k="DX", op="dt", bytes=10, intOK=0, flt="t", args=[("f", 0)])])
    add("68000", [dict(k="DC", attr="x", bytes=12, intOK=0, flt="x", args=[("f", dbits(-1.5))])])
    add("6502", [dict(k="ADR", op="adr", args=[("i", 0x1234), ("i", -32768), ("i", 65535)])])
    add("6809", [dict(k="ADR", op="fdb", args=[("i", 0x1234), ("r", 2, ("s", b"ab"))])])
    add("6809", [dict(k="FCC", op="fcc", args=[("s", b"hello"), ("r", 2, ("s", b"xy"))])])
    add("6809", [dict(k="DFS", op="rmb", n=5)])
    return out


def run(args):
    res = common.Result("C09", args.tier, args.seed, "proof")
    bdir, audit, proof_problems = common.standard_setup(res, "C09", ["FileFormat", "IntTypes", "ListParams"])
    if bdir is None:
        return res.finish()
    ok = not any(p.startswith("driver does not build") for p in proof_problems)
    n_cases = {"quick": 9000, "thorough": 150000}[args.tier]
    rng = common.rng_for(args.seed, "C09")
    from collections import Counter
    stats = Counter()
    spec_fail, corr_fail, samples = [], [], []
    dist = Counter()
    distinct = set()
    evaluations = 0
    known_hits = Counter()
    with common.Workdir("c09") as wd:
        probes = probe(bdir, wd)
        if not probes["ok"]:
            proof_problems.append("self-calibration probe failed (dc.c / dw do not assemble as expected)")
        all_cases = []
        # corpus
        cdir = os.path.join(common.VERIF, "corpus", "C09")
        corpus = []
        if os.path.isdir(cdir):
            for f in sorted(os.listdir(cdir)):
                if f.endswith(".json"):
                    d = json.load(open(os.path.join(cdir, f)))
                    d["tgt"] = next(t for t in TARGETS if t["name"] == d["tgt"])
                    for st in d["stmts"]:
                        st["args"] = [_fix_arg(a) for a in st.get("args", [])] if "args" in st else None
                        if st["args"] is None:
                            del st["args"]
                    corpus.append(d)
        pre = hand_cases() + corpus
        by_t = {}
        for c in pre:
            by_t.setdefault(c["tgt"]["name"], []).append(c)
        for i in range(n_cases):
            tgt = TARGETS[i % len(TARGETS)] if rng.random() < 0.5 else rng.choice(TARGETS)
            by_t.setdefault(tgt["name"], []).append(gen_case(rng, tgt, stats))
        bno = 0
        for tn, cs in by_t.items():
            tgt = next(t for t in TARGETS if t["name"] == tn)
            for i in range(0, len(cs), NSLOT):
                batch = cs[i:i + NSLOT]
                probs = run_batch(bdir, wd, rng, tgt, batch, "b%d" % bno)
                bno += 1
                for p in probs:
                    corr_fail.append(dict(tag="harness", why=p))
                all_cases += batch
        reqs, metas = [], []
        for c in all_cases:
            if c["real"] == "LOST":
                continue
            reqs.append(request_of(c, probes))
            metas.append(c)
        answers = common.driver("c09", reqs, timeout=3600) if ok and reqs else []
        for c, rq, ans in zip(metas, reqs, answers):
            kv = dict(x.split("=", 1) for x in ans.split() if "=" in x)
            evaluations += 1
            t = c["tgt"]
            kinds = "+".join(st["k"] + (("." + st["attr"]) if "attr" in st else ("." + st["op"] if st["k"] == "DX" else "")) for st in c["stmts"][:-1])
            dist["target:" + t["name"]] += 1
            dist["outcome:" + ("error" if c["real"] == "ERR" else "bytes")] += 1
            for st in c["stmts"][:-1]:
                dist["stmt:" + st["k"] + (("." + st["attr"]) if "attr" in st else ("." + st["op"] if st["k"] == "DX" else ""))] += 1
            key = " ".join(rq.split()[:-1]) if c["real"] == "ERR" else rq
            if kv.get("mres") not in (None, "1") or c["real"] == "ERR":
                distinct.add(key)
            if len(samples) < 6 and (evaluations % 397 == 5 or c.get("hand") and len(samples) < 2):
                samples.append(dict(target=t["name"], source=c["source"], real=("ERR" if c["real"] == "ERR" else [(o, b.hex()) for o, b in c["real"]]), verdict=ans[:200]))
            if "model" not in kv:
                proof_problems.append("driver rejected a request: %s / %s" % (ans, rq[:300]))
                continue
            # hypothesis of the whole-slot theorem C09_slot (Props/C09.lean) evaluated by the driver on this case
            dist["theorem-hypothesis:" + ("met" if kv.get("pre") == "1" else "not-met")] += 1
            if kv.get("thm") != "ok":
                proof_problems.append("C09_slot contradicted by the executable definitions: %s / %s" % (ans[:200], rq[:300]))
            if kv["spec"] != "ok":
                sig = classify(c, probes)
                known_hits[sig] += 1
                spec_fail.append(dict(sig=sig, target=t["name"], source=c["source"], why="real output differs from the specification: real=%s spec=%s" % (
                    "ERR" if c["real"] == "ERR" else [(o, b.hex()) for o, b in c["real"]], kv.get("sout", "?")), request=rq))
            if kv["model"] != "eq":
                corr_fail.append(dict(tag=kinds, target=t["name"], source=c["source"], why="real output differs from the Lean model: real=%s model=%s" % (
                    "ERR" if c["real"] == "ERR" else [(o, b.hex()) for o, b in c["real"]], kv.get("mout", "?")), request=rq))
        # floating-point encodings (half, extended, IBM hexadecimal, TMS320C3x): vlib/props/c09_floats.py
        import sys as _sys
        fl = c09_floats.run_part(_sys.modules[__name__], args, bdir, wd, ok)
        spec_fail += fl["spec_fail"]
        corr_fail += fl["corr_fail"]
        proof_problems += fl["problems"]
        evaluations += fl["evaluations"]
        distinct |= fl["distinct"]
        dist.update(fl["dist"])
        stats.update(fl["stats"])
        samples += fl["samples"]
        known_hits.update(fl["known_hits"])
        # packed / word-granular segments, DN, CHARSET maps, character constants: vlib/props/c09_ext.py
        xprobes = {}
        # DATA on word-organised targets, data statements behind CPU switches: vlib/props/c09_data.py
        # histories of CODEPAGE / CHARSET / SAVE / RESTORE with data statements in between: vlib/props/c09_pages.py
        for part_run in (c09_ext.run_part, c09_data.run_part, c09_ti.run_part, c09_pages.run_part):
            part = part_run(_sys.modules[__name__], args, bdir, wd, ok, dict(probes, **xprobes))
            xprobes.update(part.get("probes", {}))
            spec_fail += part["spec_fail"]
            corr_fail += part["corr_fail"]
            proof_problems += part["problems"]
            evaluations += part["evaluations"]
            distinct |= part["distinct"]
            dist.update(part["dist"])
            stats.update(part["stats"])
            samples += part["samples"]
            known_hits.update(part["known_hits"])
    # a spec failure of a known class must still agree with the (bug-compatible) model; otherwise it is new
    res.coverage = common.proof_coverage(audit, "C09", [
        "translate/tables.py gen_inttypes (IntTypeDefs[] after asmpars_init via a dumper linked with the assembler's objects; enum names via clang AST)",
        "correspondence: real asl vs Model/Data.lean on generated statements (differential test)",
        "correspondence: real asl vs Model/Floats.lean on single float constants per target format (half, x87/68881 extended, IBM hex short/long, TMS320C3x short/single/extended)",
        "correspondence: real asl vs Model/DataExt.lean on generated statements under CHARSET/CODEPAGE maps, with character constants, DN, and on the word-granular "
        "CODE segments of AVR/KCPSM/KCPSM3 (granularity and TurnWords looked up in Generated/ListParams.lean, dumped from the current build by gen_listparams)",
        "correspondence: real asl vs Model/DataWord.lean (fourpseudo.c DecodeDATA) on generated DATA statements of the TMS3201x, TMS3202x/5x, MIL-STD-1750, "
        "PIC 17C4x/16C8x, 4004 and MELPS-4500 (CODE and DATA segments); word width / packing rule per target from the manual, ValIntType per target transcribed from the code generators",
        "correspondence: real asl vs Model/DataSwitch.lean on sources that switch between the CPU families sharing motpseudo.c (the Turn argument of DecodeMotoPseudo per code generator is transcribed in c09_data.SW)",
        "correspondence: real asl vs Model/CodePage.lean (asmallg.c CodeCODEPAGE / CodeCHARSET / CodeSAVE / CodeRESTORE: the chain of translation tables) on generated histories "
        "of CODEPAGE, CHARSET, SAVE, RESTORE and data statements; rejected statements are observed through EXPECT/ENDEXPECT (error numbers 1610, 1450)",
        "C cast double->float assumed IEEE round-to-nearest-even (checked against the spec on every DC.S/DD case)",
        "decimal->double conversion of the assembler (float literals are printed with 17 significant digits)"])
    res.coverage.update(
        evaluations=evaluations, distinct_nontrivial=len(distinct),
        rule="one evaluation = one ORG-separated slot of 1-3 data statements + sentinel byte on one of 7 target configurations, compared cell by cell "
             "(address, byte) with the Lean model and with the Lean specification; non-trivial = lays at least two cells or is rejected; distinct by request line; "
             "plus (float part) one evaluation = one float constant in one target format, emitted bits vs Model/Floats.lean and decoded value vs the format's nearest-even rounding, distinct by (format, double); "
             "plus (extension part, c09_ext.py) one evaluation = one slot of CHARSET statements + 1-2 data statements + sentinel on one of 11 target/segment configurations "
             "(byte, 16-bit and 32-bit address units), compared cell by cell (byte offset, byte) with Model/DataExt.lean and Spec/DataExt.lean, same non-triviality rule; "
             "plus (DATA part, c09_data.py) one evaluation = one slot of optional CHARSET statements + 1-2 DATA statements of 1-6 arguments + sentinel on one of 12 target/segment "
             "configurations, bytes vs Model/DataWord.lean and address units vs Spec/DataWord.lean, non-trivial = more than two units or rejected; "
             "plus (CPU-switch part) one evaluation = one slot of 2-5 `CPU/ORG/statements` segments over 19 targets of both byte orders inside a source of up to 22 slots "
             "(30 % of the batches: two source files in one asl invocation), compared with Model/DataSwitch.lean (static M16Turn threaded through the run) and, segment by segment, "
             "with Spec/Data.lean in the byte order of the segment's target; distinct by (flag at slot start, request); "
             "plus (code-page part, c09_pages.py) one evaluation = one history = one source file from the beginning of a pass with 6-60 CODEPAGE (one / two arguments; source STANDARD, "
             "another set, the active set, unknown) / CHARSET (entry, range, string, reset) / SAVE / RESTORE statements and slots of 1-2 data statements on 7 byte-addressed targets "
             "(target may change inside the history), default and -U, one or two passes; every statement's observation (accepted / rejected / cells of the slot) is compared with "
             "Model/CodePage.lean and Spec/CodePage.lean; 30 systematic histories per run (active set x source of the new set) + random ones; non-trivial = at least two sets and "
             "a data slot under a table that is not 1:1; distinct by request",
        samples=samples, distribution=dict(sorted(dist.items())), generator=dict(sorted(stats.items())),
        probes=dict(probes, **xprobes), spec_failures_by_signature={str(k): v for k, v in known_hits.items()})
    res.assumptions = ["expression evaluation (C08) is outside: arguments are literals; integer values are wrapped to 64 bit before the model sees them",
                       "base stream: identity character map, double-quoted strings only; extension stream: CHARSET maps given by valid CHARSET statements with numeric arguments "
                       "(the CHARSET statement's own error paths and the table-from-file form are outside), strings and character constants over a printable alphabet",
                       "code-page part: names are valid symbol names over letters, digits and `_`; `CODEPAGE existing,unknown` (second argument without meaning AND without a table) "
                       "is not generated - the manual does not say whether it is rejected; CHARSET statements are valid (as in the extension stream); the other variables SAVE/RESTORE "
                       "handle (CPU, segment, listing) are set anew in front of every data slot; the table-from-file form of CHARSET and code pages in the symbol-table listing are outside",
                       "DATA part: `?` is not an argument form of DATA; empty single-quoted constants and single-quoted constants of a length between floor(w/8) and ceil(w/8) "
                       "characters of a w-bit word (w not a multiple of 8) are not generated (the manual's 'operand size' is not defined for them); word widths above 16 bit have no target here",
                       "CPU-switch part: BYT/FCB/BYTE, ADR/FDB, DB/DW of the 68xx generators, FCC, DFS/RMB, ST6 BYTE/WORD/BLOCK; one pass per run (no forward references)",
                       "statements stay below the 1 KiB per line limit (SetMaxCodeLen is not modelled); DT reservation on 32-bit units is not generated (80 bits are not a whole number of units)",
                       "values in the gaps between the assembler's float limits (65504, 3.4e38, 1.7e308) and the formats' true limits are not generated",
                       "NaN inputs: only the quiet NaN that `1e400-1e400` evaluates to (no other NaN can be written in source text)",
                       "EFLOAT/BFLOAT/TFLOAT/Qxx/LQxx (frexp/ldexp/modf of libm), DC.P packed decimal (printf %.16e) and the uPD77230 format are not modelled"]
    return common.conclude(res, proof_problems, spec_fail, corr_fail, evaluations)


def _fix_arg(a):
    """corpus JSON: strings are hex"""
    if a[0] == "s":
        return ("s", bytes.fromhex(a[1]))
    if a[0] == "r":
        return ("r", a[1], _fix_arg(a[2]))
    if a[0] == "d":
        return ("d", a[1], [_fix_arg(x) for x in a[2]])
    return tuple(a)


def replay(args):
    d = json.load(open(args.replay))
    print(json.dumps({k: (v if len(str(v)) < 3000 else str(v)[:3000] + "...") for k, v in d.items()}, indent=1))
    if "sources" in d:
        # several source files assembled by ONE asl invocation (the history of the run matters)
        bdir = common.repo_build("hooks")
        with common.Workdir("c09r") as wd:
            names = []
            for i, src in enumerate(d["sources"]):
                names.append("r%d.asm" % i)
                open(os.path.join(wd, names[-1]), "w").write(src)
            rc, so, se = common.run_tool(bdir, "asl", ["-q", "-L"] + names, wd)
            print("asl rc =", rc, (so + se).decode(errors="replace")[-800:])
            for n in names:
                lst = os.path.join(wd, n[:-4] + ".lst")
                if os.path.exists(lst):
                    print("".join(l for l in open(lst, errors="replace").readlines()[3:] if " : " in l and l[:8].strip()[:1].isdigit())[-3000:])
    elif "source" in d:
        bdir = common.repo_build("hooks")
        with common.Workdir("c09r") as wd:
            f = os.path.join(wd, "r.asm")
            open(f, "w").write(d["source"])
            env = {"ASL_VERIF_EXTRA_PASSES": str(d["passes"] - 1)} if d.get("passes", 1) > 1 else None
            rc, so, se = common.run_tool(bdir, "asl", ["-q", "-L"] + list(d.get("asflags", [])) + [f, "-o", os.path.join(wd, "r.p")], wd, env=env)
            print("asl rc =", rc, (so + se).decode(errors="replace")[-800:])
            lst = os.path.join(wd, "r.lst")
            if os.path.exists(lst):
                if "history" in d:
                    print("".join(l for l in open(lst, errors="replace").readlines()[3:] if " : " in l and (l[:8].strip()[:1].isdigit() or not l[:8].strip()))[:6000])
                else:
                    print("".join(open(lst, errors="replace").readlines()[3:14]))
    if "request" in d:
        common.lean_build(["asldrv"])
        print(common.driver(d.get("mode", "c09"), [d["request"]])[0][:1000])
    return 0
