"""C14 target plug-in: Atmel AVR (codeavr.c), code segment in 16-bit words (default CODESEGSIZE=1) and in bytes
(`cpu <device>:codesegsize=0`).

CPU index = index into the SPEC's device list (Spec/Isa/IAvr.lean `devices`), +8 = the same device with `WRAPMODE ON`,
+16 = the same device with byte-addressed code space: program counter and code-address operands of such a case are BYTE addresses
(the driver halves them for the SPEC, which knows word addresses only).
Operand values handed to the driver (see the SPEC): register Rn -> n; pointer operand of LD/ST/LPM/ELPM
X, X+, -X, Y, Y+, -Y, Z, Z+, -Z -> 0..8 (anything else: a text that is no pointer); LDD/STD: base Z -> 0, Y -> 1
(2 = `X`, not a base) followed by the displacement; code addresses in words.
"""
from .c14 import Case, limits
from . import c14

GENERATED = ["Isa_Avr"]

SIG_SIZE = "avr-size-gated-instruction-accepted-on-small-device"
SIG_PBIT = "avr-pbit-address-truncated-modulo-512"
SIG_WRAPB = "avr-wrapmode-without-effect-in-byte-addressed-code-space"

DEVICES = [("AT90S1200", 9), ("AT90S8515", 12), ("ATTINY13", 9), ("ATTINY167", 13), ("ATMEGA8", 12), ("ATMEGA128", 16), ("ATMEGA2560", 17)]
CORE = [0, 1, 2, 2, 3, 3, 3]       # only used to choose where the *dense* enumeration of a mnemonic runs
MODES = ["X", "X+", "-X", "Y", "Y+", "-Y", "Z", "Z+", "-Z"]
SENT = 0x1F0


def num_c(rng, v, sym=True):
    """C syntax (SetIntConstMode(eIntConstModeC))"""
    if v < 0:
        return "-" + num_c(rng, -v, sym)
    if sym and rng.random() < c14.SYM_SHARE:
        return c14._symbol(rng, v)          # the value through a symbol (EQU / SET, alias of a symbol) defined before the statement
    k = rng.random()
    if k < 0.55:
        return str(v)
    if k < 0.95:
        return "0x%x" % v
    return "0b%s" % bin(v)[2:]


# register aliases (REG / EQU / SET of r0..r31, aliases of aliases): defined at the top of every source, used for about a
# quarter of the register operands; an alias denotes the register it was defined as, so the evaluated operand stays `r`
ALIAS_DEFS = ([("a_r%d" % n, "reg", ("r%d" if n % 2 else "R%d") % n) for n in range(32)]
              + [("e_r%d" % n, "equ", "r%d" % n) for n in range(32)]
              + [("s_r%d" % n, "set", "r%d" % n) for n in range(32)]
              + [("re_r%d" % n, "reg", "e_r%d" % n) for n in range(32)]
              + [("er_r%d" % n, "equ", "A_R%d" % n) for n in range(32)]
              + [("rer_r%d" % n, "reg", "er_r%d" % n) for n in range(32)])
ALIAS_SHAPES = ["a_r%d", "e_r%d", "s_r%d", "re_r%d", "er_r%d", "rer_r%d"]


def reg(rng, r):
    if 0 <= r <= 31 and rng.random() < 0.25:
        t = rng.choice(ALIAS_SHAPES) % r
        return t.upper() if rng.random() < 0.3 else t
    if 0 <= r <= 31:
        if r < 10 and rng.random() < 0.15:
            return "R0%d" % r
        return ("r%d" if rng.random() < 0.5 else "R%d") % r
    if r > 31:
        return "R%d" % r          # no such register
    return ["RX", "Q1", "R", "RR1"][(-r) % 4]


def mode(rng, m):
    if 0 <= m <= 8:
        t = MODES[m]
        return t.lower() if rng.random() < 0.4 else t
    return ["W", "X-", "+Y", "Z++", "R1"][m % 5]


def disp(rng, p, q):
    base = {0: "Z", 1: "Y"}.get(p, "X")
    if rng.random() < 0.4:
        base = base.lower()
    if q == 0 and rng.random() < 0.5:
        return base
    return "%s%s%s" % (base, "+" if q >= 0 else "-", num_c(rng, abs(q)))


class T:
    name = "avr"
    cpus = ([(n, i) for i, (n, _b) in enumerate(DEVICES)] + [(n + "+wrap", i + 8) for i, (n, _b) in enumerate(DEVICES)] +
            [(n + ":codesegsize=0", i + 16) for i, (n, _b) in enumerate(DEVICES)] +
            [(n + ":codesegsize=0+wrap", i + 24) for i, (n, _b) in enumerate(DEVICES)])
    sentinel = SENT
    gran = 2
    sample_tags = ("branch", "rjmp", "ldd", "imm8", "branch-bytemode", "rjmp-bytemode", "jmp-call-bytemode")

    @staticmethod
    def header(cpuname):
        al = ["%s\t%s\t%s" % d for d in ALIAS_DEFS]
        if cpuname.endswith("+wrap"):
            return ["\tcpu %s" % cpuname[:-5], "\twrapmode on"] + al
        return ["\tcpu %s" % cpuname] + al     # may carry the CPU argument `:codesegsize=0'

    @staticmethod
    def org(a):
        return "\torg %d" % a

    @staticmethod
    def sent(k):
        return "\tdata %d" % (k % 60000 + 1)

    @staticmethod
    def sent_bytes(k):
        v = k % 60000 + 1
        return bytes([v & 255, v >> 8])

    @classmethod
    def cases(cls, rng, tier, forms):
        N = num_c
        out = []
        quick = tier == "quick"

        def pcs_plain(dev, words=1):
            return rng.choice([0, 2, 0x40, 0x123, 0x1e0, (1 << DEVICES[dev][1]) - 2])

        def add(dev, mn, args, text, tag, pc=None, wrap=False, byte=False):
            if pc is None:
                pc = pcs_plain(dev)
            out.append(Case("avr", dev + (8 if wrap else 0) + (16 if byte else 0), pc, mn, args,
                            "\t%s %s" % (mn.lower() if rng.random() < 0.5 else mn, text), tag))

        def dense_dev(mincore, mn):
            """device on which the dense enumeration of a mnemonic runs: one that has it"""
            if mn in ("JMP", "CALL"):
                return 3
            if mn in ("ELPM", "EIJMP", "EICALL"):
                return 6
            return [d for d in range(len(DEVICES)) if CORE[d] >= mincore][0]

        r_all = list(range(0, 34)) + [-1]
        for (mn, form, mincore) in forms:
            dd = dense_dev(mincore, mn)
            for dev in range(len(DEVICES)):
                dense = dev == dd
                R = lambda r: reg(rng, r)
                rr = lambda: rng.randrange(0, 32)
                rh = lambda: rng.randrange(16, 32)
                if form == "none":
                    add(dev, mn, [], "", "fixed")
                    if dense:
                        add(dev, mn, [1], "1", "argcnt")
                elif form in ("reg", "regHi"):
                    for r in (r_all if dense else [0, 15, 16, 31, 32, rr()]):
                        add(dev, mn, [r], R(r), "reg")
                    if dense:
                        add(dev, mn, [], "", "argcnt")
                        add(dev, mn, [1, 2], "r1,r2", "argcnt")
                elif form in ("rr", "rrHi", "rrMid", "rrEven"):
                    lo, hi = {"rr": (0, 33), "rrHi": (13, 33), "rrMid": (13, 26), "rrEven": (0, 33)}[form]
                    if dense and (not quick or form != "rr" or rng.random() < 0.25):
                        pairs = [(a, c) for a in range(lo, hi + 1) for c in range(lo, hi + 1)]
                        tag = "rr-all-pairs"
                    elif dense:
                        pairs = [(a, rr()) for a in r_all] + [(rr(), c) for c in r_all] + [(rr(), rr()) for _ in range(20)]
                        tag = "rr"
                    else:
                        pairs = [(rr(), rr()), (rh(), rh()), (16 + rr() % 8, 16 + rr() % 8), (rr() & 30, rr() & 30), (15, 16), (24, 23)]
                        tag = "rr"
                    for a, c in pairs:
                        add(dev, mn, [a, c], "%s,%s" % (R(a), R(c)), tag)
                    if dense:
                        add(dev, mn, [3], "r3", "argcnt")
                elif form == "imm8":
                    if dense:
                        ks = list(range(-131, 259)) + limits(-128, 255, rng, 4)
                        for k in ks:
                            r = rh()
                            add(dev, mn, [r, k], "%s,%s" % (R(r), N(rng, k)), "imm8")
                        for r in r_all:
                            k = rng.randrange(-128, 256)
                            add(dev, mn, [r, k], "%s,%s" % (R(r), N(rng, k)), "imm8-reg")
                        if not quick:
                            for r in range(16, 32):
                                for k in list(range(-128, 256)):
                                    add(dev, mn, [r, k], "%s,%d" % (R(r), k), "imm8-all")
                        add(dev, mn, [17], "r17", "argcnt")
                    else:
                        for k in (-129, -128, -1, 0, 255, 256, rng.randrange(0, 256)):
                            r = rh()
                            add(dev, mn, [r, k], "%s,%s" % (R(r), N(rng, k)), "imm8")
                        add(dev, mn, [15, 1], "r15,1", "imm8-reg")
                elif form == "adiw":
                    if dense:
                        for r in range(22, 34):
                            for k in (range(-2, 67) if r in (24, 26, 28, 30) else (0, 63, 64)):
                                add(dev, mn, [r, k], "%s,%s" % (R(r), N(rng, k)), "adiw")
                        for r in range(0, 22):
                            add(dev, mn, [r, 1], "%s,1" % R(r), "adiw")
                        for k in limits(0, 63, rng, 2):
                            add(dev, mn, [24, k], "r24,%s" % N(rng, k), "adiw")
                    else:
                        for r, k in ((24, 63), (30, 64), (25, 1), (rng.choice([24, 26, 28, 30]), rng.randrange(64))):
                            add(dev, mn, [r, k], "%s,%s" % (R(r), N(rng, k)), "adiw")
                elif form in ("ld", "st"):
                    ms = list(range(-1, 11))
                    combos = [(r, m) for r in (r_all if dense else [0, 26, 31, 32, rr()]) for m in (ms if dense else list(range(0, 10)))]
                    for r, m in combos:
                        if form == "ld":
                            add(dev, mn, [r, m], "%s,%s" % (R(r), mode(rng, m)), "ld-st")
                        else:
                            add(dev, mn, [m, r], "%s,%s" % (mode(rng, m), R(r)), "ld-st")
                    if dense:
                        add(dev, mn, [3], "r3", "argcnt")
                elif form in ("ldd", "std"):
                    qs = list(range(-3, 68)) + [255, 256, 65535, -64] if dense else [0, 1, 63, 64, -1, rng.randrange(64)]
                    combos = [(rr(), p, q) for p in (0, 1, 2) for q in qs]
                    if dense:
                        combos += [(r, rng.randrange(2), rng.randrange(64)) for r in r_all]
                    for r, p, q in combos:
                        if form == "ldd":
                            add(dev, mn, [r, p, q], "%s,%s" % (R(r), disp(rng, p, q)), "ldd")
                        else:
                            add(dev, mn, [p, q, r], "%s,%s" % (disp(rng, p, q), R(r)), "ldd")
                    if dense:
                        add(dev, mn, [3], "r3", "argcnt")
                elif form in ("lds", "sts"):
                    ks = limits(0, 65535, rng, 8) + [255, 256, 0x5f, 0x60] if dense else [0, 65535, 65536, -1, rng.randrange(65536)]
                    combos = [(rr(), k) for k in ks] + ([(r, rng.randrange(65536)) for r in r_all] if dense else [(32, 5)])
                    for r, k in combos:
                        pc = rng.choice([0, 2, 0x40, 0x123, 0x1e0])
                        if form == "lds":
                            add(dev, mn, [r, k], "%s,%s" % (R(r), N(rng, k)), "lds-sts", pc=pc)
                        else:
                            add(dev, mn, [k, r], "%s,%s" % (N(rng, k), R(r)), "lds-sts", pc=pc)
                elif form in ("in", "out"):
                    As = list(range(-3, 68)) + [255, 256, 65535, 65536] if dense else [0, 63, 64, -1, rng.randrange(64)]
                    combos = [(rr(), a) for a in As] + ([(r, rng.randrange(64)) for r in r_all] if dense else [(32, 5)])
                    for r, a in combos:
                        if form == "in":
                            add(dev, mn, [r, a], "%s,%s" % (R(r), N(rng, a)), "in-out")
                        else:
                            add(dev, mn, [a, r], "%s,%s" % (N(rng, a), R(r)), "in-out")
                elif form == "lpm":
                    add(dev, mn, [], "", "lpm")
                    for m in range(-1, 11):
                        r = rr()
                        add(dev, mn, [r, m], "%s,%s" % (R(r), mode(rng, m)), "lpm")
                    for r in (r_all if dense else [0, 30, 31, 32]):
                        m = rng.choice([6, 7])
                        add(dev, mn, [r, m], "%s,%s" % (R(r), mode(rng, m)), "lpm")
                    if dense:
                        add(dev, mn, [3], "r3", "argcnt")
                        add(dev, mn, [3, 6, 1], "r3,Z,1", "argcnt")
                elif form == "bit3":
                    for s in (sorted(set(limits(0, 7, rng, 3) + list(range(-2, 11)))) if dense else [0, 7, 8, -1]):
                        add(dev, mn, [s], N(rng, s), "bit3")
                elif form == "regBit":
                    combos = [(rr(), s) for s in (sorted(set(limits(0, 7, rng, 3) + list(range(-2, 11)))) if dense else [0, 7, 8, -1])]
                    combos += [(r, rng.randrange(8)) for r in (r_all if dense else [31, 32])]
                    for r, s in combos:
                        add(dev, mn, [r, s], "%s,%s" % (R(r), N(rng, s)), "reg-bit")
                elif form == "ioBit":
                    As = list(range(-2, 70)) + [95, 96, 255, 256, 511, 512, 513, 543, 544, 607, 608, 1023, 1024, 1055, 1056, 1119, 1120,
                                                4351, 4352, 8703, 8704, 65535, 65536] if (dense or dev in (1, 6)) else [0, 31, 32, -1, 512, 544, rng.randrange(32)]
                    combos = [(a, rng.randrange(8)) for a in As]
                    combos += [(rng.randrange(32), s) for s in (list(range(-2, 11)) + [255, 65536] if dense else [0, 7, 8])]
                    for a, s in combos:
                        if rng.random() < 0.25:
                            add(dev, mn, [a, s], "%s.%s" % (N(rng, a, False), N(rng, s, False)), "io-bit")   # `name.3` would be ONE symbol name: literals only
                        else:
                            add(dev, mn, [a, s], "%s,%s" % (N(rng, a), N(rng, s)), "io-bit")
                    if dense:
                        add(dev, mn, [1, 2, 3], "1,2,3", "argcnt")
                elif form == "abs":
                    size = 1 << DEVICES[dev][1]
                    ts = sorted(set(limits(0, size - 1, rng, 6) + [65535, 65536, 65537, 131071, 131072, 0x12345 % size, 0x1abcd % size]))
                    for t in ts:
                        add(dev, mn, [t], N(rng, t), "jmp-call", pc=rng.choice([0, 2, 0x40, 0x123, 0x1e0]))
                    if dense:
                        add(dev, mn, [], "", "argcnt")
                elif form in ("rel7", "brb", "rel12"):
                    pass   # below
                else:
                    raise AssertionError("avr: unknown operand form %s of the spec" % form)

        # ---- relative branches: every device, with and without WRAPMODE, program counters at both ends and in the middle of
        # the program memory, targets around both displacement limits (linear and wrapped around the memory)
        rel7 = [mn for (mn, form, _c) in forms if form == "rel7"]
        brb = [mn for (mn, form, _c) in forms if form == "brb"]
        rel12 = [mn for (mn, form, _c) in forms if form == "rel12"]

        def branch(dev, wrap, pc, t, lim, tag):
            if lim == 64:
                if rng.random() < 0.2 and brb:
                    mn = rng.choice(brb)
                    s = rng.randrange(8)
                    add(dev, mn, [s, t], "%s,%s" % (N(rng, s), N(rng, t)), tag, pc=pc, wrap=wrap)
                else:
                    mn = rng.choice(rel7)
                    add(dev, mn, [t], N(rng, t), tag, pc=pc, wrap=wrap)
            else:
                mn = rng.choice(rel12)
                add(dev, mn, [t], N(rng, t), tag, pc=pc, wrap=wrap)

        for dev in range(len(DEVICES)):
            size = 1 << DEVICES[dev][1]
            pcs = {0, 1, 62, 63, 64, 65, 100, size // 2 - 1, size // 2, size - 66, size - 65, size - 64, size - 63, size - 2, size - 1,
                   2046, 2047, 2048, 2049, size - 2050, size - 2049, size - 2048, size - 2047, rng.randrange(size), rng.randrange(size)}
            pcs = sorted(p for p in pcs if 0 <= p < size and p not in (SENT - 1, SENT, SENT + 1))
            for wrap in (False, True):
                for lim in (64, 2048):
                    for pc in pcs:
                        ds = set()
                        for e in (-lim, lim - 1):
                            ds |= {e - 2, e - 1, e, e + 1, e + 2}
                        ds |= {-1, 0, 1, rng.randrange(-lim, lim), rng.randrange(-lim, lim)}
                        ts = set()
                        for d in ds:
                            ts |= {pc + 1 + d, (pc + 1 + d) % size}
                        ts |= {0, size - 1, size, -1, rng.randrange(size)}
                        if quick:
                            ts = set(rng.sample(sorted(ts), min(len(ts), 14)))
                        for t in sorted(ts):
                            branch(dev, wrap, pc, t, lim, "branch" if lim == 64 else "rjmp")
                # every conditional-branch mnemonic at both limits
                for mn in rel7 + brb:
                    pc = rng.choice([p for p in pcs if 70 <= p < size - 70] or [size // 2])
                    for d in (-65, -64, 63, 64):
                        t = pc + 1 + d
                        if mn in brb:
                            for s in ((0, 7, 8, -1) if d == 63 else (rng.randrange(8),)):
                                add(dev, mn, [s, t], "%s,%s" % (N(rng, s), N(rng, t)), "branch", pc=pc, wrap=wrap)
                        else:
                            add(dev, mn, [t], N(rng, t), "branch", pc=pc, wrap=wrap)
            if dev == 1:
                for mn in rel7 + brb + rel12:
                    add(dev, mn, [], "", "argcnt", pc=0x20)
        # every displacement: conditional branches on each device, RJMP/RCALL on two devices (all devices in the thorough tier)
        for dev in range(len(DEVICES)):
            size = 1 << DEVICES[dev][1]
            for wrap in (False, True):
                pc = rng.choice([size // 2, 80, size - 80] if size > 512 else [size // 2, 80])
                mn = rng.choice(rel7)
                for d in range(-70, 71):
                    t = pc + 1 + d
                    add(dev, mn, [t], N(rng, t), "branch-all-distances", pc=pc, wrap=wrap)
                if (not quick or dev in (1, 5)) and rel12:
                    pc = rng.choice([size // 2, 2100, size - 2100] if size > 4300 else [size // 2, 5, size - 5])
                    mn = rng.choice(rel12)
                    for d in range(-2055, 2056):
                        t = (pc + 1 + d) % size if (wrap or size <= 4096) else pc + 1 + d
                        add(dev, mn, [t], str(t), "rjmp-all-distances", pc=pc, wrap=wrap)
        # ---- byte-addressed code space (`cpu <device>:codesegsize=0`): program counter and code addresses are written in bytes, the
        # instruction words stay the same.  Every relative and absolute branch form at non-zero byte addresses all over the program
        # memory, targets (even = word boundary, and odd) around both displacement limits and both ends of the memory, with and without
        # WRAPMODE; plus a sample of all other statements (they must not depend on the address unit).
        def bbranch(dev, wrap, pcw, tw, lim, tag, odd=False):
            t = 2 * tw + (1 if odd else 0)
            if lim == 64:
                if rng.random() < 0.25 and brb:
                    mn = rng.choice(brb)
                    s = rng.randrange(8)
                    add(dev, mn, [s, t], "%s,%s" % (N(rng, s), N(rng, t)), tag, pc=2 * pcw, wrap=wrap, byte=True)
                else:
                    mn = rng.choice(rel7)
                    add(dev, mn, [t], N(rng, t), tag, pc=2 * pcw, wrap=wrap, byte=True)
            elif rel12:
                mn = rng.choice(rel12)
                add(dev, mn, [t], N(rng, t), tag, pc=2 * pcw, wrap=wrap, byte=True)

        absm = [mn for (mn, form, _c) in forms if form == "abs"]
        for dev in range(len(DEVICES)):
            size = 1 << DEVICES[dev][1]
            pcs = {0, 1, 2, 3, 31, 62, 63, 64, 65, 100, 129, size // 2 - 1, size // 2, size - 66, size - 65, size - 64, size - 63, size - 2, size - 1,
                   2046, 2047, 2048, 2049, size - 2050, size - 2049, size - 2048, size - 2047,
                   rng.randrange(1, size), rng.randrange(1, size), rng.randrange(1, min(size, 300))}
            pcs = sorted(p for p in pcs if 0 <= p < size and abs(2 * p - SENT) > 6)
            for wrap in (False, True):
                for lim in (64, 2048):
                    for pcw in (pcs if not quick else rng.sample(pcs, min(len(pcs), 16))):
                        ds = set()
                        for e in (-lim, lim - 1):
                            ds |= {e - 2, e - 1, e, e + 1, e + 2}
                        ds |= {-1, 0, 1, rng.randrange(-lim, lim), rng.randrange(-lim, lim)}
                        ts = set()
                        for d in ds:
                            ts |= {pcw + 1 + d, (pcw + 1 + d) % size}
                        ts |= {0, size - 1, size, -1, rng.randrange(size)}
                        for tw in (sorted(ts) if not quick else rng.sample(sorted(ts), min(len(ts), 9))):
                            bbranch(dev, wrap, pcw, tw, lim, "branch-bytemode" if lim == 64 else "rjmp-bytemode", odd=rng.random() < 0.08)
                # every conditional-branch mnemonic at both limits, somewhere in the middle of the memory
                mid = [p for p in pcs if 70 <= p < size - 70] or [size // 2]
                for mn in rel7 + brb:
                    pcw = rng.choice(mid)
                    for d in (-65, -64, 63, 64):
                        t = 2 * (pcw + 1 + d)
                        if mn in brb:
                            s_ = rng.randrange(8)
                            add(dev, mn, [s_, t], "%s,%s" % (N(rng, s_), N(rng, t)), "branch-bytemode", pc=2 * pcw, wrap=wrap, byte=True)
                        else:
                            add(dev, mn, [t], N(rng, t), "branch-bytemode", pc=2 * pcw, wrap=wrap, byte=True)
                # every distance of the conditional branches (even and odd byte targets) at a random position
                if not quick or not wrap:
                    pcw = rng.choice(mid)
                    mn = rng.choice(rel7)
                    for d2 in range(-140, 141):
                        t = 2 * (pcw + 1) + d2
                        add(dev, mn, [t], N(rng, t), "branch-bytemode-all-distances", pc=2 * pcw, wrap=wrap, byte=True)
                # absolute jumps: byte targets over the whole program memory and just outside
                for mn in absm:
                    tws = sorted(set(limits(0, size - 1, rng, 5, wide=False) + [32767, 32768, 65535, 65536, 0x12345 % size]))
                    for tw in tws:
                        for odd in ((0, 1) if tw in (0, size - 1, size) else (0,)):
                            t = 2 * tw + odd
                            add(dev, mn, [t], N(rng, t), "jmp-call-bytemode", pc=2 * rng.choice([1, 3, 0x40, 0x123, 0x1e0]), wrap=wrap, byte=True)
                    add(dev, mn, [-2], "-2", "jmp-call-bytemode", pc=2, wrap=wrap, byte=True)
        # all other statements: a sample of the word-mode cases, the program counter doubled
        plain = [c for c in out if c.cpu < 16 and not any(x in c.tag for x in ("branch", "rjmp", "jmp-call"))]
        for c in rng.sample(plain, min(len(plain), 1200 if quick else 6000)):
            if abs(2 * c.pc - SENT) > 6:
                out.append(Case("avr", c.cpu + 16, 2 * c.pc, c.mn, c.args, c.text, c.tag + "-bytemode"))
        return out

    @staticmethod
    def sig(case, kv):
        c = kv.get("cls")
        if c == "size-gated":
            return SIG_SIZE
        if c == "pbit-trunc":
            return SIG_PBIT
        if c == "wrap-byte":
            return SIG_WRAPB
        return None
