"""C09, code-page histories: CODEPAGE / CHARSET / SAVE / RESTORE statements interleaved with data statements.

Called from c09.run().  One case is a *history*: a whole source file from the beginning of a pass.  It creates named
character sets with the one- and the two-argument form of CODEPAGE (source = STANDARD, another existing set, the
active set, a name no set has), re-selects existing ones (with and without a second argument), changes the active
set with every CHARSET form (single entry, range, string, reset), saves and restores the active set with SAVE /
RESTORE, and lays strings and character constants with the data statements of Intel- and Motorola-style targets
(DB/DW/DD/DQ, FCC/FCB/BYT/ADR/FDB, DC.x) at every point of the history; the target may change inside a history.
Names are spelled in random case (sets are not case-sensitive by default) or, with `-U`, exactly (then a different
spelling is a different set and `standard` is not `STANDARD`).  A quarter of the histories is assembled with one
forced extra pass (hook H1): every pass starts with the single set STANDARD again.

Statements that must be rejected (`CODEPAGE new,nosuch`, RESTORE on an empty stack) are wrapped in
`EXPECT <number>` / `ENDEXPECT`, so the code file is still written and shows what the statements *behind* the rejected
one lay down; if the real assembler accepts such a statement (or rejects another one) the wrapping is adapted and
the observation `K`/`E` of that statement goes to the Lean side.

The Lean driver (mode `c09p`) runs the history through Model/CodePage.lean (B: transcription of CodeCODEPAGE with the
sorted chain of tables, CodeCHARSET on the current table, CodeSAVE/CodeRESTORE; data statements by Model/DataExt.lean
with the current table) and Spec/CodePage.lean (C: partial map name -> table written from the manual; data statements
by Spec/DataExt.lean with the active set's table) and compares every observation of the real run with both.

Besides the random stream there is a systematic family (`shape_histories`, every run, random parameters): for every
combination (which set is active: STANDARD / a modified set / a set copied from it and modified further) x (source of
the new set: none, STANDARD, each existing set, unknown) a new set is created, strings are laid, the new set is
modified, and every other set is re-selected and shown to be untouched.
"""
import os
from collections import Counter

from .. import common
from . import c09_ext as X

SLOT = 0x100
BASE = 0x400
ERR_UNKNOWN_CODEPAGE = 1610
ERR_NO_SAVE_FRAME = 1450

NAME_POOL = ["upper", "plain", "shout", "cp1", "cp2", "ebcdic", "a", "z9", "stand", "standard2", "petscii", "x_1", "lcd"]
UNKNOWN_POOL = ["nosuch", "standar", "upperr", "q"]


def targets():
    return [t for t in X.XT if t["gran"] == 1 and t["seg"] == X.SEG_CODE]


# ------------------------------------------------------------------ generator-side simulation (for steering and statistics only;
# the oracle is the Lean specification)

class Sim:
    def __init__(self, U):
        self.U = U
        self.tabs = {"STANDARD": list(range(256))}
        self.active = "STANDARD"
        self.stack = []

    def fold(self, n):
        return n if self.U else n.upper()

    def page(self, name, src):
        """returns (accepted, created, source table differs from the active table)"""
        n = self.fold(name)
        if src is None:
            t0 = self.tabs[self.active]
        else:
            t0 = self.tabs.get(self.fold(src))
        if t0 is None:
            return False, False, False
        if n in self.tabs:
            self.active = n
            return True, False, False
        differs = t0 != self.tabs[self.active]
        self.tabs[n] = list(t0)
        self.active = n
        return True, True, differs

    def charset(self, o):
        self.tabs[self.active] = X.table_of([("str", 0, bytes(self.tabs[self.active])), o])

    def save(self):
        self.stack.append(self.active)

    def restore(self):
        if not self.stack:
            return False
        self.active = self.stack.pop()
        return True

    def cur(self):
        return self.tabs[self.active]


def spell(rng, sim, name):
    """a spelling of `name` that denotes the same set"""
    if sim.U:
        return name
    r = rng.random()
    if r < 0.4:
        return name
    if r < 0.6:
        return name.upper()
    if r < 0.75:
        return name.lower()
    return "".join(ch.upper() if rng.random() < 0.5 else ch.lower() for ch in name)


# ------------------------------------------------------------------ data slots

def string_stmt(rng, tgt, stats, letters):
    """a statement that lays strings / character constants over the given letters"""
    def s(maxlen=8):
        n = rng.choice([1, 2, 3, 3, 4, 6, maxlen])
        return bytes(rng.choice(letters) for _ in range(n))
    fam = rng.choice(tgt["fams"])
    if fam == "ix":
        op, bits, intOK, flt = rng.choice([X.IX_KINDS[1]] * 5 + [X.IX_KINDS[2]] * 2 + [X.IX_KINDS[3]])
        args = []
        for _ in range(rng.choice([1, 1, 2])):
            r = rng.random()
            if r < 0.7:
                a = ("s", s())
            else:
                a = ("c", s(2)[:max(1, min(bits // 8, rng.choice([1, 2, 4])))])
            if rng.random() < 0.15:
                a = ("d", rng.choice([2, 3]), [a])
            args.append(a)
        stats["p-data:string-" + op] += 1
        return dict(k="IX", op=op, bits=bits, intOK=intOK, flt=flt, args=args)
    if fam == "m8":
        r = rng.random()
        if r < 0.45:
            st = dict(k="FCC", op="fcc", args=[])
        elif r < 0.8:
            st = dict(k="BYT", op=rng.choice(["byt", "fcb"]), args=[])
        else:
            st = dict(k="ADR", op=rng.choice(["adr", "fdb"]), args=[])
        for _ in range(rng.choice([1, 1, 2])):
            a = ("s", s()) if (st["k"] == "FCC" or rng.random() < 0.75) else ("c", s(2)[:rng.choice([1, 2])])
            if rng.random() < 0.2:
                a = ("r", rng.choice([2, 3]), a)
            st["args"].append(a)
        stats["p-data:string-" + st["k"].lower()] += 1
        return st
    attr, bytes_, intOK, flt = rng.choice([X.DC_KINDS[0]] * 4 + [X.DC_KINDS[1]] * 2 + [X.DC_KINDS[2]])
    args = []
    for _ in range(rng.choice([1, 1, 2])):
        a = ("s", s(6)) if rng.random() < 0.75 else ("c", s(2)[:min(bytes_, rng.choice([1, 2]))])
        if rng.random() < 0.2:
            a = ("r", rng.choice([2, 3]), a)
        args.append(a)
    stats["p-data:string-dc." + attr] += 1
    return dict(k="DC", attr=attr, bytes=bytes_, intOK=intOK, flt=flt, args=args)


def cover_stmt(rng, tgt, stats, letters):
    """a byte-string statement that contains every one of the given letters (a table entry that is wrong shows)"""
    ls = list(letters)
    rng.shuffle(ls)
    sv = bytes(ls)
    fam = rng.choice(tgt["fams"])
    stats["p-data:cover-" + fam] += 1
    if fam == "ix":
        return dict(k="IX", op="db", bits=8, intOK=1, flt="-", args=[("s", sv)])
    if fam == "m8":
        return dict(k="FCC", op="fcc", args=[("s", sv)]) if rng.random() < 0.5 else dict(k="BYT", op="fcb", args=[("s", sv)])
    return dict(k="DC", attr="b", bytes=1, intOK=1, flt="-", args=[("s", sv)])


def gen_slot(c09, rng, tgt, stats, letters, tries=0, cover=None):
    stmts = []
    if cover:
        stmts.append(cover_stmt(rng, tgt, stats, cover))
    for _ in range(1 if rng.random() < 0.75 else 2):
        if rng.random() < 0.7:
            stmts.append(string_stmt(rng, tgt, stats, letters))
        else:
            fam = rng.choice(tgt["fams"])
            stats["p-data:any-" + fam] += 1
            if fam == "ix":
                st = X.gen_ix(c09, rng, tgt, stats, True)
                while st["k"] == "IX" and st["bits"] == 80:
                    # DT meets the recorded finding ext80-of-zero-or-denormal-double (a character translated to 0, a zero argument);
                    # the statement streams report it - here it would hide the rest of the history from the specification
                    st = X.gen_ix(c09, rng, tgt, stats, True)
                stmts.append(st)
            elif fam == "m8":
                stmts.append(X.gen_m8(c09, rng, tgt, stats, True))
            else:
                stmts.append(X.gen_dc(c09, rng, tgt, stats, True))
    for s in stmts:
        if s["k"] == "DS":
            s["unit"] = 1
    stmts.append(X.sentinel(tgt))
    if sum(X.est_bytes(s) for s in stmts) + 8 > SLOT - 2:
        if tries > 20:
            stmts = ([cover_stmt(rng, tgt, stats, cover)] if cover else []) + [string_stmt(rng, tgt, stats, letters), X.sentinel(tgt)]
        else:
            return gen_slot(c09, rng, tgt, stats, letters, tries + 1, cover)
    padding = tgt["padding"] and rng.random() < 0.7
    return dict(k="data", tgt=tgt, padding=padding, pc0=rng.choice([0, 0, 1]), stmts=stmts)


def letters_of(ops_letters):
    return bytes(sorted(set(ops_letters))) or X.LETTERS[:8]


def touched(o):
    """source codes a CHARSET operation assigns"""
    if o[0] == "reset":
        return []
    if o[0] == "range":
        return list(range(o[1], min(o[2], 255) + 1))
    if o[0] == "one":
        return [o[1]]
    return list(range(o[1], o[1] + len(o[2])))


# ------------------------------------------------------------------ histories

class Hist:
    def __init__(self, rng, U, extra, tgt, kind):
        self.rng = rng
        self.U = U
        self.extra = extra
        self.tgt = tgt
        self.kind = kind
        self.ops = []
        self.sim = Sim(U)
        self.letters = list(X.LETTERS[:6])
        self.facts = Counter()

    # every method appends one statement and keeps the generator-side simulation in step
    def page(self, name, src=None, spelled=None):
        sp = spelled or (spell(self.rng, self.sim, name), None if src is None else spell(self.rng, self.sim, src))
        acc, created, differs = self.sim.page(sp[0], sp[1])
        self.ops.append(dict(k="page", name=sp[0], src=sp[1], flag="K" if acc else "E"))
        self.facts["page:" + ("rejected" if not acc else ("created" if created else "selected")) + ("-1arg" if src is None else "-2arg")] += 1
        if created and differs:
            self.facts["page:created-from-a-table-that-differs-from-the-active-one"] += 1

    def charset(self, o):
        self.sim.charset(o)
        for z in touched(o):
            if 33 <= z < 127 and z not in (34, 39, 92) and z not in self.letters:
                self.letters.append(z)
        self.ops.append(dict(k="cs", o=o))
        self.facts["charset:" + o[0]] += 1

    def save(self):
        self.sim.save()
        self.ops.append(dict(k="save"))
        self.facts["save"] += 1

    def restore(self):
        acc = self.sim.restore()
        self.ops.append(dict(k="restore", flag="K" if acc else "E"))
        self.facts["restore:" + ("ok" if acc else "rejected")] += 1

    def data(self, c09, stats, tgt=None, wide=False, cover=False):
        t = tgt or self.tgt
        letters = bytes(self.letters[-14:] if not wide else self.letters)
        if self.rng.random() < 0.3:
            letters = bytes(self.letters)
        cov = None
        if cover:
            # a..f and every printable source code some CHARSET statement of the history assigned (the latest 40 of them)
            cov = bytes(self.letters[:6] + self.letters[6:][-40:])
        op = gen_slot(c09, self.rng, t, stats, letters, cover=cov)
        op["table"] = list(self.sim.cur())
        self.ops.append(op)
        self.facts["data:" + ("identity" if op["table"] == list(range(256)) else "mapped") + "-table"] += 1
        self.facts["data:target:" + t["name"]] += 1


def rand_csops(rng, stats):
    ops = X.gen_charset(rng, stats)
    while not ops and rng.random() < 0.8:
        ops = X.gen_charset(rng, stats)
    return ops


def gen_history(c09, rng, stats):
    T = targets()
    U = rng.random() < 0.15
    h = Hist(rng, U, 1 if rng.random() < 0.25 else 0, rng.choice(T), "random")
    names = rng.sample(NAME_POOL, rng.choice([2, 3, 3, 4, 5]))
    if U and rng.random() < 0.6:
        names.append(names[0].upper())           # with -U a second set whose name differs in case only
    n_ops = rng.choice([6, 9, 12, 16, 22, 30])
    n_data = 0
    while len(h.ops) < n_ops and n_data < 22:
        r = rng.random()
        existing = [n for n in h.sim.tabs if n != h.sim.active]
        free = [n for n in names if h.sim.fold(n) not in h.sim.tabs]
        if r < 0.30:
            # CODEPAGE
            r2 = rng.random()
            if free and r2 < 0.6:
                name = rng.choice(free)
                r3 = rng.random()
                if r3 < 0.25:
                    h.page(name)
                elif r3 < 0.50:
                    h.page(name, "STANDARD" if not U or rng.random() < 0.85 else "standard")
                elif r3 < 0.75 and existing:
                    h.page(name, rng.choice(existing))
                elif r3 < 0.88:
                    h.page(name, h.sim.active)
                elif r3 < 0.95:
                    h.page(name, rng.choice(UNKNOWN_POOL))
                else:
                    h.page(name, name)                  # a set cannot be its own source: it does not exist yet
            elif existing and r2 < 0.85:
                h.page(rng.choice(existing))
            elif existing:
                h.page(rng.choice(existing), rng.choice(list(h.sim.tabs)))      # second argument without meaning
            else:
                h.page(h.sim.active)
            if rng.random() < 0.5:
                h.data(c09, stats, tgt=(h.tgt if rng.random() < 0.75 else rng.choice(T)))
                n_data += 1
        elif r < 0.55:
            for o in rand_csops(rng, stats):
                h.charset(o)
            if rng.random() < 0.6:
                h.data(c09, stats, tgt=(h.tgt if rng.random() < 0.75 else rng.choice(T)))
                n_data += 1
        elif r < 0.62:
            h.save()
        elif r < 0.70:
            if h.sim.stack or rng.random() < 0.1:
                h.restore()
        else:
            h.data(c09, stats, tgt=(h.tgt if rng.random() < 0.75 else rng.choice(T)))
            n_data += 1
    while h.sim.stack:                           # a SAVE without RESTORE at the end of the source is an error
        h.restore()
        if rng.random() < 0.5:
            h.data(c09, stats, wide=True)
            n_data += 1
    # every set once more at the end: what it holds after the whole history
    for n in list(h.sim.tabs)[:6]:
        if n_data >= 30:
            break
        h.page(n)
        h.data(c09, stats, wide=True, cover=rng.random() < 0.7)
        n_data += 1
    return h


def shape_histories(c09, rng, stats):
    """the neighbourhood of `CODEPAGE new,source` while another set is active - every combination, every run"""
    T = targets()
    out = []
    for act in ("STANDARD", "A", "B"):
        for srck in ("none", "STANDARD", "A", "B", "unknown"):
            for variant in range(2):
                U = variant == 1 and rng.random() < 0.3
                h = Hist(rng, U, 1 if rng.random() < 0.2 else 0, rng.choice(T), "shape:%s-active/source-%s" % (act, srck))
                a, bname, new = rng.sample(NAME_POOL, 3)
                names = {"STANDARD": "STANDARD", "A": a, "B": bname}
                if variant == 1 and rng.random() < 0.5:
                    for o in rand_csops(rng, stats):        # STANDARD itself modified first
                        h.charset(o)
                h.data(c09, stats)
                h.page(a) if rng.random() < 0.5 else h.page(a, "STANDARD")
                for o in rand_csops(rng, stats):
                    h.charset(o)
                h.data(c09, stats)
                r = rng.random()
                if r < 0.4:
                    h.page(bname)                           # copy of A ...
                elif r < 0.7:
                    h.page(bname, a)
                else:
                    h.page(bname, "STANDARD")
                for o in rand_csops(rng, stats):            # ... modified further
                    h.charset(o)
                h.data(c09, stats)
                if rng.random() < 0.3:
                    h.save()
                h.page(names[act])
                if srck == "none":
                    h.page(new)
                elif srck == "unknown":
                    h.page(new, rng.choice(UNKNOWN_POOL))
                    h.data(c09, stats, wide=True)           # still under the active set
                    h.page(new, "STANDARD")
                else:
                    h.page(new, names[srck])
                h.data(c09, stats, wide=True, cover=True)
                if rng.random() < 0.6:
                    h.data(c09, stats, tgt=rng.choice(T), wide=True)
                for o in rand_csops(rng, stats):
                    h.charset(o)
                h.data(c09, stats, wide=True)
                order = ["STANDARD", a, bname, new]
                rng.shuffle(order)
                for n in order:
                    h.page(n)
                    h.data(c09, stats, wide=True, cover=True)
                if h.sim.stack:
                    h.restore()
                    h.data(c09, stats, wide=True)
                out.append(h)
    return out


# ------------------------------------------------------------------ running the real assembler

def build_source(c09, h, skip):
    rng = h.rng
    lines = []
    lmap = {}
    slot = 0
    for i, op in enumerate(h.ops):
        k = op["k"]
        if k == "page":
            if "line" not in op:
                op["line"] = "\tcodepage %s%s" % (op["name"], "" if op["src"] is None else "," + op["src"])
            if op["flag"] == "E":
                lines.append("\texpect %d" % ERR_UNKNOWN_CODEPAGE)
                lmap[len(lines)] = (i, "frame")
            lines.append(op["line"])
            lmap[len(lines)] = (i, "stmt-ke")
            if op["flag"] == "E":
                lines.append("\tendexpect")
                lmap[len(lines)] = (i, "endexpect")
        elif k == "restore":
            if op["flag"] == "E":
                lines.append("\texpect %d" % ERR_NO_SAVE_FRAME)
                lmap[len(lines)] = (i, "frame")
            lines.append("\trestore")
            lmap[len(lines)] = (i, "stmt-ke")
            if op["flag"] == "E":
                lines.append("\tendexpect")
                lmap[len(lines)] = (i, "endexpect")
        elif k == "save":
            lines.append("\tsave")
            lmap[len(lines)] = (i, "frame")
        elif k == "cs":
            lines.append(X.src_csop(op["o"]))
            lmap[len(lines)] = (i, "frame")
        else:
            t = op["tgt"]
            op["slot"] = slot
            if "srcs" not in op:
                op["srcs"] = [X.src_stmt(c09, rng, st, t["syn"]) for st in op["stmts"]]
            setup = ["\tcpu %s" % t["cpu"]] + list(t["pre"])
            if t["padding"]:
                setup.append("\tpadding %s" % ("on" if op["padding"] else "off"))
            setup.append(X.org_src(t, BASE + slot * SLOT + op["pc0"]))
            for l in setup:
                lines.append(l)
                lmap[len(lines)] = (i, "frame")
            if i not in skip:
                for l in op["srcs"]:
                    lines.append(l)
                    lmap[len(lines)] = (i, "data")
            slot += 1
    return "\n".join(lines) + "\n", lmap


def assemble(bdir, wd, name, src, h):
    f = os.path.join(wd, name + ".asm")
    open(f, "w").write(src)
    pf = os.path.join(wd, name + ".p")
    if os.path.exists(pf):
        os.unlink(pf)
    flags = ["-q"] + (["-U"] if h.U else [])
    env = {"ASL_VERIF_EXTRA_PASSES": str(h.extra)} if h.extra else None
    rc, so, se = common.run_tool(bdir, "asl", flags + [f, "-o", pf], wd, timeout=120, env=env)
    data = open(pf, "rb").read() if os.path.exists(pf) else None
    return rc, so + se, data


def run_history(c09, bdir, wd, h, tag):
    """fills op['real'] of the data slots and op['flag'] of CODEPAGE/RESTORE; returns harness problems"""
    problems = []
    skip = set()
    data = None
    src = ""
    for attempt in range(5):
        src, lmap = build_source(c09, h, skip)
        rc, out, data = assemble(bdir, wd, "%s_%d" % (tag, attempt), src, h)
        errs = [int(m.group(1)) for m in c09.ERR_RE.finditer(out) if m.group(2) != b"warning"]
        if not errs:
            if rc != 0 or data is None:
                problems.append("asl rc=%s without an error line on history %s: %s" % (rc, tag, out.decode(errors="replace")[-400:]))
                data = None
            break
        data = None
        changed = False
        for ln in set(errs):
            what = lmap.get(ln)
            if what is None or what[1] == "frame":
                problems.append("error outside a test statement: line %d of history %s: %s" % (ln, tag, out.decode(errors="replace")[-400:]))
                continue
            i, kind = what
            op = h.ops[i]
            if kind == "data":
                if i not in skip:
                    skip.add(i)
                    changed = True
            elif kind == "stmt-ke":
                if op["flag"] == "K":
                    op["flag"] = "E"            # the real assembler rejects it: observe the rest with the line wrapped in EXPECT
                    op["observed"] = True
                    changed = True
                else:
                    problems.append("another error than the expected one inside EXPECT: line %d of history %s: %s" % (ln, tag, out.decode(errors="replace")[-400:]))
            elif kind == "endexpect":
                op["flag"] = "K"                # the real assembler accepted the statement
                op["observed"] = True
                changed = True
        if not changed:
            break
    else:
        problems.append("history %s does not settle" % tag)
    h.source = src
    h.asflags = (["-U"] if h.U else [])
    for i, op in enumerate(h.ops):
        if op["k"] == "data":
            op["real"] = "ERR" if i in skip else ("LOST" if data is None else [])
    if data is not None:
        recs = X.parse_records(data)
        if recs is None:
            problems.append("code file of history %s does not parse" % tag)
            recs = []
        per = {}
        for seg, gran, start, bs in recs:
            if not bs:
                continue
            if seg != X.SEG_CODE or gran != 1:
                problems.append("record in segment %d / granularity %d in history %s" % (seg, gran, tag))
                continue
            idx = (start - BASE) // SLOT
            per.setdefault(idx, []).append((start - (BASE + idx * SLOT), bs))
        for i, op in enumerate(h.ops):
            if op["k"] != "data" or op["real"] == "ERR":
                continue
            merged = []
            for off, bs in sorted(per.get(op["slot"], [])):
                if merged and merged[-1][0] + len(merged[-1][1]) == off:
                    merged[-1] = (merged[-1][0], merged[-1][1] + bs)
                else:
                    merged.append((off, bs))
            op["real"] = merged
    return problems


def request_of(h, probes):
    toks = ["1" if h.U else "0", "1" if probes["fixIEEE2"] else "0", "1" if probes["fixHalf"] else "0",
            ("1" if probes.get("sxchar") else "0") + ("1" if probes.get("mcfix") else "0") + ("1" if probes.get("dsbytes") else "0"), str(len(h.ops))]
    for op in h.ops:
        k = op["k"]
        if k == "page":
            if op["src"] is None:
                toks += ["P1", op["name"].encode().hex(), op["flag"]]
            else:
                toks += ["P2", op["name"].encode().hex(), op["src"].encode().hex(), op["flag"]]
        elif k == "cs":
            toks += X.ser_csop(op["o"])
        elif k == "save":
            toks.append("SV")
        elif k == "restore":
            toks += ["RS", op["flag"]]
        else:
            t = op["tgt"]
            toks += ["D", t["key"], str(t["seg"]), str(t["sbig"]), str(t["mturn"]), str(t["ibig"]), "1" if (op["padding"] and t["padding"]) else "0",
                     str(op["pc0"]), str(len(op["stmts"]))]
            for st in op["stmts"]:
                toks += X.ser_stmt(st)
            if op["real"] == "ERR":
                toks.append("ERR")
            else:
                toks += ["OK", str(len(op["real"]))] + ["%d:%s" % (off, bs.hex()) for off, bs in op["real"]]
    return " ".join(toks)


def describe(op):
    k = op["k"]
    if k == "page":
        return op["line"].strip() + (" -> rejected" if op["flag"] == "E" else "")
    if k == "cs":
        return X.src_csop(op["o"]).strip()
    if k in ("save", "restore"):
        return k + (" -> rejected" if op.get("flag") == "E" else "")
    return "; ".join(s.strip() for s in op.get("srcs", [])) + " on " + op["tgt"]["name"] + " -> " + (
        op["real"] if isinstance(op["real"], str) else ",".join("%d:%s" % (o, b.hex()) for o, b in op["real"]))


# ------------------------------------------------------------------ the part

def run_part(c09, args, bdir, wd, ok, probes):
    rng = common.rng_for(args.seed, "C09P")
    thorough = args.tier != "quick"
    n_hist = 3000 if thorough else 200
    stats, dist = Counter(), Counter()
    spec_fail, corr_fail, samples, problems = [], [], [], []
    distinct = set()
    known_hits = Counter()
    hists = shape_histories(c09, rng, stats)
    if thorough:
        for _ in range(9):
            hists += shape_histories(c09, rng, stats)
    for _ in range(n_hist):
        hists.append(gen_history(c09, rng, stats))
    reqs, metas = [], []
    for n, h in enumerate(hists):
        for p in run_history(c09, bdir, wd, h, "p%d" % n):
            corr_fail.append(dict(tag="harness", why=p))
        if any(op["k"] == "data" and op["real"] == "LOST" for op in h.ops):
            continue
        reqs.append(request_of(h, probes))
        metas.append(h)
    answers = common.driver("c09p", reqs, timeout=3600) if ok and reqs else []
    for n, (h, rq, ans) in enumerate(zip(metas, reqs, answers)):
        kv = dict(x.split("=", 1) for x in ans.split() if "=" in x)
        dist["p-kind:" + h.kind.split(":")[0]] += 1
        dist["p-option:" + ("-U" if h.U else "default")] += 1
        dist["p-passes:" + str(1 + h.extra)] += 1
        for k, v in h.facts.items():
            dist["p-" + k] += v
        n_pages = len(h.sim.tabs)
        mapped = sum(1 for op in h.ops if op["k"] == "data" and op["table"] != list(range(256)))
        if n_pages >= 2 and mapped >= 1:
            distinct.add("p " + rq)
        if len(samples) < 3 and (n % 97 == 3):
            samples.append(dict(kind=h.kind, options=h.asflags, passes=1 + h.extra, history=[describe(op) for op in h.ops], verdict=ans[:200]))
        if "model" not in kv:
            problems.append("driver rejected a request: %s / %s" % (ans, rq[:300]))
            continue
        common_part = dict(target=h.tgt["name"], history_kind=h.kind, source=h.source, asflags=h.asflags, passes=1 + h.extra, request=rq, mode="c09p",
                           history=[describe(op) for op in h.ops])
        if kv["spec"] != "ok":
            i = int(kv["sbad"])
            op = h.ops[i]
            sig = None
            if op["k"] == "data" and kv["model"] == "eq":
                # a data statement that misses the specification under the right table: the classes of the statement streams
                sig = X.classify(c09, dict(tgt=op["tgt"], stmts=op["stmts"], csops=[("str", 0, bytes(op["table"]))], real=op["real"]), probes)
            known_hits[str(sig)] += 1
            spec_fail.append(dict(common_part, sig=sig, statement=i, why="statement %d of the history (%s): the real assembler's behaviour differs from the specification: spec=%s" % (
                i, describe(op), kv.get("sout", "?"))))
        if kv["model"] != "eq":
            i = int(kv["mbad"])
            corr_fail.append(dict(common_part, tag="history", statement=i, why="statement %d of the history (%s): the real assembler's behaviour differs from the Lean model: model=%s" % (
                i, describe(h.ops[i]), kv.get("mout", "?"))))
    return dict(spec_fail=spec_fail, corr_fail=corr_fail, evaluations=len(answers), distinct=distinct, dist=dist, stats=stats,
                samples=samples, problems=problems, known_hits=known_hits, probes={})
