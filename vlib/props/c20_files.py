"""C20, part "files": ONE asl invocation over several source files x every -E target.

Positions are positions in a file: what the diagnostics of a source say does not depend on the other file arguments.  So the
diagnostics found after `asl f1 .. fn` (in the place the -E target names) have to be those every fk gets when it is assembled
alone - all of them, once each, in argument order (Spec/PosFiles.lean).  Every source alone is judged against the structural
positions by the existing channel check (driver mode c20c); the joint run by driver mode c20m (Model/PosFiles.lean = the C18
error-log discipline of Model/FileOut.lean composed with the per-source diagnostics).

Generator: 2..4 sources of the nesting-tree generator of c20.py (own include files, macros, block bodies, continuation lines,
class A = one pass / class B = undefined symbols reported in the last pass), some of them error-free, some warning-only,
targets -E (bare), -E <file>, -E !1, -E !2, default; native / -gnuerrors, -n, -x 0..2.
"""
import os
import shutil

from .. import common

TARGETS = ["persource", "named", "named", "named", "!1", "!2", "default"]
T_NUM = {"persource": 0, "named": 1, "!1": 2, "!2": 3, "default": 3}


def clean_source(rng):
    n = rng.randrange(1, 7)
    body = [("plain", " cpu z80", [" cpu z80"])] + [("plain", " nop", [" nop"])] * n
    return body


def target_args(t):
    if t == "persource":
        return ["-E", "-i", "."]          # bare -E (=> <source>.log) must be followed by another option
    if t == "named":
        return ["-E", "all.log"]
    if t in ("!1", "!2"):
        return ["-E", t]
    return []


def base_args(opts):
    a = ["-q"]
    if opts["numeric"]:
        a.append("-n")
    if opts["gnu"]:
        a.append("-gnuerrors")
    return a + ["-x"] * opts["x"]


def read_opt(p):
    return open(p, "rb").read().decode("latin-1") if os.path.exists(p) else None


def hexl(recs):
    if recs is None:
        return "~"
    return ",".join(r["prefix"].encode("latin-1").hex() for r in recs) or "-"


def probe_guard(c20, bdir, wd):
    """does a named log survive the end of a source file?  (self-calibration of the MODEL only: Model/PosFiles `guarded`)"""
    d = os.path.join(wd, "mprobe")
    os.makedirs(d, exist_ok=True)
    for n in ("a", "b"):
        open(os.path.join(d, n + ".asm"), "w").write(" cpu z80\n bogus\n")
    common.run_tool(bdir, "asl", ["-q", "-E", "p.log", "a.asm", "b.asm"], d, timeout=60)
    t = read_opt(os.path.join(d, "p.log")) or ""
    return len(c20.parse_channel(t, False)) == 2


def run_part(c20, bdir, wd, rng, nums, fixed, tier, drv_ok, dist, spec_fail, corr_fail, samples, distinct):
    import time
    t0 = time.time()
    n_sc = {"quick": 120, "thorough": 4000}[tier]
    guarded = probe_guard(c20, bdir, wd)
    dist["files_close_guarded_probe"] = bool(guarded)
    fact = None
    try:
        import re
        m = re.search(r"def errCloseGuard : Nat := (\d+)", open(os.path.join(common.LEAN_DIR, "AslModel", "Generated", "ErrClose.lean")).read())
        fact = int(m.group(1)) if m else None
    except OSError:
        pass
    dist["files_close_guard_ast_fact"] = fact
    if (fact == 1 and not guarded) or (fact == 2 and guarded):
        corr_fail.append(dict(tag="files:probe", why="the clang AST of AssembleFile (errCloseGuard = %s) and the probe of the real binary (a named log "
                              "survives the end of a source file: %s) disagree about the guard of the per-file close" % (fact, guarded)))
    for k_ in ("files_scenarios", "files_sources", "files_sources_clean", "files_sources_with_includes", "files_msgs",
               "files_scenarios_two_or_more_reporting", "files_gnu"):
        dist.setdefault(k_, 0)
    evaluations = 0
    areqs, ametas, mreqs, mmetas = [], [], [], []
    for sc in range(n_sc):
        k = rng.choice([2, 2, 3, 3, 4])
        target = rng.choice(TARGETS)
        opts = dict(gnu=int(rng.random() < 0.4), numeric=int(rng.random() < 0.6), x=rng.choice([0, 1, 1, 2]), lst="none", chan="file")
        pdir = os.path.join(wd, "m%d" % sc)
        os.makedirs(pdir, exist_ok=True)
        names, allfiles, per, srcs = [], {}, [], []
        for i in range(k):
            main = "s%d.asm" % (i + 1)
            x = rng.random()
            if x < 0.2:
                g = c20.Gen(rng, "A", 0.0, "s%d_" % (i + 1))
                top, macros = clean_source(rng), {}
                dist["files_sources_clean"] += 1
            else:
                g, top, macros, _ = c20.gen_program(rng, "B" if x < 0.32 else "A", 0.0, "s%d_" % (i + 1))
            for f in g.faults.values():
                f["numv"] = nums[f["num"]] if f["num"] else None
            files, _ = c20.file_texts(g, top, main)
            allfiles.update(files)
            names.append(main)
            srcs.append((g, top, macros, files))
            dist["files_sources"] += 1
            dist["files_sources_with_includes"] += 1 if len(files) > 1 else 0
        for n, t in allfiles.items():
            open(os.path.join(pdir, n), "w").write(t)
        tag = "files:%d:%s" % (sc, target)
        # every source alone (own -E <file>): judged against the structural positions by c20c
        for i, (g, top, macros, files) in enumerate(srcs):
            lp = os.path.join(pdir, "alone.log")
            if os.path.exists(lp):
                os.unlink(lp)
            cmd = base_args(opts) + ["-E", "alone.log", names[i]]
            rc, so, se = common.run_tool(bdir, "asl", cmd, pdir, timeout=60)
            text = read_opt(lp) or ""
            recs = c20.parse_channel(text, bool(opts["gnu"]))
            crecs = c20.parse_channel(so.decode("latin-1"), bool(opts["gnu"]))
            per.append(recs)
            areqs.append(c20.chan_request(g, top, macros, crecs, recs, None, opts, fixed, names[i]))
            ametas.append(dict(tag=tag + ":alone:" + names[i], files=files, cmd=cmd, rc=rc,
                               channel=[r["prefix"] + r["text"] for r in recs][:40]))
            if rc not in (0, 2):
                corr_fail.append(dict(tag=tag, why="unexpected exit status %s of %s alone" % (rc, names[i]), files=files, cmd=cmd))
        # the joint run
        for n in os.listdir(pdir):
            if n.endswith(".log"):
                os.unlink(os.path.join(pdir, n))
        cmd = base_args(opts) + target_args(target) + names
        rc, so, se = common.run_tool(bdir, "asl", cmd, pdir, timeout=120)
        gnu = bool(opts["gnu"])
        if target == "persource":
            texts = [read_opt(os.path.join(pdir, n[:-4] + ".log")) for n in names]
        elif target == "named":
            texts = [read_opt(os.path.join(pdir, "all.log"))]
        elif target == "!1":
            texts = [so.decode("latin-1")]
        else:
            texts = [se.decode("latin-1")]
        joint = [None if t is None else c20.parse_channel(t, gnu) for t in texts]
        stray = []
        if target in ("persource", "named"):
            stray = c20.parse_channel(so.decode("latin-1"), gnu) + c20.parse_channel(se.decode("latin-1"), gnu)
        elif target == "!1":
            stray = c20.parse_channel(se.decode("latin-1"), gnu)
        else:
            stray = c20.parse_channel(so.decode("latin-1"), gnu)
        kinds = ["".join("w" if "warning" in r["prefix"] else "e" for r in p) or "-" for p in per]
        req = "t%d c%d %d %s %s" % (T_NUM[target], 1 if guarded else 0, k,
                                    " ".join("%s %s" % (hexl(p), kd) for p, kd in zip(per, kinds)), " ".join(hexl(j) for j in joint))
        want_rc = 2 if any("e" in kd for kd in kinds) else 0
        mreqs.append(req)
        mmetas.append(dict(tag=tag, files=allfiles, cmd=cmd, rc=rc, want_rc=want_rc, target=target, names=names, stray=stray,
                           alone=[[r["prefix"] + r["text"] for r in p][:20] for p in per],
                           joint=[None if j is None else [r["prefix"] + r["text"] for r in j][:60] for j in joint]))
        dist["files_scenarios"] += 1
        dist["files_target_" + target] = dist.get("files_target_" + target, 0) + 1
        dist["files_gnu"] += opts["gnu"]
        dist["files_msgs"] += sum(len(p) for p in per)
        dist["files_scenarios_two_or_more_reporting"] += 1 if sum(1 for p in per if p) >= 2 else 0
        shutil.rmtree(pdir, ignore_errors=True)
    aans = common.driver("c20c", areqs, timeout=3600) if drv_ok and areqs else []
    for meta, req, ans in zip(ametas, areqs, aans):
        a = c20.kv(ans)
        evaluations += 1
        payload = dict(request=req, answer=ans[:1500], **meta)
        if "model" not in a:
            corr_fail.append(dict(why="driver rejected the request", **payload))
        elif a.get("spec") != "eq":
            sig = c20.SIG_IRP if (a.get("model") == "eq" and not fixed) else None
            spec_fail.append(dict(sig=sig, why="source of a multi-file scenario, assembled alone: position prefixes differ from the structural spec", **payload))
        elif a.get("model") != "eq" or a.get("ms") != "eq":
            corr_fail.append(dict(why="real output satisfies the spec but the model differs", **payload))
    mans = common.driver("c20m", mreqs, timeout=3600) if drv_ok and mreqs else []
    for meta, req, ans in zip(mmetas, mreqs, mans):
        a = c20.kv(ans)
        evaluations += 1
        payload = dict(request=req, answer=ans[:1500], **{k_: v for k_, v in meta.items() if k_ != "stray"})
        if "model" not in a:
            corr_fail.append(dict(why="driver rejected the request", **payload))
            continue
        for k_ in ("miss", "extra"):
            if k_ in a:
                try:
                    payload["spec_" + k_] = bytes.fromhex(a[k_]).decode("latin-1")
                except ValueError:
                    pass
        if a["spec"] != "eq":
            spec_fail.append(dict(sig=None, why="one asl run over %d source files, error channel %s: %s diagnostic(s) that the sources get when assembled alone "
                                  "are missing from the channel (first: %r), %s diagnostic(s) there belong to no source (first: %r)" % (
                                      len(meta["names"]), meta["target"], a.get("nmiss"), payload.get("spec_miss"), a.get("nextra"),
                                      payload.get("spec_extra")), **payload))
        elif meta["stray"]:
            spec_fail.append(dict(sig=None, why="diagnostics outside the error channel %s: %r" % (meta["target"], meta["stray"][0]["prefix"]), **payload))
        elif a["model"] != "eq" or a["ms"] != "eq" or a.get("link") == "ne":
            corr_fail.append(dict(why="multi-file run: real output satisfies the spec but the model differs (or PosFiles.run /= FileOut.assembleFiles)", **payload))
        elif meta["rc"] != meta["want_rc"]:
            corr_fail.append(dict(why="multi-file run: exit status %s, the sources alone give %s" % (meta["rc"], meta["want_rc"]), **payload))
        distinct.add("M " + req if a.get("n", "0") != "0" else "")
        if a["spec"] == "eq" and not any(s.get("tag", "").startswith("files:") for s in samples) and sum(1 for p in meta["alone"] if p) >= 2:
            samples.append(dict(tag=meta["tag"], options=meta["cmd"], alone=meta["alone"], joint=meta["joint"], verdict=ans[:200]))
    dist["files_wall_s"] = round(time.time() - t0, 2)
    return evaluations
