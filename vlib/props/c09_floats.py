"""C09, floating-point encodings: half, x87/68881 extended, IBM/360 hexadecimal, TMS320C3x formats.

Called from c09.run().  Every case is ONE float constant in ONE target format: the constant is written
as a 17-significant-digit decimal (exact round trip through strtod), assembled by the real assembler,
the emitted bytes are read in the target's documented order and handed to the Lean driver (mode `c09f`),
which compares them with the transcription of the C conversion routine (B) and decodes them with the
format's public definition to compare the value with the rounding of the double's value (C).
"""
import os
import struct
from collections import Counter

from .. import common

# how a format is reached and how its image is read back
#   unit  = bytes per addressable unit in the code file (gran), n = bytes per constant,
#   order = 'le' | 'be' byte order of the whole constant, or a callable bytes -> int
FORMATS = [
    dict(fmt="h", cpu="z80", pre=[], stmt="\tdw %s", n=2, order="le", what="DW half (z80)"),
    dict(fmt="h", cpu="68000", pre=[], stmt="\tdc.c %s", n=2, order="be", what="DC.C half (68000)"),
    dict(fmt="t", cpu="8086", pre=[], stmt="\tdt %s", n=10, order="le", what="DT extended (8086)"),
    dict(fmt="x", cpu="68000", pre=[], stmt="\tdc.x %s", n=12, order="be", what="DC.X extended (68000)"),
    dict(fmt="is", cpu="tms9900", pre=[], stmt="\tsingle %s", n=4, order="be", what="SINGLE IBM short (TMS9900)"),
    dict(fmt="il", cpu="tms9900", pre=[], stmt="\tdouble %s", n=8, order="be", what="DOUBLE IBM long (TMS9900)"),
    dict(fmt="ts", cpu="320c30", pre=[], stmt="\tsingle %s", n=4, order="le", what="SINGLE (320C30)"),
    dict(fmt="tx", cpu="320c30", pre=[], stmt="\textended %s", n=8, order="tx", what="EXTENDED (320C30)"),
    dict(fmt="th", cpu="320c30", pre=[], stmt="\tldf %s,r0", n=4, order="th", what="LDF short immediate (320C30)"),
]

# (dropped double-mantissa bits k at the format's normal precision, exponent range of interest as unbiased (lo, hi))
SHAPE = {
    "h": dict(k=42, lo=-27, hi=17), "t": dict(k=0, lo=-1022, hi=1023), "x": dict(k=0, lo=-1022, hi=1023),
    "is": dict(k=29, lo=-272, hi=256), "il": dict(k=1, lo=-272, hi=256),
    "ts": dict(k=29, lo=-130, hi=130), "tx": dict(k=21, lo=-130, hi=130), "th": dict(k=41, lo=-9, hi=9),
}

# the assembler's own limits in front of the conversion (FloatRangeCheck): values in the gap between the limit and
# the format's true overflow threshold are not generated (stated in the evidence)
HALF_LIMIT = 0x40effc0000000000      # 65504.0
HALF_OVER = 0x40effe0000000000       # 65520.0: the first value that rounds to 2^16
DBL_LIMIT = 0x7fee42d130773b76       # 1.7e308 (Float64 arguments)


def dbits(x):
    return struct.unpack("<Q", struct.pack("<d", x))[0]


def bits2d(n):
    return struct.unpack("<d", struct.pack("<Q", n))[0]


def mk(sign, e, frac):
    """double with unbiased exponent e (-1023 = zero/subnormal) and 52-bit fraction"""
    return (sign << 63) | ((e + 1023) << 52) | (frac & ((1 << 52) - 1))


QNAN = 0xfff8000000000000           # what `1e400-1e400` evaluates to on this host (x86-64 default NaN)


def src_float(bits):
    if bits == QNAN:
        return "(1e400-1e400)"
    if (bits >> 52) & 0x7ff == 0x7ff:
        return "-1e400" if bits >> 63 else "1e400"
    return "%.17e" % bits2d(bits)


def admissible(fmt, bits):
    a = bits & ((1 << 63) - 1)
    if bits == QNAN:
        return True
    if (a >> 52) == 0x7ff:
        return (a & ((1 << 52) - 1)) == 0          # infinities, and the one NaN an expression can produce
    if fmt == "h":
        return a <= HALF_LIMIT or a >= HALF_OVER
    if fmt in ("t", "x"):
        return True                                 # Float80: no limit
    return a <= DBL_LIMIT


def gen_values(rng, fmt, n_random, stats, thorough):
    """list of (class, bits)"""
    sh = SHAPE[fmt]
    k = sh["k"]
    out = []

    def add(cls, bits):
        if admissible(fmt, bits):
            out.append((cls, bits))

    # fixed regression inputs: the witnesses of the recorded findings and of the repaired half-precision defect
    for x in (1.0e-7, 8.94e-8, 65504.0, 65520.0, 1.0, -1.0, -2.0, 0.5, -3.0, 1.5, 0.1, 1e-80, 1.9999999999999998, -1.00000001,
              1.0 + 2.0 ** -21 + 2.0 ** -52, 7.2e75, 7.3e75, 5.5e-79, 5.3e-79, 255.9, 3.4e38, 5.9e-39, 1e40):
        add("hand", dbits(x))
    add("hand", 0xBF07FC0002FFFFFF)
    # specials
    add("nan", QNAN)
    for s in (0, 1):
        add("zero", s << 63)
        add("inf", (s << 63) | 0x7ff0000000000000)
        for b in (1, 2, (1 << 51), (1 << 52) - 1, rng.getrandbits(52) | 1):
            add("subnormal-double", (s << 63) | b)
        add("min-normal-double", mk(s, -1022, 0))
        add("max-double-allowed", (s << 63) | (DBL_LIMIT if fmt not in ("t", "x") else 0x7fefffffffffffff))
    # every exponent boundary of the format's range (both sides), both signs
    exps = list(range(sh["lo"], sh["hi"] + 1))
    if fmt in ("t", "x"):
        step = 1 if thorough else 37
        exps = sorted(set(list(range(-1022, 1024, step)) + [-1022, -1021, -1, 0, 1, 1022, 1023]))
    for e in exps:
        for s in (0, 1):
            add("boundary", mk(s, e, 0))
            add("boundary", mk(s, e, 1))
            add("boundary", mk(s, e, (1 << 52) - 1))
            if k > 0:
                # largest value of the binade that rounds down / the first one that carries into the next binade
                add("boundary-carry", mk(s, e, ((1 << 52) - 1) & ~((1 << (k - 1)) - 1)))
                add("boundary-carry", mk(s, e, (((1 << 52) - 1) & ~((1 << (k - 1)) - 1)) - 1))
    # halfway cases and their neighbours; k varies by up to 3 (hex alignment) resp. with the subnormal shift
    n_tie = n_random // 2
    for _ in range(n_tie):
        e = rng.randrange(sh["lo"], sh["hi"] + 1)
        s = rng.getrandbits(1)
        if k == 0:
            break
        kk = k + (3 - (e % 4)) if fmt in ("is", "il") else k      # hex alignment: 1..4 more bits are dropped
        if fmt == "h" and e < -14:
            kk = min(52, k + (-14 - e))
        kk = min(kk, 52)
        hi = rng.getrandbits(52 - kk) << kk if kk < 52 else 0
        half = 1 << (kk - 1)
        r = rng.random()
        if r < 0.3:
            add("tie", mk(s, e, hi | half))
        elif r < 0.5:
            add("tie+1ulp", mk(s, e, hi | half | 1))
        elif r < 0.6:
            add("tie+low-bit", mk(s, e, hi | half | (1 << rng.randrange(0, max(1, min(kk - 1, 5))))))
        elif r < 0.8:
            add("tie-1ulp", mk(s, e, (hi | half) - 1))
        elif r < 0.9:
            add("exact", mk(s, e, hi))
        else:
            add("near-tie", mk(s, e, hi | half | (rng.getrandbits(kk - 1) if kk > 1 else 0)))
    # random mantissas over the format's exponent range, and random 64-bit patterns
    for _ in range(n_random):
        e = rng.randrange(sh["lo"], sh["hi"] + 1)
        add("random-in-range", mk(rng.getrandbits(1), e, rng.getrandbits(52)))
    for _ in range(n_random // 4):
        b = rng.getrandbits(64)
        add("random-bits", b)
    # de-duplicate, keep order
    seen = set()
    res = []
    for c, b in out:
        if b not in seen:
            seen.add(b)
            res.append((c, b))
            stats["gen:" + c] += 1
    return res


def read_value(f, chunk):
    o = f["order"]
    if o == "le":
        return int.from_bytes(chunk, "little")
    if o == "be":
        return int.from_bytes(chunk, "big")
    if o == "tx":        # two 32-bit words: exponent word first, then the mantissa word
        return (int.from_bytes(chunk[0:4], "little") << 32) | int.from_bytes(chunk[4:8], "little")
    if o == "th":        # instruction word, the immediate is the low half
        return int.from_bytes(chunk[0:4], "little") & 0xffff
    raise AssertionError(o)


def run_format(c09, bdir, wd, f, values, tag):
    """returns (list of (cls, bits, 'ERR' | int), problems)"""
    problems = []
    results = []
    batch_n = 3000
    for bi in range(0, len(values), batch_n):
        vals = values[bi:bi + batch_n]
        bad = set()
        data = None
        for attempt in (0, 1):
            lines = ["\tcpu %s" % f["cpu"]] + list(f["pre"]) + ["\torg 0"]
            line_idx = {}
            for i, (_c, b) in enumerate(vals):
                if i in bad:
                    continue
                lines.append(f["stmt"] % src_float(b))
                line_idx[len(lines)] = i
            rc, out, data = c09.assemble(bdir, wd, "%s_%d_%d" % (tag, bi, attempt), "\n".join(lines) + "\n")
            errs = set()
            for m in c09.ERR_RE.finditer(out):
                if m.group(2) != b"warning":
                    ln = int(m.group(1))
                    if ln in line_idx:
                        errs.add(line_idx[ln])
                    else:
                        problems.append("error outside a test statement: line %d of %s: %s" % (ln, tag, out.decode(errors="replace")[-300:]))
            if attempt == 0 and errs:
                bad = errs
                continue
            if errs or rc != 0 or data is None:
                problems.append("batch %s does not assemble cleanly in attempt %d: rc=%s %s" % (tag, attempt, rc, out.decode(errors="replace")[-300:]))
                data = None
            break
        image = {}
        if data is not None:
            recs = c09.parse_pfile(data)
            if recs is None:
                problems.append("code file of %s does not parse" % tag)
                recs = []
            unit = 4 if f["cpu"] == "320c30" else 1
            for start, bs in recs:
                for j, x in enumerate(bs):
                    image[start * unit + j] = x
        pos = 0
        for i, (c, b) in enumerate(vals):
            if i in bad:
                results.append((c, b, "ERR"))
                continue
            chunk = bytes(image.get(pos + j, -1) & 0xff for j in range(f["n"])) if all((pos + j) in image for j in range(f["n"])) else None
            pos += f["n"]
            if chunk is None:
                if data is not None:
                    problems.append("no bytes for value %016x in %s" % (b, tag))
                continue
            results.append((c, b, read_value(f, chunk)))
    return results, problems


def classify(fmt, bits):
    """signature of the input class of a spec failure"""
    e = (bits >> 52) & 0x7ff
    frac = bits & ((1 << 52) - 1)
    neg = bits >> 63
    if fmt in ("t", "x"):
        return "ext80-of-zero-or-denormal-double" if e == 0 else None
    if fmt in ("ts", "tx", "th"):
        k = SHAPE[fmt]["k"]
        if frac & ((1 << k) - 1):
            return "ti-c3x-mantissa-truncated-not-rounded"
        return None
    if fmt in ("is", "il"):
        if e == 2047:
            return None
        if e - 1023 < -260:
            return "ibm-float-underflow-not-rounded" if (bits & ((1 << 63) - 1)) else None
        t = 4 - ((e - 1023) % 4)
        if frac & ((1 << t) - 1):
            return "ibm-float-alignment-drops-low-bits"
        return None
    return None


def run_part(c09, args, bdir, wd, ok):
    """returns dict(spec_fail, corr_fail, evaluations, distinct, dist, stats, samples, problems)"""
    rng = common.rng_for(args.seed, "C09F")
    thorough = args.tier != "quick"
    n_random = 4000 if thorough else 260
    stats = Counter()
    dist = Counter()
    spec_fail, corr_fail, samples, problems = [], [], [], []
    reqs, metas = [], []
    for fi, f in enumerate(FORMATS):
        vals = gen_values(rng, f["fmt"], n_random if f["order"] != "be" or f["fmt"] != "h" else n_random // 3, stats, thorough)
        res, probs = run_format(c09, bdir, wd, f, vals, "f%d%s" % (fi, f["fmt"]))
        for p in probs:
            corr_fail.append(dict(tag="harness", why=p))
        for c, b, r in res:
            reqs.append("%s %016x %s" % (f["fmt"], b, "ERR" if r == "ERR" else "%x" % r))
            metas.append((f, c, b, r))
    answers = common.driver("c09f", reqs, timeout=1800) if ok and reqs else []
    distinct = set()
    known_hits = Counter()
    for (f, c, b, r), rq, ans in zip(metas, reqs, answers):
        kv = dict(x.split("=", 1) for x in ans.split() if "=" in x)
        dist["float:" + f["what"]] += 1
        dist["float-outcome:" + ("error" if r == "ERR" else "bytes")] += 1
        dist["float-class:" + c] += 1
        distinct.add(rq)
        src = "\tcpu %s\n%s\n" % (f["cpu"], f["stmt"] % src_float(b))
        if len(samples) < 4 and len(distinct) % 911 == 7:
            samples.append(dict(target=f["what"], source=src, real=("ERR" if r == "ERR" else "%x" % r), verdict=ans[:200]))
        if "model" not in kv:
            problems.append("driver rejected a float request: %s / %s" % (ans, rq))
            continue
        if kv["spec"] != "ok":
            # a failure is attributed to a known defect only if the (bug-compatible) transcription reproduces it exactly
            sig = classify(f["fmt"], b) if kv["model"] == "eq" else None
            known_hits[str(sig)] += 1
            spec_fail.append(dict(sig=sig, target=f["what"], source=src, request=rq, mode="c09f",
                                  why="value of the emitted constant differs from the specification: double=%016x real=%s decoded=%s wanted=%s" % (
                                      b, "ERR" if r == "ERR" else "%x" % r, kv.get("dec"), kv.get("want"))))
        if kv["model"] != "eq":
            corr_fail.append(dict(tag="float:" + f["fmt"], target=f["what"], source=src, request=rq, mode="c09f",
                                  why="real output differs from the Lean model: double=%016x real=%s model=%s" % (b, "ERR" if r == "ERR" else "%x" % r, kv.get("mout"))))
    return dict(spec_fail=spec_fail, corr_fail=corr_fail, evaluations=len(answers), distinct=distinct, dist=dist, stats=stats,
                samples=samples, problems=problems, known_hits=known_hits)
