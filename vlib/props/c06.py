"""C06 - P2HEX output decodes, with valid checksums, to the code file's contents.

(B) real p2hex text vs Model/P2Hex.lean byte for byte; (C) the Lean decoders of Spec/Hex.lean (written from the public
format definitions) on the real text, image compared with Spec/HexImage.lean's expectation computed from the code file.
The harness writes the input code files itself (doc/file-formats.md layout), independent of asl.
"""
import json
import os
import struct

from .. import common
from ..common import log

FMT_CLI = {"moto": "Moto", "intel": "Intel", "intel16": "Intel16", "intel32": "Intel32", "mos": "MOS", "tek": "Tek",
           "atmel": "Atmel", "c": "C"}
FMT_ENUM = {1: "moto", 2: "intel", 3: "intel16", 4: "intel32", 5: "mos", 6: "tek", 7: "dsk", 8: "atmel", 9: "mico8", 10: "c"}
# address limit (last usable address) per format, as the public definitions / the manual give it
FMT_MAX = {"moto": 0xffffffff, "intel": 0xffff, "intel16": 0xffff0 + 0xffff, "intel32": 0xffffffff, "mos": 0xffff,
           "tek": 0xffff, "atmel": 0xffffff, "c": 0xffffffff}
# (family id, granularity in CODE) - documented ids; long records carry the granularity explicitly
FAMS = [(0x51, 1), (0x11, 1), (0x01, 1), (0x42, 1), (0x13, 1), (0x31, 1), (0x70, 2), (0x3b, 2), (0x76, 4), (0x61, 1)]
SEGNAME = {1: "CODE", 2: "DATA", 4: "XDATA"}
# input class of the finding default-format-differs-from-manual (XCore, MELPS-4500, 2650, TLCS-9000); the theorem
# C06_default_format excludes exactly these ids (Lemmas/Hex2.lean defaultFormatDeviations)
DEFAULT_FORMAT_DEVIATIONS = (0x06, 0x12, 0x37, 0x56)

LEN_POOL = [1, 2, 3, 4, 15, 16, 17, 31, 32, 33, 48, 100, 250, 251, 252, 253, 254, 255, 256, 257, 508, 1000, 4096]
LL_POOL = [1, 2, 3, 4, 8, 15, 31, 32, 64, 100, 249, 250, 251, 252, 253, 254]


def rec_bytes(cpu, seg, gran, start, data, short=False):
    """long form `$81 cpu seg gran`, or the one-byte legacy form (doc/file-formats.md: header $01..$7f = processor type,
    segment CODE, granularity implied by the processor type)"""
    head = bytes([cpu]) if short else bytes([0x81, cpu, seg, gran])
    return head + struct.pack("<IH", start & 0xffffffff, len(data)) + data


def gran_table():
    """{family id: granularity in CODE} of the families whose implied granularity is not 1, read from the generated Lean
    table (translate/tables.py gen_fileformat: toolutils.c Granularity() tabulated)"""
    global _GRANTAB
    try:
        return _GRANTAB
    except NameError:
        pass
    import re
    _GRANTAB = {}
    p = os.path.join(common.LEAN_DIR, "AslModel", "Generated", "FileFormat.lean")
    for m in re.finditer(r"^\s*\|\s*(\d+)\s*=>\s*(?:if seg = 1 then\s*)?(\d+)", open(p).read(), re.M):
        if int(m.group(2)) != 1:
            _GRANTAB[int(m.group(1))] = int(m.group(2))
    return _GRANTAB


def short_legal(it):
    """may this item be written with the short header (a reader reconstructs the same fields)?"""
    return it[0] == "d" and it[2] == 1 and 0 < it[1] < 0x80 and it[3] == gran_table().get(it[1], 1)


def pfile(items, creator=b"AS 1.42 verif", short=()):
    """`short`: indices of the items written with the one-byte record header"""
    out = b"\x89\x14"
    for k, it in enumerate(items):
        if it[0] == "d":
            out += rec_bytes(*it[1:], short=k in short)
        else:
            out += b"\x80" + struct.pack("<I", it[1])
    return out + b"\x00" + creator


def cli_args(o):
    a = []
    if o["fmt"] != "default":
        a += ["-F", FMT_CLI[o["fmt"]]]
    wild = o.get("wild", "$")            # how an automatic bound is written: `$` or `0x` (manual: both mean lowest / highest address found)
    if o["start"] != "auto" or o["stop"] != "auto" or o.get("rauto"):
        a += ["-r", "%s-%s" % (wild if o["start"] == "auto" else "0x%x" % o["start"], wild if o["stop"] == "auto" else "0x%x" % o["stop"])]
    if o["reloc"]:
        a += ["-R", "0x%x" % o["reloc"]]
    if o["rel"]:
        a += ["-a"]
    if o["ll"] != 16:
        a += ["-l", str(o["ll"])]
    if o["entry_opt"] is not None:
        a += ["-e", "0x%x" % o["entry_opt"]]
    if o["imode"]:
        a += ["-i", str(o["imode"])]
    if o["mm"]:
        a += ["-m", str(o["mm"])]
    if o["minmoto"] != 1:
        a += ["-M", str(o["minmoto"])]
    if not o["rec5"]:
        a += ["+5"]
    if o["sep"]:
        a += ["-s"]
    if o["avrlen"] != 3:
        a += ["-avrlen", str(o["avrlen"])]
    if o["seg"]:
        a += ["-segment", SEGNAME[o["seg"]]]
    if o["cformat"] != "dSEl":
        a += ["-cformat", o["cformat"]]
    return a


def req_opts(o, quirks):
    kv = dict(fmt=o["fmt"], start=o["start"], stop=o["stop"], reloc=o["reloc"], rel=int(o["rel"]), ll=o["ll"],
              entry=("-" if o["entry_opt"] is None else o["entry_opt"]), imode=o["imode"], mm=o["mm"], minmoto=o["minmoto"],
              rec5=int(o["rec5"]), sep=int(o["sep"]), avrlen=o["avrlen"], seg=o["seg"], cformat=o["cformat"], cname="out", q=quirks)
    return " ".join("%s=%s" % (k, v) for k, v in kv.items())


def default_opts():
    return dict(fmt="default", start="auto", stop="auto", reloc=0, rel=False, ll=16, entry_opt=None, imode=0, mm=0, minmoto=1,
                rec5=True, sep=False, avrlen=3, seg=0, cformat="dSEl")


def one_file(items):
    """the classic case: one source argument without offset"""
    return [dict(items=items, off=0, offtext=None)]


def off_text(rng, v):
    """the number `v` in one of the notations the manual allows on the command line (16, 10h, $10, 0x10), sign in front"""
    m = abs(v)
    t = rng.choice(["%d" % m, "0x%x" % m, "0x%X" % m, "$%x" % m, "%xh" % m, "%XH" % m, "0X%x" % m])
    return ("-" if v < 0 else "") + t


def eff_items(files):
    """all items in command line order with every data record moved by its file's offset (32-bit) - what ends up in the hex file"""
    out = []
    for f in files:
        for it in f["items"]:
            out.append(it[:4] + ((it[4] + f["off"]) & 0xffffffff,) + it[5:] if it[0] == "d" else it)
    return out


def files_json(files):
    return [dict(items=[list(it[:5]) + [it[5].hex()] if it[0] == "d" else list(it) for it in f["items"]], off=f["off"], offtext=f["offtext"],
                 **{k: f[k] for k in ("short", "bind") if f.get(k)})
            for f in files]


def files_from_json(d):
    conv = lambda its: [tuple(x[:5]) + (bytes.fromhex(x[5]),) if x[0] == "d" else tuple(x) for x in its]
    if "files" in d:
        return [dict(items=conv(f["items"]), off=f.get("off", 0), offtext=f.get("offtext"), short=f.get("short", []), bind=f.get("bind", False))
                for f in d["files"]]
    return one_file(conv(d["items"]))


def family_default(cpu):
    """default format name of a family, read from the generated Lean table (translate/tables.py gen_families)"""
    global _FAMTAB
    try:
        return _FAMTAB.get(cpu)
    except NameError:
        pass
    import re
    _FAMTAB = {}
    p = os.path.join(common.LEAN_DIR, "AslModel", "Generated", "Families.lean")
    for m in re.finditer(r"^\s*\|\s*(\d+)\s*=>\s*some\s+(\d+)", open(p).read(), re.M):
        _FAMTAB[int(m.group(1))] = FMT_ENUM.get(int(m.group(2)))
    return _FAMTAB.get(cpu)


def gen_case(rng, idx, multi=False, legacy=False):
    """structured generator: (files, opts, tags); files = [dict(items, off, offtext[, short, bind])] in command line order.
    multi: the class 'several source arguments / address offsets name(offset)': 1-3 code files, each moved by an offset in
    one of the documented notations (also negative), with automatic, half-automatic and explicit windows, -a, -R.
    legacy: the class 'code files with SHORT record headers' (asl never writes them: they come from BIND / ALINK or an old AS):
    CODE records of any family of the granularity table (and of byte-addressed families), written with the one-byte header
    by the harness (all or a random subset of the records) or sent through the real pbind first; every format incl. the
    family's default."""
    o = default_opts()
    tags = []
    fmt = rng.choice(["moto", "moto", "intel", "intel", "intel16", "intel32", "intel32", "mos", "mos", "tek", "atmel", "c"])
    cpu, gran = rng.choice(FAMS)
    if legacy:
        gt = gran_table()
        family_default(0)
        if rng.random() < 0.7:
            cpu = rng.choice(sorted(gt))
        else:
            cpu = rng.choice([c for c in sorted(_FAMTAB) if 0 < c < 0x80 and c not in gt])
        gran = gt.get(cpu, 1)
        if fmt == "atmel" and gran > 2:
            fmt = rng.choice(["moto", "intel", "intel32", "mos", "tek", "c"])
    elif fmt == "atmel":
        cpu, gran = rng.choice([(0x3b, 2), (0x3b, 2), (0x3d, 1)])
    elif rng.random() < 0.75:
        cpu, gran = rng.choice([f for f in FAMS if f[1] == 1])
    use_default = rng.random() < (0.35 if legacy else 0.2)
    if use_default:
        d = family_default(cpu)
        if d in FMT_CLI:
            fmt = d
            tags.append("default-format")
        else:
            use_default = False
    o["fmt"] = "default" if use_default else fmt
    wide = fmt in ("moto", "intel32", "c")
    fmax = FMT_MAX[fmt] // (gran if fmt in ("intel", "intel16", "intel32") else 1)
    if gran > 1:
        fmax = min(fmax, 0x3fff)            # word targets: stay inside the first bank (bank arithmetic with Gran>1 not exercised)
        tags.append("gran%d" % gran)
    seg = 1
    if rng.random() < 0.1 and not legacy:
        seg = rng.choice([2, 4])
        o["seg"] = seg
        tags.append("segment")
    # line length
    if rng.random() < 0.55:
        o["ll"] = rng.choice(LL_POOL)
        if gran > 1 and (o["ll"] + o["ll"] % 2) % gran:
            o["ll"] = 4 * gran
        tags.append("ll")
    overflow = rng.random() < 0.06 and not wide and gran == 1 and not multi
    big = rng.random() < 0.04

    def records(nrec, first):
        """the records of one code file (addresses as stored in the file) and the spans [a, e) of the selected segment"""
        items, used = [], []
        for k in range(nrec):
            n = rng.choice(LEN_POOL) if rng.random() < 0.8 else rng.randrange(1, 700)
            if big and k == 0 and first:
                n = rng.choice([65535, 65534, 40000, 65521])
                tags.append("big")
            n = max(gran, n - n % gran)
            if fmt == "atmel":
                n = max(2, n - n % 2)
            ng = n // gran
            pools = [0, 1, 0xff, 0x100, 0x1000, 0x7ff0]
            if fmax >= 0xffff:
                pools += [0xfff0, 0x10000 - ng, 0x10000 - ng - 1, 0xffff - ng // 2, 0x8000]
            if fmax > 0xffff:
                pools += [0x10000, 0xfff8, 0xffff0, 0xffff8, 0x100000 - ng // 2, 0x100000, 0x12345]
            if fmax > 0xfffff + 0xffff:
                pools += [0xfffff0, 0xfffff8, 0x1000000, 0x1000000 - ng // 2, 0x7ffffff0, 0xfffe0000, 0x2fff8, 0x1fffe]
            a = rng.choice(pools) if rng.random() < 0.75 else rng.randrange(0, max(1, min(fmax, 0x2000000)))
            a = max(0, a)
            if overflow and k == nrec - 1:
                a = fmax - ng // 2 + rng.choice([0, 1, 5])
                tags.append("addr-overflow")
            elif a + ng - 1 > fmax:
                a = max(0, fmax - ng + 1)
            if any(not (a + ng <= s or e <= a) for s, e in used):
                a = max(e for s, e in used) + rng.choice([0, 0, 3])       # avoid overlaps (they only produce a warning)
                if a + ng - 1 > fmax and not overflow:
                    continue
            used.append((a, a + ng))
            data = bytes(rng.randrange(256) for _ in range(n)) if rng.random() < 0.8 else bytes([rng.choice([0, 0xff, 0x80])]) * n
            items.append(("d", cpu, seg, gran, a, data))
            if rng.random() < 0.12:     # a record of another segment that must not be selected
                items.append(("d", cpu, 3 if seg != 3 else 1, 1, rng.randrange(0, 0x80), bytes([rng.randrange(256)] * 5)))
                tags.append("other-segment")
        if not any(it[2] == seg for it in items if it[0] == "d"):
            items.append(("d", cpu, seg, gran, 0x100, bytes(range(gran * 4))))
            used.append((0x100, 0x104))
        return items, used

    files, used = [], []        # used: spans of the selected segment as they land in the hex file (after the file offsets)
    if not multi:
        items, used = records(rng.choice([1, 1, 1, 2, 2, 3, 4]), True)
        files.append(dict(items=items, off=0, offtext=None))
    else:
        tags.append("files")
        nfiles = rng.choice([1, 1, 2, 2, 2, 3])
        for fi in range(nfiles):
            if fi and rng.random() < 0.2:     # the same code file once more, moved elsewhere (an image duplicated)
                its, loc = files[0]["items"], files[0]["_loc"]
                tags.append("same-file-twice")
            else:
                its, loc = records(rng.choice([1, 1, 2, 3]) if fi == 0 else rng.choice([1, 1, 2]), fi == 0)
            flo, fhi = min(s for s, e in loc), max(e for s, e in loc)
            # offsets that keep the moved records inside the address space of the format and clear of what is already placed
            cands = [0] if rng.random() < 0.25 else []
            for _ in range(12):
                r = rng.random()
                if r < 0.45:
                    v = rng.choice([1, 2, 8, 0x10, 0x20, 0x80, 0x100, 0x400, 0x1000, 0x2000, 0x8000, 0x10000, 0x100000, 0x1000000])
                elif r < 0.6:
                    v = rng.randrange(1, 0x3000)
                elif r < 0.8:
                    v = -rng.choice([1, 2, 8, 0x10, 0x80, 0x100, 0x1000, 0x8000, 0x10000])
                elif r < 0.9:
                    v = -rng.randrange(1, flo + 1) if flo else 0
                else:
                    v = (max([e for s, e in used] or [0]) - flo) + rng.choice([0, 1, 0x10])       # right behind what is there
                if fmt == "atmel" and gran == 1:
                    v -= v % 2
                cands.append(v)
            pick = None
            for v in cands:
                if flo + v < 0 or fhi - 1 + v > fmax:
                    continue
                if any(not (e + v <= s2 or e2 <= s + v) for s, e in loc for s2, e2 in used):
                    continue
                pick = v
                break
            if pick is None:
                if fi:
                    continue
                pick = 0
            files.append(dict(items=its, off=pick, offtext=off_text(rng, pick) if pick or rng.random() < 0.3 else None, _loc=loc))
            used += [(s + pick, e + pick) for s, e in loc]
            if pick:
                tags.append("offset-neg" if pick < 0 else "offset")
        for f in files:
            del f["_loc"]
        if len(files) > 1:
            tags.append("files%d" % len(files))
    lo = min(s for s, e in used)
    hi = max(e for s, e in used) - 1
    # window
    r = rng.random()
    if r < (0.45 if multi else 0.3) and seg == 1 and not (fmt == "atmel" and gran == 1):      # byte-granular Atmel: a window could cut a word
        w0 = rng.randrange(lo, hi + 1)
        w1 = rng.randrange(w0, hi + 1)
        if rng.random() < 0.3:
            w0 = max(0, lo - 5)
        if rng.random() < 0.3:
            w1 = hi + 7
        if multi and rng.random() < 0.3:
            w0 = 0
        if rng.random() < 0.5:
            o["start"], o["stop"] = w0, w1
        elif rng.random() < 0.5:
            o["stop"] = w1
        else:
            o["start"] = w0
        tags.append("window" if o["start"] != "auto" and o["stop"] != "auto" else "window-half-auto")
    if multi:
        o["wild"] = rng.choice(["$", "$", "0x", "0X"])
        if o["start"] == "auto" and o["stop"] == "auto" and rng.random() < 0.4:
            o["rauto"] = True           # the default range written out: -r $-$ / -r 0x-0x
            tags.append("range-auto-explicit")
    if rng.random() < 0.25:
        o["rel"] = True
        tags.append("rel")
    if rng.random() < 0.25:
        room = FMT_MAX[fmt] // (gran if fmt in ("intel", "intel16", "intel32") else 1) - hi
        c = [x for x in [1, 0x10, 0x100, 0x1000, 0x10000, 0x100000, 0x12340] if x <= room]
        if rng.random() < 0.12:
            c = [0x10000, 0xff00, 0x100000]
            tags.append("reloc-maybe-out-of-range")
        if c:
            o["reloc"] = rng.choice(c)
            tags.append("reloc")
    if fmt in ("intel", "intel16", "intel32"):
        if rng.random() < 0.3:
            o["imode"] = rng.choice([1, 2])
            tags.append("imode")
        if fmt == "intel" and gran == 2 and rng.random() < 0.7:
            o["mm"] = rng.choice([1, 2, 3])
            tags.append("mm%d" % o["mm"])
    if fmt == "moto":
        if rng.random() < 0.3:
            o["minmoto"] = rng.choice([2, 3])
            tags.append("minmoto")
        if rng.random() < 0.3:
            o["rec5"] = False
            tags.append("+5")
        if rng.random() < 0.15:
            o["sep"] = True
            tags.append("sep")
    # entry (must fit the terminator's address field: S9/S8/S7 by the highest selected address, 20 bit for Intel16)
    r = rng.random()
    if fmt == "moto":
        spans, _lo = selected_spans(eff_items(files), o)
        chi = max([e for a, e in spans] or [0])
        t = 2 if chi > 0xffffff else (1 if chi > 0xffff else 0)
        t = max(t, o["minmoto"] - 1)
        emax = 256 ** (t + 2) - 1
    else:
        emax = 0xffff if fmt in ("intel", "mos", "tek", "atmel") else (0xfffff if fmt == "intel16" else 0xffffffff)
    if r < 0.3:
        # the entry record of a code file is not an address of the moved contents: p2hex announces the first one it meets
        for f in rng.sample(files, rng.choice([1, 1, 2]) if len(files) > 1 else 1):
            f["items"] = f["items"] + [("e", rng.choice([0, 1, 0x1234, emax, rng.randrange(0, emax + 1)]))]
        tags.append("entry-file")
    elif r < 0.45:
        o["entry_opt"] = rng.choice([0, 0x100, 0xffff, rng.randrange(0, 0x10000)])
        tags.append("entry-opt")
    if fmt == "atmel" and rng.random() < 0.3 and hi + o["reloc"] <= 0xffff:
        o["avrlen"] = 2
        tags.append("avrlen2")
    if fmt == "c" and rng.random() < 0.5:
        o["cformat"] = rng.choice(["DSEL", "dsel", "sld", "Ds"] + (["eD"] if gran == 1 else []))
        tags.append("cformat")
    if legacy:
        for f in files:
            ok = [k for k, it in enumerate(f["items"]) if short_legal(it)]
            r = rng.random()
            if r < 0.3:
                f["bind"] = True            # the real pbind rewrites the headers (short where it is legal)
                tags.append("via-pbind")
            elif r < 0.75 or len(ok) < 2:
                f["short"] = ok
                tags.append("short-all")
            else:
                f["short"] = sorted(rng.sample(ok, rng.randrange(1, len(ok))))
                tags.append("short-mixed")
        tags.append("short-header")
    return files, o, [fmt] + tags


def corpus_cases():
    """hand-written regression inputs (witnesses of the known findings and boundary cases), run first"""
    cs = []
    d = default_opts()
    cs.append(([("d", 0x11, 1, 1, 0x1000, bytes(range(40)))], dict(d, fmt="mos"), ["mos", "corpus:mos-3-lines"]))
    cs.append(([("d", 0x11, 1, 1, 0x1000, bytes(range(64)))], dict(d, fmt="mos"), ["mos", "corpus:mos-4-lines"]))
    cs.append(([("d", 0x11, 1, 1, 0x1000, bytes(range(10)))], dict(d, fmt="mos"), ["mos", "corpus:mos-1-line"]))
    cs.append(([("d", 0x51, 1, 1, 0x1000, bytes(range(40)))], dict(d, fmt="tek"), ["tek", "corpus:tek"]))
    cs.append(([("d", 0x01, 1, 1, 0x1000, bytes(range(256)) * 2)], dict(d, fmt="moto", ll=254), ["moto", "corpus:moto-l254"]))
    cs.append(([("d", 0x01, 1, 1, 0x1000, bytes(range(256)) * 2)], dict(d, fmt="moto", ll=252), ["moto", "corpus:moto-l252"]))
    cs.append(([("d", 0x01, 1, 1, 0x100, bytes(range(20)))], dict(d, fmt="moto", reloc=0x10000), ["moto", "corpus:moto-reloc-64k"]))
    cs.append(([("d", 0x51, 1, 1, 0x100, bytes(range(20)))], dict(d, fmt="intel", reloc=0x10000), ["intel", "corpus:intel-reloc-64k"]))
    cs.append(([("d", 0x51, 1, 1, 0xfff0, bytes(range(40))), ("d", 0x51, 1, 1, 0x20000, bytes(range(5))), ("e", 0x1234)],
               dict(d, fmt="intel32"), ["intel32", "corpus:intel32-bank"]))
    cs.append(([("d", 0x42, 1, 1, 0xfff0, bytes(range(40))), ("d", 0x42, 1, 1, 0x20000, bytes(range(5))), ("e", 0x1234)],
               dict(d), ["intel16", "corpus:intel16-default"]))
    cs.append(([("d", 0x42, 1, 1, 0x1000f, bytes(range(256)) * 255 + bytes(255))], dict(d, fmt="intel16"), ["intel16", "corpus:intel16-64k-group", "big"]))
    cs.append(([("d", 0x3b, 1, 2, 0x10, bytes(range(20)))], dict(d), ["atmel", "corpus:atmel-default"]))
    cs.append(([("d", 0x76, 1, 4, 0x3ffe, bytes(range(16)))], dict(d, ll=8), ["intel32", "gran4", "corpus:intel32-gran4-bank"]))
    cs.append(([("d", 0x51, 1, 1, 0x10, bytes(range(40))), ("d", 0x51, 1, 1, 0x100, bytes(range(3)))], dict(d, fmt="c"), ["c", "corpus:c"]))
    cs = [(one_file(items), o, tags) for items, o, tags in cs]
    # several source arguments / address offsets `name(offset)` (manual: "move a file's contents to an arbitrary position")
    lo = [("d", 0x51, 1, 1, 0x100, bytes(range(0x41, 0x55)))]
    hi = [("d", 0x51, 1, 1, 0x100, bytes(range(0x81, 0x95))), ("e", 0x1234)]
    f = lambda items, off, text: dict(items=items, off=off, offtext=text)
    cs.append(([f(lo, 0x1000, "$1000")], dict(d, fmt="intel"), ["intel", "files", "corpus:offset-manual-example"]))
    cs.append(([f(lo, 0, None), f(hi, 0x1000, "0x1000")], dict(d, fmt="intel"), ["intel", "files", "corpus:two-files-second-moved"]))
    cs.append(([f(hi, 0x1000, "1000h"), f(lo, 0, None)], dict(d, fmt="moto", start=0, wild="0x"), ["moto", "files", "corpus:two-files-first-moved-0-auto"]))
    cs.append(([f(lo, -0x80, "-128"), f(hi, 0x10, "16")], dict(d, fmt="mos", stop=0x200), ["mos", "files", "corpus:offset-negative-auto-stop"]))
    cs.append(([f(lo, 8, "8")], dict(d, fmt="intel32", reloc=0x20000, rel=True, rauto=True), ["intel32", "files", "corpus:offset-rel-reloc"]))
    # code files with short record headers (doc/file-formats.md: header $01..$7f), as BIND / ALINK / old AS versions write them
    pic = [("d", 0x70, 1, 2, 0x100, bytes(range(1, 41))), ("d", 0x70, 1, 2, 0x180, bytes([0x34, 0x12, 0x45, 0x23]))]
    c3x = [("d", 0x76, 1, 4, 0x200, bytes(range(1, 41)))]
    z80 = [("d", 0x51, 1, 1, 0x8000, bytes(range(1, 41))), ("e", 0x8000)]
    g = lambda items, **kw: dict(items=items, off=0, offtext=None, **kw)
    cs.append(([g(pic, short=[0, 1])], dict(d), ["intel", "gran2", "short-header", "corpus:short-pic-default"]))
    cs.append(([g(pic, bind=True)], dict(d, fmt="intel", mm=2), ["intel", "gran2", "short-header", "via-pbind", "corpus:bind-pic-inhx8l"]))
    cs.append(([g(pic, short=[1])], dict(d, fmt="moto"), ["moto", "gran2", "short-header", "corpus:short-mixed-pic-moto"]))
    cs.append(([g(c3x, short=[0])], dict(d, fmt="intel32", ll=8), ["intel32", "gran4", "short-header", "corpus:short-c3x-intel32"]))
    cs.append(([g(z80, bind=True)], dict(d), ["intel", "short-header", "via-pbind", "corpus:bind-z80-default"]))
    return cs


def effective_fmt(items, o):
    if o["fmt"] != "default":
        return o["fmt"]
    for it in items:
        if it[0] == "d":
            return family_default(it[1])
    return None


def selected_spans(items, o):
    """(first, last) address of every selected record after clipping to the window (python copy, only used to classify failures)"""
    seg = o["seg"] or 1
    recs = [(it[4], it[4] + len(it[5]) // it[3] - 1) for it in items if it[0] == "d" and it[2] == seg]
    if not recs:
        return [], 0
    lo = min(a for a, e in recs) if o["start"] == "auto" or seg != 1 else o["start"]
    hi = max(e for a, e in recs) if o["stop"] == "auto" or seg != 1 else o["stop"]
    return [(max(a, lo), min(e, hi)) for a, e in recs if max(a, lo) <= min(e, hi)], lo


def reloc_out_of_range(items, o, fmt):
    """input class of the finding 'range checks ignore -R': a relocated address exceeds what the chosen record type /
    format can express although the unrelocated one does not"""
    if not o["reloc"] or fmt not in FMT_MAX:
        return False
    spans, lo = selected_spans(items, o)
    g = [it[3] for it in items if it[0] == "d"][0]
    mul = g if fmt.startswith("intel") else 1
    for a, e in spans:
        if fmt == "moto":
            lim = 0xffff if e <= 0xffff and o["minmoto"] <= 1 else (0xffffff if e <= 0xffffff and o["minmoto"] <= 2 else 0xffffffff)
        else:
            lim = FMT_MAX[fmt]
        if e * mul <= lim and (e - (lo if o["rel"] else 0) + o["reloc"]) * mul > lim:
            return True
    return False


def intel32_gran_crosses_bank(items, o):
    """input class: word-addressed target (gran > 1) whose selected bytes cross a 64 KiB *byte* boundary"""
    spans, lo = selected_spans(items, o)
    g = [it[3] for it in items if it[0] == "d"][0]
    if g <= 1:
        return False
    for a, e in spans:
        a2 = (a - (lo if o["rel"] else 0) + o["reloc"]) * g
        e2 = (e - (lo if o["rel"] else 0) + o["reloc"]) * g + g - 1
        if a2 >> 16 != e2 >> 16:
            return True
    return False


def intel16_above_1mib(items, o):
    spans, lo = selected_spans(items, o)
    return any((e - (lo if o["rel"] else 0) + o["reloc"]) >= 0x100000 for a, e in spans)


def probe_quirks(bdir, wd):
    """self-calibration: which of the three suspected-defect behaviours does the current binary show?"""
    pf = os.path.join(wd, "probe.p")
    open(pf, "wb").write(pfile([("d", 0x11, 1, 1, 0x1234, bytes(range(1, 21)))]))
    q = ""
    rc, so, se = common.run_tool(bdir, "p2hex", [pf, os.path.join(wd, "probe.hex"), "-q", "-F", "MOS"], wd)
    ls = open(os.path.join(wd, "probe.hex")).read().split("\n") if rc == 0 else []
    fresh2 = (4 + 0x12 + 0x44 + sum(range(17, 21))) & 0xffff
    first = (16 + 0x12 + 0x34 + sum(range(1, 17))) & 0xffff
    q += "1" if len(ls) > 1 and ls[1].endswith("%04X" % ((first + fresh2) & 0xffff)) else "0"
    q += "1" if len(ls) > 2 and ls[2] == ";0000040004" else "0"
    rc, so, se = common.run_tool(bdir, "p2hex", [pf, os.path.join(wd, "probe.hex"), "-q", "-F", "Tek"], wd)
    ls = open(os.path.join(wd, "probe.hex")).read().split("\n") if rc == 0 else []
    q += "1" if ls and ls[0][7:9] == "%02X" % ((0x12 + 0x34 + 16) & 0xff) else "0"
    return q


def run_case(bdir, wd, idx, files, o):
    """one p2hex call: the source arguments `name` / `name(offset)` in order, the target, the options.
    Returns (request field of the sources for the driver, command line as reported, rc, stdout, stderr, output bytes)"""
    hx = os.path.join(wd, "out.hex")
    if os.path.exists(hx):
        os.unlink(hx)
    srcs, names, req = [], [], []
    for k, f in enumerate(files):
        name = "c%d.p" % idx if len(files) == 1 else "c%d_%d.p" % (idx, k)
        fb = pfile(f["items"], short=f.get("short") or ())
        open(os.path.join(wd, name), "wb").write(fb)
        if f.get("bind"):       # the code file as the real BIND rewrites it
            src = name + ".in"
            os.rename(os.path.join(wd, name), os.path.join(wd, src))
            brc, bso, bse = common.run_tool(bdir, "pbind", ["-q", os.path.join(wd, src), os.path.join(wd, name)], wd, timeout=60)
            os.unlink(os.path.join(wd, src))
            if brc != 0 or not os.path.exists(os.path.join(wd, name)):
                for n in names:
                    os.unlink(os.path.join(wd, n))
                return "-", ["pbind", "-q", src, name], brc if brc != 0 else 1, bso, b"pbind: " + bse, None
            fb = open(os.path.join(wd, name), "rb").read()
        names.append(name)
        srcs.append(name + ("(%s)" % f["offtext"] if f["offtext"] is not None else ""))
        req.append(fb.hex() + ("@%d" % f["off"] if f["off"] else ""))
    args = [os.path.join(wd, x) for x in srcs] + [hx, "-q"] + cli_args(o)
    rc, so, se = common.run_tool(bdir, "p2hex", args, wd, timeout=60)
    out = open(hx, "rb").read() if os.path.exists(hx) else None
    for n in names:
        os.unlink(os.path.join(wd, n))
    return ",".join(req), srcs + ["out.hex", "-q"] + cli_args(o), rc, so, se, out


def sig_for(items, o, tags, kv, out_lines, quirks):
    """signature of a spec failure = input class of a recorded finding, else None"""
    fmt = tags[0]
    why = kv.get("why", "")
    if kv.get("decode") == "bad":
        if fmt == "mos" and why.startswith("line:") and int(why[5:]) >= 1 and quirks[0] == "1":
            return "mos-checksum-after-first-line"
        if fmt == "mos" and why == "struct" and quirks[1] == "1" and len(out_lines) - 1 != 4:
            return "mos-terminator-count-constant-4"
        if fmt == "tek" and why.startswith("line:") and quirks[2] == "1":
            return "tek-checksums-byte-sums"
        if fmt == "moto" and why.startswith("line:"):
            ll = o["ll"] + o["ll"] % 2
            l = out_lines[int(why[5:])]
            if ll >= 251 and l[:2] in ("S1", "S2", "S3") and (len(l) - 4) // 2 > 255:
                return "moto-count-byte-overflow-linelen-over-252"
    elif kv.get("cells") == "ne":
        if reloc_out_of_range(items, o, fmt):
            return "range-check-ignores-relocation"
        if fmt == "intel32" and intel32_gran_crosses_bank(items, o):
            return "intel32-bank-split-ignores-granularity"
        if fmt == "intel16" and intel16_above_1mib(items, o):
            return "intel16-segment-truncated-above-1mib"
        if fmt == "intel16" and "big" in tags:
            return "intel16-group-longer-than-64k-wraps"
    return None


def run(args):
    res = common.Result("C06", args.tier, args.seed, "proof")
    bdir, audit, proof_problems = common.standard_setup(res, "C06", ["FileFormat", "Families", "ListParams"])
    if bdir is None:
        return res.finish()
    ok = not any(p.startswith("driver does not build") for p in proof_problems)
    n_gen = {"quick": 1400, "thorough": 20000}[args.tier]
    n_files = {"quick": 450, "thorough": 4000}[args.tier]       # class: several source arguments / offsets name(offset)
    n_legacy = {"quick": 260, "thorough": 2500}[args.tier]      # class: short record headers (hand-made and via the real pbind)
    rng = common.rng_for(args.seed, "C06")
    spec_fail, corr_fail, samples = [], [], []
    dist = {}
    distinct = set()
    reqs, metas = [], []
    with common.Workdir("c06") as wd:
        quirks = probe_quirks(bdir, wd)
        cases = corpus_cases()
        cdir = os.path.join(common.VERIF, "corpus", "C06")
        if os.path.isdir(cdir):
            for f in sorted(os.listdir(cdir)):
                if f.endswith(".json"):
                    d = json.load(open(os.path.join(cdir, f)))
                    cases.append((files_from_json(d), d["opts"], d["tags"] + ["corpus:" + f]))
        for i in range(n_gen):
            cases.append(gen_case(rng, i))
        rng_f = common.rng_for(args.seed, "C06-files")
        for i in range(n_files):
            cases.append(gen_case(rng_f, i, multi=True))
        rng_l = common.rng_for(args.seed, "C06-legacy")
        for i in range(n_legacy):
            cases.append(gen_case(rng_l, i, multi=rng_l.random() < 0.25, legacy=True))
        # every family of the granularity table once with the short header and once through pbind, at a non-zero address, in the
        # family's default format (S-records when the family has none in the model)
        family_default(0)
        for cpu, g in sorted(gran_table().items()):
            if not 0 < cpu < 0x80:
                continue
            a = rng_l.choice([0x10, 0x100, 0x123, 0x800, 0x1000])
            its = [("d", cpu, 1, g, a, bytes(rng_l.randrange(256) for _ in range(g * rng_l.choice([3, 8, 9, 20]))))]
            dflt = family_default(cpu) in FMT_CLI and not (family_default(cpu) == "atmel" and g > 2)
            fname = family_default(cpu) if dflt else "moto"
            for kw, t in ((dict(short=[0]), "short-all"), (dict(bind=True), "via-pbind")):
                cases.append(([dict(items=its, off=0, offtext=None, **kw)], dict(default_opts(), fmt="default" if dflt else "moto"),
                              [fname, "gran%d" % g, "short-header", t, "gran-table"]))
        # default format over the whole family table (documented: chosen by processor type)
        fam_ok = 0
        fam_reqs = []       # (family id, items, first line of the real output without -F) -> driver mode c06fam
        family_default(0)
        for cpu, name in sorted(_FAMTAB.items()):
            its = [("d", cpu, 1, 1, 0x20, bytes(range(cpu, cpu + 6)))]
            if name in FMT_CLI:
                cases.append((one_file(its), default_opts(), [name, "family-table"]))
            else:
                fb, a, rc, so, se, out = run_case(bdir, wd, 0, one_file(its), default_opts())
                first = (out or b"").split(b"\n")[0]
                if rc == 0 and first:
                    fam_reqs.append((cpu, its, first))
                good = rc == 0 and ((name == "dsk" and first.startswith(b"K_DSKA")) or name == "mico8")
                fam_ok += 1 if good else 0
                if not good:
                    corr_fail.append(dict(tag="family-table", why="family %#x: default format %s per headids.c, output starts %r" % (cpu, name, first[:30])))
        for idx, (files, o, tags) in enumerate(cases):
            fb, a, rc, so, se, out = run_case(bdir, wd, idx, files, o)
            if rc != 0 or out is None:
                spec_fail.append(dict(tag=tags, why="%s failed on a well-formed code file: rc=%s %s" % ("pbind (preparing the input)" if a[:1] == ["pbind"] else "p2hex", rc, (so + se).decode(errors="replace")[-300:]),
                                      files=files_json(files), opts=o, cmd=a))
                continue
            reqs.append("%s %s %s" % (fb, out.hex() if out else "-", req_opts(o, quirks)))
            if "family-table" in tags and out:
                fam_reqs.append((files[0]["items"][0][1], files[0]["items"], out.split(b"\n")[0]))
            metas.append((files, o, tags, a, out, se))
            for t in tags:
                if not t.startswith("corpus:"):
                    dist[t] = dist.get(t, 0) + 1
        answers = common.driver("c06", reqs, timeout=3600) if ok and reqs else []
        n_lines = n_cells = 0
        for (files, o, tags, a, out, se), ans in zip(metas, answers):
            kv = dict(x.split("=", 1) for x in ans.split() if "=" in x)
            case = dict(tag=tags, files=files_json(files), opts=o, cmd=a)
            items = eff_items(files)        # the records where the file offsets put them: input class of the recorded findings
            n_lines += int(kv.get("nlines", 0))
            n_cells += int(kv.get("ncells", 0))
            out_lines = out.decode("latin1").split("\n")[:-1]
            key = (tags[0], o["ll"], len(items), o["rel"], o["reloc"] != 0, o["start"] != "auto", int(kv.get("nlines", 0)),
                   len(files), tuple(f["off"] != 0 for f in files), o["stop"] != "auto",
                   tuple((bool(f.get("short")), bool(f.get("bind"))) for f in files))
            if int(kv.get("nlines", 0)) >= 3:
                distinct.add(key)
            if len(samples) < 4 and len(out_lines) >= 4 and "corpus" not in " ".join(tags) and tags[0] not in [s["tag"][0] for s in samples]:
                samples.append(dict(tag=tags, cmd=a, first_lines=out_lines[:4], verdict={k: v for k, v in kv.items() if k not in ("modelline", "realline")}))
            if "model" not in kv or kv["model"].startswith("err") or ans.startswith("bad"):
                corr_fail.append(dict(why="model could not process the case: " + ans[:200], **case))
                continue
            overflow = int(kv.get("ov", 0)) > 0
            warned = b"overflow" in se.lower() or b"berlauf" in se.lower()
            failed = None
            if kv.get("decode") == "skip":
                pass
            elif kv.get("decode") != "ok":
                failed = "decoder rejects the real output (%s)" % kv.get("why")
            elif overflow:
                dist["overflow-warned" if warned else "overflow-not-warned"] = dist.get("overflow-warned" if warned else "overflow-not-warned", 0) + 1
                if not warned:
                    failed = "addresses beyond the format's range and no warning on stderr"
            elif kv.get("cells") != "eq":
                failed = "decoded image differs from the selected records' image"
            elif kv.get("entry") != "ok":
                failed = "entry address in the hex file differs from the expected one"
            if failed:
                sig = sig_for(items, o, tags, kv, out_lines, quirks)
                line = None
                if kv.get("why", "").startswith("line:") and int(kv["why"][5:]) < len(out_lines):
                    line = out_lines[int(kv["why"][5:])]
                spec_fail.append(dict(sig=sig, why=failed, rejected_line=line, verdict=ans[:300], **case))
            if kv.get("model") != "eq":
                corr_fail.append(dict(why="real p2hex text differs from the model's text", verdict=ans[:600], **case))
            if kv.get("reader", "eq") != "eq":
                corr_fail.append(dict(why="the model of the record loop (ReadRecordHeader) reads other items than the documented reader", verdict=ans[:300], **case))
            if kv.get("model") == "eq" and (kv.get("mdecode"), kv.get("mcells")) != (kv.get("decode"), kv.get("cells")):
                proof_problems.append("driver-internal: verdict on identical texts differs")
        # default format per family: SPEC (manual's sentence + documented family ids, Spec/HexFamilies.lean) on the real output
        fam_answers = common.driver("c06fam", ["%d %s" % (cpu, first.hex()) for cpu, its, first in fam_reqs]) if ok and fam_reqs else []
        fam_checked = 0
        for (cpu, its, first), ans in zip(fam_reqs, fam_answers):
            kv = dict(x.split("=", 1) for x in ans.split() if "=" in x)
            if "spec" not in kv:
                corr_fail.append(dict(tag="family-table", why="c06fam: " + ans[:100]))
                continue
            fam_checked += 1
            if kv["spec"] != kv["seen"]:
                spec_fail.append(dict(sig="default-format-differs-from-manual" if cpu in DEFAULT_FORMAT_DEVIATIONS else None,
                                      why="family $%02x without -F: output is %s, the manual documents %s" % (cpu, kv["seen"], kv["spec"]),
                                      tag=["family-table"], items=[list(it[:5]) + [it[5].hex()] for it in its], opts=default_opts(),
                                      first_line=first.decode("latin1")[:60]))
        dist["family-default-vs-manual"] = fam_checked
        # cosmetic defect outside C06 (summary line): observed, never a failure
        pf = os.path.join(wd, "cos.p")
        open(pf, "wb").write(pfile([("d", 0x51, 1, 1, 0, b"abc")]))
        rc, so, se = common.run_tool(bdir, "p2hex", [pf, os.path.join(wd, "cos.hex")], wd)
        if b"(u " in so:
            res.notes.append("cosmetic, outside C06: summary line prints a literal 'u' instead of the byte count (printf(PRIu32, SumLen)): " + so.decode(errors="replace").strip().split("\n")[-1])

    res.coverage = common.proof_coverage(audit, "C06", [
        "translate/tables.py (headids.c family table + tHexFormat enumerators via compiled dumper)",
        "correspondence: real p2hex vs Model.P2HexRead (record loop over the model of ReadRecordHeader, short and long headers) + Model.P2Hex on generated code files (differential test)",
        "quirk probe: three flags of the model (MOS running sum, MOS constant last record, Tektronix byte sums) are set from a probe run of the real binary"])
    res.coverage.update(
        evaluations=len(reqs), distinct_nontrivial=len(distinct),
        rule="hand-built code files (1-4 records, lengths around line/256/64K limits, addresses around 64 KiB/1 MiB/16 MiB/2^31) x formats x -r/-a/-R/-l/-e/-i/-m/-M/+5/-s/-avrlen/-segment/-cformat, plus every family of headids.c with its default format; "
             "plus the class 'source arguments': 1-3 code files per call, each optionally name(offset) (decimal, 0x.., $.., ..h, negative), with automatic (-r $-$ / 0x-0x / default), half-automatic (0-$, $-0x..) and explicit windows, -a, -R, every format; "
             "plus the class 'short record headers' (doc/file-formats.md $01..$7f; written by BIND/ALINK/old AS, never by asl): CODE records of every family of the granularity table "
             "(70 %) and of byte-addressed families, header form per record short / mixed short+long / rewritten by the real pbind, all formats and the family default, 1-3 files with offsets; "
             "non-trivial = at least 3 output lines; distinct by (format, line length, #items, -a, -R used, window start/stop given, #lines, #files, which files carry an offset, header form per file)",
        samples=samples, distribution=dict(sorted(dist.items())), hex_lines_checked=n_lines, cells_decoded=n_cells,
        quirk_probe=dict(mosCarry=quirks[0], mosConst4=quirks[1], tekByteSums=quirks[2]), families_without_model_checked_by_first_line=fam_ok)
    res.assumptions = ["TI-DSK and Mico8 output, -f filter, wildcards in source arguments, -d, -k, overlap warnings are outside the model; the parser of the offset notation (ConstLongInt) is exercised through the real program only (model and spec receive the value)",
                       "word-addressed targets (gran 2/4) are exercised only inside the first 16K words; S-record/MOS/Tek addresses are read as granule addresses",
                       "Tektronix: nibble-sum checksums are my reading of the public definition (fairly sure); a missing termination block is tolerated",
                       "S5 is checked as 'number of data records to follow' (AS manual), Intel -i 1/2 end lines are accepted only when requested"]
    return common.conclude(res, proof_problems, spec_fail, corr_fail, len(reqs))


def replay(args):
    d = json.load(open(args.replay))
    print(json.dumps({k: (v if len(str(v)) < 1500 else str(v)[:1500] + "...") for k, v in d.items()}, indent=1))
    if ("items" in d or "files" in d) and "opts" in d:
        bdir = common.repo_build("hooks")
        files = files_from_json(d)
        with common.Workdir("c06r") as wd:
            q = probe_quirks(bdir, wd)
            fb, a, rc, so, se, out = run_case(bdir, wd, 0, files, d["opts"])
            print("p2hex", " ".join(a), "rc =", rc, se.decode(errors="replace")[-300:])
            print((out or b"").decode("latin1")[:1500])
            if out is not None:
                print(common.driver("c06", ["%s %s %s" % (fb, out.hex() if out else "-", req_opts(d["opts"], q))])[0][:600])
    return 0
