"""C08 - expressions and constants evaluate to their documented mathematical value."""
import json
import math
import os
import re
import struct
import sys as _sys

from .. import common
from ..common import log
from . import c08_esc
from . import c08_quote
from . import c08_text

# ---------------------------------------------------------------------------------------------
# formula trees: ('i', n) ('f', n64) ('s', text) ('u', op, e) ('b', op, l, r) ('c', fn, [args])
#                ('sq', tree): the same formula with its string constants spelled as character constants '...'
#                ('e', 'D'|'S', [item tokens]): a string / character constant written with escape sequences (see ESC below)

M64 = (1 << 64) - 1
INT_POOL = [0, 1, 2, 3, 4, 5, 7, 8, 9, 15, 16, 31, 32, 33, 63, 64, 65, 97, 127, 128, 255, 256, 65535, 65536,
            (1 << 31) - 1, 1 << 31, (1 << 31) + 1, 0x80000001, (1 << 32) - 1, 1 << 32, (1 << 32) + 1,
            (1 << 62), (1 << 63) - 1, 1 << 63, (1 << 63) + 1, M64 - 1, M64, 0xAAAAAAAAAAAAAAAA, 0x5555555555555555,
            0x00FF00FF00FF00FF, 0x8000000080000000]
FLT_POOL = [0, 32, 64, 96, 128, 160, 192, 256, 320, 16, 8, 1, 640, 6400, 65, 63, 4096]   # n/64
STR_POOL = ["a", "A", "z", "ab", "abc", "abd", "hello", "Hello World", "ABCD", "xyz123", "", "ll", "lo", "0", "aB3 d",
            # escape sequences (rendered as \\\\ \\" \\'): a backslash in the middle, at the end, alone, doubled; quotes of both kinds
            "a\\b", "C:\\", "\\", "\\\\", "q\"q", "it's", "\"", "x\\\"y", "ab\\"]

INT_BIN = ["add", "sub", "mul", "div", "mod", "pow", "and", "or", "xor", "shl", "shr", "mirror", "land", "lor", "lxor",
           "eq", "eqeq", "ne", "lt", "le", "gt", "ge"]
CMP = ["eq", "eqeq", "ne", "lt", "le", "gt", "ge"]
INT_FN1 = ["bitcnt", "firstbit", "lastbit", "bitpos", "sgn", "abs", "toupper", "tolower"]
# functions with a numeric parameter ("integer", "floating point", "integer or floating point" in the manual's table)
NUM_FN1 = INT_FN1 + ["int", "sqrt"]
FLT_BIN = ["add", "sub", "mul", "div", "pow"] + CMP          # column "float" = yes
# characters of generated character constants / multi character constants (no quote, backslash, brace)
MIX_CHARS = "ABCDEFGHIJKLMNOPQRSTUVWXYZabcdefghijklmnopqrstuvwxyz0123456789 +-*/=.:#<>!&|^~@$%?_"


def ser(t):
    k = t[0]
    if k == "raw":      # corpus line, already serialised
        return t[1]
    if k == "sq":
        return "sq " + ser(t[1])
    if k == "i":
        return "i:%d" % t[1]
    if k == "f":
        return "f:%d" % t[1]
    if k == "s":
        return "s:" + (t[1].encode().hex() or "-")
    if k == "e":
        return "e:" + "/".join([t[1]] + list(t[2]))
    if k == "u":
        return "u:%s %s" % (t[1], ser(t[2]))
    if k == "b":
        return "b:%s %s %s" % (t[1], ser(t[2]), ser(t[3]))
    if k == "c":
        return "c%d:%s %s" % (len(t[2]), t[1], " ".join(ser(a) for a in t[2]))
    raise AssertionError(t)


def parse_prefix(line):
    toks = line.split()
    if toks and toks[0] == "sq":
        return ("sq", parse_prefix(" ".join(toks[1:])))

    def go(i):
        t = toks[i]
        k, v = t.split(":", 1)
        if k == "i":
            return ("i", int(v)), i + 1
        if k == "f":
            return ("f", int(v)), i + 1
        if k == "s":
            return ("s", bytes.fromhex(v if v != "-" else "").decode()), i + 1
        if k == "e":
            parts = v.split("/")
            return ("e", parts[0], [x for x in parts[1:] if x]), i + 1
        if k == "u":
            e, j = go(i + 1)
            return ("u", v, e), j
        if k == "b":
            l, j = go(i + 1)
            r, j = go(j)
            return ("b", v, l, r), j
        if k in ("c1", "c2", "c3"):
            args = []
            j = i + 1
            for _ in range(int(k[1])):
                a, j = go(j)
                args.append(a)
            return ("c", v, args), j
        raise ValueError(line)
    t, j = go(0)
    if j != len(toks):
        raise ValueError(line)
    return t


def subtrees(t):
    if t[0] == "sq":
        for x in subtrees(t[1]):
            yield ("sq", x)
        return
    yield t
    if t[0] == "u":
        yield from subtrees(t[2])
    elif t[0] == "b":
        yield from subtrees(t[2])
        yield from subtrees(t[3])
    elif t[0] == "c":
        for a in t[2]:
            yield from subtrees(a)


def children(t):
    if t[0] == "sq":
        return [("sq", c) for c in children(t[1])]
    if t[0] == "u":
        return [t[2]]
    if t[0] == "b":
        return [t[2], t[3]]
    if t[0] == "c":
        return list(t[2])
    return []


def depth(t):
    if t[0] == "sq":
        return depth(t[1])
    return 1 + max([depth(c) for c in children(t)] or [0])


class Gen:
    def __init__(self, rng):
        self.rng = rng
        self.pairs = {}      # (operator class, left type, right type) -> number of generated operand pairs

    def int_lit(self):
        r = self.rng.random()
        if r < 0.45:
            return ("i", self.rng.choice(INT_POOL))
        if r < 0.6:
            return ("i", 1 << self.rng.randrange(64))
        if r < 0.8:
            return ("i", self.rng.randrange(0, 300))
        if r < 0.9:
            return ("i", self.rng.getrandbits(64))
        return ("i", M64 - self.rng.randrange(0, 40))

    def small(self, lo, hi):
        return ("i", self.rng.randrange(lo, hi + 1))

    def gen_int(self, d):
        rng = self.rng
        if d <= 0 or rng.random() < 0.12:
            return self.int_lit()
        r = rng.random()
        if r < 0.62:
            op = rng.choice(INT_BIN)
            if op in ("shl", "shr"):
                l = self.gen_int(d - 1)
                q = rng.random()
                rr = self.small(0, 63) if q < 0.85 else (("i", rng.choice([64, 65, 127, 128, M64])) if q < 0.93 else self.gen_int(d - 1))
                return ("b", op, l, rr)
            if op == "mirror":
                q = rng.random()
                rr = self.small(1, 32) if q < 0.85 else ("i", rng.choice([0, 33, 64, M64]))
                return ("b", op, self.gen_int(d - 1), rr)
            if op == "pow":
                q = rng.random()
                rr = self.small(0, 70) if q < 0.9 else ("u", "neg", self.small(1, 5))
                base = self.gen_int(d - 1) if rng.random() < 0.5 else ("i", rng.choice([0, 1, 2, 3, 10, M64, M64 - 1, 1 << 32, (1 << 32) + 1, 7]))
                return ("b", op, base, rr)
            if op in CMP and rng.random() < 0.3:
                if rng.random() < 0.5:
                    return ("b", op, self.gen_flt(d - 1), self.gen_flt(d - 1) if rng.random() < 0.7 else self.gen_int(d - 1))
                return ("b", op, self.gen_str(d - 1), self.gen_str(d - 1))
            l = self.gen_int(d - 1)
            if op in ("div", "mod") and rng.random() < 0.25:
                rr = ("i", rng.choice([0, 1, M64, 2, 3, M64 - 2, 1 << 63]))
            else:
                rr = self.gen_int(d - 1)
            return ("b", op, l, rr)
        if r < 0.76:
            return ("u", rng.choice(["neg", "not", "lnot", "neg"]), self.gen_int(d - 1))
        if r < 0.90:
            return ("c", rng.choice(INT_FN1), [self.gen_int(d - 1)])
        q = rng.random()
        if q < 0.2:
            return ("c", "strlen", [self.gen_str(d - 1)])
        if q < 0.35:
            return ("c", "strstr", [self.gen_str(d - 1), self.gen_str(d - 1)])
        if q < 0.5:
            return ("c", "charfromstr", [self.gen_str(d - 1), rng.choice([self.small(0, 12), ("u", "neg", self.small(1, 3)), self.gen_int(d - 1)])])
        if q < 0.65:
            return ("c", "exprtype", [rng.choice([self.gen_int, self.gen_flt, self.gen_str])(d - 1)])
        if q < 0.8:
            return ("c", "int", [self.gen_flt(d - 1)])
        if q < 0.9:
            return ("c", "sgn", [self.gen_flt(d - 1)])
        # single characters where an integer is expected
        return ("b", rng.choice(["add", "sub", "and", "or", "mul"]), ("s", rng.choice(["a", "A", "ab", "0"])), self.gen_int(d - 1)) \
            if rng.random() < 0.0 else ("b", rng.choice(["sub", "and", "or", "mul"]), ("s", rng.choice(["a", "A", "ab", "0"])), self.gen_int(d - 1))

    def gen_flt(self, d):
        rng = self.rng
        if d <= 0 or rng.random() < 0.2:
            return ("f", rng.choice(FLT_POOL) if rng.random() < 0.7 else rng.randrange(0, 2000))
        r = rng.random()
        if r < 0.6:
            op = rng.choice(["add", "sub", "mul", "div", "pow", "add", "mul"])
            if op == "pow":
                base = self.gen_flt(d - 1) if rng.random() < 0.5 else ("u", "neg", ("f", rng.choice([64, 128, 192, 32, 96, 640])))
                q = rng.random()
                ex = ("f", 64 * rng.randrange(0, 8)) if q < 0.6 else (self.small(0, 7) if q < 0.75 else (("u", "neg", ("f", 64 * rng.randrange(1, 4))) if q < 0.9 else ("f", rng.choice([32, 96, 16]))))
                return ("b", op, base, ex)
            l = self.gen_flt(d - 1)
            rr = self.gen_flt(d - 1) if rng.random() < 0.7 else self.gen_int(min(d - 1, 1))
            if rng.random() < 0.3:
                l, rr = rr, l
            return ("b", op, l, rr)
        if r < 0.75:
            return ("u", "neg", self.gen_flt(d - 1))
        if r < 0.85:
            return ("c", "abs", [self.gen_flt(d - 1)])
        if r < 0.95:
            return ("c", "sqrt", [rng.choice([self.gen_flt(d - 1), self.small(0, 100)])])
        # an integer-only operator on a float operand: type error expected
        return ("b", rng.choice(["and", "shl", "mod", "lor"]), self.gen_flt(d - 1), self.small(0, 9))

    def str_lit(self):
        return ("s", self.rng.choice(STR_POOL))

    def gen_str(self, d):
        rng = self.rng
        if d <= 0 or rng.random() < 0.35:
            return self.str_lit()
        r = rng.random()
        if r < 0.35:
            return ("b", "add", self.gen_str(d - 1), self.gen_str(d - 1))
        if r < 0.7:
            return ("c", "substr", [self.gen_str(d - 1), self.small(0, 12), self.small(0, 12)])
        if r < 0.85:
            return ("c", "upstring", [self.gen_str(d - 1)])
        return ("c", "lowstring", [self.gen_str(d - 1)])


    # ---- mixed operand types: character constants / multi character constants, integers and floats under one
    #      operator or as argument of a function that takes numbers (promotion string -> integer -> float)

    def mix_str(self, bad=None):
        rng = self.rng
        r = rng.random()
        if bad or (bad is None and r < 0.04):
            # no integer value: empty, more than four characters
            return ("s", rng.choice(["", "hello", "abcde", "Hello World", "xyz123"]))
        n = 1 if r < 0.55 else rng.randrange(2, 5)
        return ("s", "".join(rng.choice(MIX_CHARS) for _ in range(n)))

    def mix_operand(self, ty, d):
        """an operand whose value has type ty ('s' string, 'i' integer, 'f' float): a constant or a small subformula"""
        rng = self.rng
        if ty == "s":
            if d > 0 and rng.random() < 0.2:
                q = rng.random()
                if q < 0.4:
                    return ("b", "add", self.mix_str(False), ("s", rng.choice(MIX_CHARS)))
                if q < 0.75:
                    return ("c", "substr", [("s", rng.choice(["hello", "Hello World", "ABCD", "xyz123", "aB3 d"])), self.small(0, 3), self.small(1, 4)])
                return ("c", rng.choice(["upstring", "lowstring"]), [self.mix_str()])
            return self.mix_str()
        if ty == "i":
            r = rng.random()
            if r < 0.5:
                return self.small(0, 300)
            if r < 0.85 or d <= 0:
                return self.int_lit()
            return self.gen_int(min(d - 1, 2))
        r = rng.random()
        if r < 0.7 or d <= 0:
            return ("f", rng.choice(FLT_POOL) if rng.random() < 0.6 else rng.randrange(0, 2000))
        if r < 0.85:
            return ("u", "neg", ("f", rng.randrange(1, 2000)))
        return self.gen_flt(min(d - 1, 2))

    def mix_pair(self, op, tl, tr, d):
        rng = self.rng
        key = "%s %s,%s" % ("float-op" if op in FLT_BIN else "int-op", tl, tr)
        self.pairs[key] = self.pairs.get(key, 0) + 1
        l = self.mix_operand(tl, d)
        rr = self.mix_operand(tr, d)
        if op == "pow" and tr == "f":
            rr = ("f", rng.choice([0, 32, 64, 96, 128, 160, 192, 256, 512]))      # keep the power inside the doubles
        if op == "pow" and tr == "i":
            rr = self.small(0, 8) if tl != "i" else self.small(0, 70)
        if op == "pow" and tr == "s":
            rr = ("s", rng.choice(MIX_CHARS))                                   # exponent = one character code (the SPEC's power is the defining recursion)
        if op == "add" and (tl, tr) in (("s", "i"), ("i", "s")):
            # string + integer (character arithmetic, not described by the manual): small summands keep every character printable
            l, rr = (l, self.small(0, 9)) if tr == "i" else (self.small(0, 9), rr)
        if op in ("shl", "shr") and tr == "i" and rng.random() < 0.8:
            rr = self.small(0, 63)
        if op == "mirror" and tr == "i" and rng.random() < 0.8:
            rr = self.small(1, 32)
        return ("b", op, l, rr)

    def gen_mix(self, d):
        rng = self.rng
        r = rng.random()
        if r < 0.55 or d <= 0:
            op = rng.choice(INT_BIN if rng.random() < 0.5 else FLT_BIN)
            tl, tr = rng.choice([("s", "f"), ("f", "s"), ("s", "f"), ("f", "s"), ("s", "i"), ("i", "s"), ("s", "s")])
            return self.mix_pair(op, tl, tr, d - 1)
        if r < 0.72:
            q = rng.random()
            ty = rng.choice("ssfi")
            if q < 0.75:
                return ("c", rng.choice(NUM_FN1 + ["exprtype"]), [self.mix_operand(ty, d - 1)])
            if q < 0.85:
                return ("c", "charfromstr", [self.str_lit(), self.mix_operand(ty, d - 1)])
            if q < 0.93:
                return ("c", "substr", [self.str_lit(), self.mix_operand(ty, d - 1), self.mix_operand(rng.choice("si"), 0)])
            return ("c", rng.choice(["strlen", "upstring", "lowstring"]), [self.mix_operand(rng.choice("sif"), 0)])
        if r < 0.8:
            return ("u", rng.choice(["neg", "not", "lnot"]), self.mix_operand(rng.choice("ssf"), d - 1))
        # the result of a mixed operation used further
        op2 = rng.choice(["add", "sub", "mul", "div", "eq", "ne", "lt", "ge", "and", "or"])
        inner = self.gen_mix(d - 1)
        other = self.mix_operand(rng.choice("sif"), 0)
        return ("b", op2, inner, other) if rng.random() < 0.6 else ("b", op2, other, inner)

    def mix_sweep(self):
        """every dyadic operator x every pair of operand types, every numeric function x every argument type"""
        out = []
        for op in INT_BIN:
            for tl in "sif":
                for tr in "sif":
                    out.append(((op, tl, tr), self.mix_pair(op, tl, tr, 0)))
        for fn in NUM_FN1 + ["exprtype"]:
            for ty in "sif":
                out.append(((fn, ty, ""), ("c", fn, [self.mix_operand(ty, 0)])))
        for ty in "sf":
            out.append((("charfromstr", ty, ""), ("c", "charfromstr", [self.str_lit(), self.mix_operand(ty, 0)])))
            out.append((("substr", ty, ""), ("c", "substr", [self.str_lit(), self.mix_operand(ty, 0), self.small(0, 3)])))
        for u in ("neg", "not", "lnot"):
            for ty in "sf":
                out.append(((u, ty, ""), ("u", u, self.mix_operand(ty, 0))))
        return out


# corpus of hand-written regression inputs (prefix notation), run first
CORPUS = [
    "b:add i:1 b:mul i:2 i:3", "b:mul b:add i:1 i:2 i:3", "b:sub i:1 b:sub i:2 i:3", "b:sub b:sub i:1 i:2 i:3",
    "u:neg b:pow i:2 i:2", "b:pow u:neg i:2 i:2", "u:lnot u:not i:5", "u:not u:lnot i:5", "u:not u:not i:5",
    "b:lt b:shl i:1 i:3 b:le i:2 i:18446744073709551615", "b:shl i:1 b:shl i:1 i:2", "b:shl b:shl i:1 i:1 i:2",
    "b:div i:7 i:0", "b:mod i:7 i:0", "b:div u:neg i:8 i:3", "b:mod u:neg i:8 i:3", "b:mod i:8 u:neg i:3",
    "b:add i:9223372036854775807 i:1", "b:mul i:4294967296 i:4294967296", "b:pow i:2 i:63", "b:pow i:2 i:64", "b:pow i:3 i:41",
    "b:pow u:neg i:3 i:3", "b:pow i:0 i:0", "b:mirror i:6 i:3", "b:mirror i:1 i:0", "b:mirror i:1 i:33", "b:mirror i:1 i:32",
    "b:mirror i:2147483648 i:31", "c1:bitcnt i:18446744073709551615", "c1:lastbit i:0", "c1:firstbit i:0", "c1:firstbit i:2",
    "c1:firstbit i:3", "c1:firstbit i:6", "c1:bitpos i:3", "c1:bitpos i:0", "c1:bitpos i:9223372036854775808",
    "c1:abs i:9223372036854775808", "c1:sgn u:neg i:5", "c1:toupper i:97", "c1:toupper i:256", "c1:tolower i:65", "c1:tolower u:neg i:1",
    "b:eq i:3 f:192", "b:add f:160 i:2", "b:div i:5 f:128", "b:div f:64 f:0", "b:pow f:128 f:32", "b:pow u:neg f:128 f:32",
    "b:pow f:0 f:128", "b:pow u:neg f:128 f:0", "c1:sqrt u:neg f:64", "c1:int f:160", "c1:int u:neg f:160", "c1:exprtype f:64",
    "b:add s:616263 s:6465", "b:lt s:616263 s:616264", "b:eqeq s:6162 s:6162", "c3:substr s:68656c6c6f i:1 i:3", "c3:substr s:68656c6c6f i:3 i:0",
    "c3:substr s:68656c6c6f i:7 i:1", "c2:charfromstr s:68656c6c6f i:1", "c2:charfromstr s:68656c6c6f u:neg i:1", "c2:charfromstr s:68656c6c6f i:5",
    "c2:strstr s:68656c6c6f s:6c6c", "c2:strstr s:68656c6c6f s:78", "c1:upstring s:68654c4c6f", "c1:strlen s:-", "b:and s:6162 i:3",
    "b:and f:96 i:3", "b:land i:2 i:0", "b:lor i:0 i:0", "b:lxor i:2 i:3", "b:ne i:1 i:2", "b:ge u:neg i:1 i:1",
]

# known defects of the pinned tree: (signature, prefix formula) - probed every run
FINDING_PROBES = [
    ("pow-float-negative-base", "b:pow u:neg f:128 f:192"),
    ("firstbit-odd", "c1:firstbit i:1"),
    ("mirror-32", "b:mirror i:2147483649 i:32"),
    ("shr-negative-left", "b:shr u:neg i:1 i:1"),
    ("int-min-div-minus-one", "b:div i:9223372036854775808 u:neg i:1"),
    ("shift-count-out-of-range", "b:shl i:1 i:64"),
    ("bitpos-bit63", "c1:bitpos i:9223372036854775808"),
    ("charfromstr-position-truncated", "c2:charfromstr s:616263 i:4294967296"),
    ("int-float-2pow63", "c1:int b:mul f:274877906944 f:2147483648"),
    # automatic type conversion: string arguments of numeric parameters, strings without integer value, type errors of arguments
    ("function-string-argument-not-converted", "c1:toupper s:61"),
    ("function-string-argument-not-converted", "sq c1:sqrt s:41"),
    ("function-type-error-reported-as-internal-error", "c1:bitcnt f:96"),
    ("string-operand-not-convertible", "b:mul s:68656c6c6f i:2"),
    ("string-operand-not-convertible", "b:sub f:96 s:6162636465"),
    ("charfromstr-8bit-character-negative", "c2:charfromstr e:D/x20200 i:0"),
    ("charfromstr-8bit-character-negative", "c2:charfromstr e:D/p61/d255 i:1"),
    ("string-order-8bit-characters-signed", "b:gt e:D/d136 e:D/x21120"),
    ("string-order-8bit-characters-signed", "b:le e:D/p61/x23141/c62 e:S/p61/d125"),
]
# the seven demo formulas of the class "a string meets a float" and their single-step neighbours
CORPUS_MIX = [
    "sq b:mul s:41 f:96", "sq b:mul f:96 s:41", "sq b:div s:41 f:128", "sq b:add s:4142 f:32", "sq b:gt s:41 f:4128", "b:sub f:6432 s:64",
    "b:pow f:128 s:03", "sq b:mul s:41 i:2", "b:mul i:65 f:96", "sq b:sub s:41 i:1", "b:eq s:41424344 f:70071144704", "sq b:and s:41 f:96",
    "sq b:mod f:96 s:41", "u:neg s:41", "sq u:neg s:4142", "b:lt f:96 s:68656c6c6f", "c1:exprtype s:41", "sq c1:exprtype b:mul s:41 f:64",
]
RAW_PROBES = [
    # (signature, text, documented value) - texts outside the rendered grammar
    ("ne-alias-missing", "7!=3", "I1"),
    ("substr-negative-start", 'substr("abc",-5,100)', "S616263"),
]
CALIB = [("potBase", "(-2.0)^3.0", "16"), ("firstbitSkip", "firstbit(1)", str(M64)),
         ("mirrorInt", "$80000001><32", str(0xFFFFFFFF80000001)), ("shrArith", "(-1)>>1", str(M64)),
         ("singleBitArith", "bitpos($8000000000000000)", "error"),
         # function branch: is a string argument of a numeric parameter converted? is a type error of an argument reported as "internal error"?
         ("fnStrConv", 'toupper("a")', "65"), ("fnErrRaw", "bitcnt(1.5)", "internal"),
         # CHARFROMSTR on a character 128..255: the (signed) char converted to an integer?
         ("charSigned", 'charfromstr("\\xC8",0)', str(M64 - 55)),
         # order of strings with characters 128..255: compared as signed characters?
         ("strCmpSigned", '"\\x88">"x"', "0")]

ERRCLASS = {1310: "divZero", 1320: "overRange", 1315: "overRange", 1540: "notOneBit", 1110: "argCnt", 1490: "funcArgCnt",
            1860: "unknownFunc", 1870: "funcArg", 1880: "floatOvf", 1890: "argPair", 1300: "bracket", 1010: "symbol", 1020: "symbol",
            10000: "internal"}
for _n in range(1130, 1150):
    ERRCLASS[_n] = "type"

ERR_RE = re.compile(rb"^> > > [^(]*\((\d+)\)(?::\d+)?: error #(\d+)", re.M)


PROBE_RE = re.compile(rb"^@(\d+)@P(\d+) (.*)$")


def run_asl_cases(bdir, wd, texts, tag, stats, probes=None):
    """texts: list of expression texts. Returns list of outcomes:
    ('val', str) | ('err', class, number) | ('crash', status) | ('missing',)
    probes[i] = n: the value of case i is expected to be a string with characters that cannot be printed by MESSAGE
    (control characters, 8-bit characters): it is read through EXPRTYPE, STRLEN and CHARFROMSTR(.., 0..n-1) instead"""
    out = [None] * len(texts)
    probes = probes or [None] * len(texts)

    def run(idxs, level):
        # "internal error" ends the assembly: the cases behind it are run again (a loop, there may be thousands of them)
        while idxs:
            idxs = run_once(idxs, level)

    def run_once(idxs, level):
        src = ["\tcpu 68000", "\toutradix 10"]
        owner = {}
        via_set = set()
        probed = {}
        for k, i in enumerate(idxs):
            if "\\" in texts[i] or "'" in texts[i]:
                # a formula with escape sequences cannot stand inside the outer string of MESSAGE (that string's own
                # escape processing would come first): evaluate it by SET and print the symbol
                src.append("c08v%d\tset %s" % (k, texts[i]))
                owner[len(src)] = k
                via_set.add(k)
                if probes[i] is not None:
                    src.append('\tmessage "@%d@P0 \\{defined(c08v%d)}#\\{exprtype(c08v%d)}#\\{strlen(c08v%d)}"' % (k, k, k, k))
                    owner[len(src)] = k
                    for j in range(0, probes[i], 6):
                        src.append('\tmessage "@%d@P%d %s"' % (k, 1 + j // 6, "#".join(
                            "\\{charfromstr(c08v%d,%d)}" % (k, x) for x in range(j, min(j + 6, probes[i])))))
                        owner[len(src)] = k
                    probed[k] = probes[i]
                    continue
                # (a formula without value leaves the symbol undefined, which would print as 0: DEFINED tells)
                src.append('\tmessage "@%d@ \\{defined(c08v%d)}\\{c08v%d}"' % (k, k, k))
                owner[len(src)] = k
            else:
                src.append('\tmessage "@%d@ \\{%s}"' % (k, texts[i]))
                owner[len(src)] = k
        stats["asl_runs"] += 1
        f = os.path.join(wd, "%s_%d.asm" % (tag, stats["asl_runs"]))
        open(f, "w").write("\n".join(src) + "\n")
        rc, so, se = common.run_tool(bdir, "asl", ["-q", "-n", f, "-o", f[:-4] + ".p"], wd, timeout=120)
        for p in (f, f[:-4] + ".p"):
            if os.path.exists(p):
                os.unlink(p)
        if rc == "timeout" or (isinstance(rc, int) and rc < 0):
            stats["crashes"] += 1
            if len(idxs) == 1:
                out[idxs[0]] = ("crash", rc)
                return None
            h = len(idxs) // 2
            run(idxs[:h], level + 1)
            run(idxs[h:], level + 1)
            return None
        errs = {}
        for m in ERR_RE.finditer(se + so):
            ln, num = int(m.group(1)), int(m.group(2))
            if num == 1970:
                continue
            if ln in owner:
                errs.setdefault(owner[ln], num)
        vals = {}
        plines = {}
        for line in so.split(b"\n"):
            m = PROBE_RE.match(line)
            if m:
                plines.setdefault(int(m.group(1)), {})[int(m.group(2))] = m.group(3).decode("latin-1")
                continue
            m = re.match(rb"^@(\d+)@ (.*)$", line)
            if m:
                k, v = int(m.group(1)), m.group(2).decode("latin-1")
                if k in via_set:
                    if not v.startswith("1"):
                        continue
                    v = v[1:]
                vals[k] = v
        for k, n in probed.items():
            pl = plines.get(k, {})
            head = pl.get(0, "").split("#")
            if len(head) != 3 or head[0] != "1":
                continue
            if head[1] != "2" or not head[2].isdigit():
                vals[k] = "<a value of type %s, not a string>" % head[1]
                continue
            codes = []
            for j in sorted(x for x in pl if x > 0):
                codes += [int(x) if x.isdigit() else -1 for x in pl[j].split("#")]
            ln = int(head[2])
            # (CHARFROMSTR delivers the characters 128..255 as -128..-1 on the pinned tree - finding
            #  `charfromstr-8bit-character-negative`, judged on formulas that call CHARFROMSTR; as an instrument it is read modulo 256
            #  inside the string, where STRLEN says there is a character)
            codes = [(c - (1 << 64) + 256 if (j < ln and c >= (1 << 64) - 128) else c) for j, c in enumerate(codes)]
            if ln > len(codes) or any(not 0 <= c <= 255 for c in codes[:ln]) or any(c != M64 for c in codes[ln:]):
                vals[k] = "<a string of %d characters: %s>" % (ln, " ".join(str(c) for c in codes))
            else:
                vals[k] = "".join(chr(c) for c in codes[:ln])
        fatal_at = None
        for k, i in enumerate(idxs):
            if k in errs:
                out[i] = ("err", ERRCLASS.get(errs[k], "other"), errs[k])
                if errs[k] == 10000 and fatal_at is None:
                    fatal_at = k
            elif k in vals:
                out[i] = ("val", vals[k])
            else:
                out[i] = ("missing",)
        if fatal_at is not None and fatal_at + 1 < len(idxs):
            stats["fatal_aborts"] += 1
            return idxs[fatal_at + 1:]
        return None

    run(list(range(len(texts))), 0)
    return out


# ---------------------------------------------------------------------------------------------
# literal-notation sweep: notations x RADIX 2..36 x RELAXED / INTSYNTAX

DIG = "0123456789ABCDEFGHIJKLMNOPQRSTUVWXYZ"
NOTATIONS = ["dec", "$hex", "%bin", "@oct", "hexh", "binb", "octo", "octq", "h'hex'", "x'hex'", "b'bin'", "o'oct'", "0xhex", "0bbin", "0oct", "0hex"]
LIT_VALUES = [0, 1, 7, 8, 9, 10, 11, 15, 16, 17, 35, 36, 0xAB, 0xB1, 0x1B, 0xBB, 0x10B, 255, 256, 1 << 31, (1 << 32) - 1, 1 << 63, M64]
LIT_CONFIGS = [
    # cpu, mode, ibmNoTerm, relaxed, intsyntax minus, intsyntax plus
    ("68000", "moto", 0, 0, [], []), ("68000", "moto", 0, 1, [], []), ("68000", "moto", 0, 0, ["$hex"], ["hexh", "0bbin"]),
    ("z80", "intel", 0, 0, [], []), ("z80", "intel", 0, 1, [], []), ("z80", "intel", 0, 0, ["binb"], ["0xhex", "x'hex'"]),
    ("sc/mp", "c", 1, 0, [], []), ("sc/mp", "c", 1, 1, [], []), ("sc/mp", "c", 1, 0, ["0oct"], ["0hex"]),
    # RELAXED ON followed by an INTSYNTAX statement: the relaxed notations must survive the change
    ("68000", "moto", 0, 1, ["$hex"], ["hexh"]), ("z80", "intel", 0, 1, ["binb"], ["x'hex'"]),
]


def to_base(v, b):
    if v == 0:
        return "0"
    out = ""
    while v:
        out = DIG[v % b] + out
        v //= b
    return out


def lit_text(rng, nota, v, radix):
    def lead0(d):
        return d if d[0].isdigit() else "0" + d

    def case(t):
        r = rng.random()
        return t.lower() if r < 0.45 else (t if r < 0.9 else "".join(c.lower() if rng.random() < 0.5 else c for c in t))
    if nota == "dec":
        return case(lead0(to_base(v, radix)))
    if nota == "$hex":
        return "$" + case(to_base(v, 16))
    if nota == "%bin":
        return "%" + to_base(v, 2)
    if nota == "@oct":
        return "@" + to_base(v, 8)
    if nota == "hexh":
        return case(lead0(to_base(v, 16)) + "H")
    if nota == "binb":
        return case(to_base(v, 2) + "B")
    if nota == "octo":
        return case(to_base(v, 8) + "O")
    if nota == "octq":
        return case(to_base(v, 8) + "Q")
    if nota in ("h'hex'", "x'hex'"):
        return case(nota[0].upper() + "'" + to_base(v, 16) + "'")
    if nota == "b'bin'":
        return case("B'" + to_base(v, 2) + "'")
    if nota == "o'oct'":
        return case("O'" + to_base(v, 8) + "'")
    if nota == "0xhex":
        return case("0X" + to_base(v, 16))
    if nota == "0bbin":
        return case("0B" + to_base(v, 2))
    if nota == "0oct":
        return "0" + to_base(v, 8)
    if nota == "0hex":
        return case("0" + to_base(v, 16))
    raise AssertionError(nota)


LIT_RE = re.compile(rb"^@(\d+)@ (\S+) (.*)$")


def literal_sweep(bdir, wd, rng, tier, stats, dist, spec_fail, corr_fail, samples):
    """returns number of evaluations"""
    n_eval = 0
    per_radix = 3 if tier == "quick" else 12
    dist["literal_cases"] = 0
    dist["literal_by_notation"] = {}
    dist["literal_int_results"] = 0
    for ci, (cpu, mode, ibm, relaxed, minus, plus) in enumerate(LIT_CONFIGS):
        cases = []
        for radix in range(2, 37):
            for nota in NOTATIONS:
                vals = [rng.choice(LIT_VALUES) for _ in range(per_radix - 1)] + [rng.getrandbits(rng.choice([4, 8, 16, 40, 64]))]
                for v in vals:
                    cases.append((radix, nota, v, lit_text(rng, nota, v, radix)))
        reqs = ["%s %d %d %d %s %s %s" % (mode, relaxed, ibm, radix, ",".join(minus) or "-", ",".join(plus) or "-", t.encode().hex())
                for radix, nota, v, t in cases]
        ans = common.driver("c08lit", reqs, timeout=600)
        src = ["\tcpu %s" % cpu, "\trelaxed %s" % ("on" if relaxed else "off")]
        if minus or plus:
            src.append("\tintsyntax " + ",".join(["-" + m for m in minus] + ["+" + p for p in plus]))
        src.append("\toutradix 10")
        hdr = len(src)
        line_of = {}
        cur = None
        for k, (radix, nota, v, t) in enumerate(cases):
            if radix != cur:
                src.append("\tradix %d" % radix)
                cur = radix
            src.append('\tmessage "@%d@ \\{exprtype(%s)} \\{%s}"' % (k, t, t))
            line_of[len(src)] = k
        f = os.path.join(wd, "lit%d.asm" % ci)
        open(f, "w").write("\n".join(src) + "\n")
        stats["asl_runs"] += 1
        rc, so, se = common.run_tool(bdir, "asl", ["-q", "-n", f, "-o", f[:-4] + ".p"], wd, timeout=300)
        if rc == "timeout" or (isinstance(rc, int) and (rc < 0 or rc == 3)):
            spec_fail.append(dict(sig=None, text="literal sweep file for %s" % cpu, asl="status %s" % rc, why="the assembler crashed or aborted on integer constants", source="\n".join(src[:40])))
            continue
        got = {}
        for line in so.split(b"\n"):
            m = LIT_RE.match(line)
            if m:
                got[int(m.group(1))] = (m.group(2).decode("latin-1"), m.group(3).decode("latin-1"))
        hdr_errs = [m for m in ERR_RE.finditer(se + so) if int(m.group(1)) <= hdr]
        if hdr_errs:
            corr_fail.append(dict(sig=None, text="literal sweep header for %s" % cpu, asl=(se + so).decode("latin-1")[:300], why="configuration statements rejected"))
            continue
        for k, ((radix, nota, v, t), a) in enumerate(zip(cases, ans)):
            kv = dict(x.split("=", 1) for x in a.split() if "=" in x)
            g = got.get(k)
            real = ("I%d" % int(g[1])) if (g and g[0] == "0" and g[1].strip().isdigit()) else "none"
            n_eval += 1
            dist["literal_cases"] += 1
            dist["literal_by_notation"][nota] = dist["literal_by_notation"].get(nota, 0) + 1
            if real != "none":
                dist["literal_int_results"] += 1
            cfgs = "cpu %s relaxed %s intsyntax -%s +%s radix %d" % (cpu, "on" if relaxed else "off", ",".join(minus), ",".join(plus), radix)
            if len(samples) < 9 and k % 997 == 5:
                samples.append(dict(text=t, config=cfgs, asl=real, model=kv.get("model"), spec=kv.get("spec")))
            if kv.get("spec") not in ("undef", real):
                spec_fail.append(dict(sig=None, text=t, config=cfgs, asl=real + (" (printed: %s %s)" % g if g else ""), spec=kv.get("spec"), model=kv.get("model"),
                                      why="integer constant not read as the manual's notation table says"))
            elif kv.get("model") != real:
                corr_fail.append(dict(sig=None, text=t, config=cfgs, asl=real, spec=kv.get("spec"), model=kv.get("model"),
                                      why="ConstIntVal model and real assembler disagree"))
    return n_eval


def f64_of_bits(h):
    return struct.unpack(">d", bytes.fromhex(h))[0]


def parse_float_text(s):
    t = s.strip().upper()
    if t in ("INF", "+INF"):
        return math.inf
    if t == "-INF":
        return -math.inf
    if "NAN" in t:
        return math.nan
    try:
        return float(t)
    except ValueError:
        return None


def float_close(x, txt):
    """asl prints a double with `%.15e`, strips trailing zeros and shortens the mantissa so that the text stays
    within 18 characters (the shortening garbles the last one or two digits it keeps): a text with 12 or more
    significant digits is trusted up to 100 units of its last significant digit, a shorter one had only zeros
    stripped and is accurate to 16 digits."""
    from decimal import Decimal, InvalidOperation
    try:
        d = Decimal(txt.upper())
    except InvalidOperation:
        return False
    y = float(d)
    if x == y:
        return True
    tup = d.normalize().as_tuple()
    tol = 1e-14 * max(abs(x), abs(y))
    # shortened: 12 or more digits kept, or the text fills the 18 characters (sign and a three-digit exponent leave room for 11 digits only)
    if len(tup.digits) >= 12 or len(txt.strip()) >= 17:
        tol = max(tol, 100.0 * float(Decimal(1).scaleb(tup.exponent)))
    return abs(x - y) <= tol


def agrees(pred, real):
    """pred: driver result string (I../F../S../E..), real: asl outcome"""
    if pred == "Esilent":     # MODEL only: no value and no message
        return real[0] == "missing"
    if pred.startswith("E"):
        return real[0] == "err" and real[1] == pred[1:]
    if real[0] != "val":
        return False
    txt = real[1]
    if pred.startswith("I"):
        return txt.strip() == pred[1:]
    if pred.startswith("S"):
        return txt == bytes.fromhex(pred[1:] if pred[1:] != "-" else "").decode("latin-1")
    if pred.startswith("F"):
        x = f64_of_bits(pred[1:])
        y = parse_float_text(txt)
        if y is None:
            return False
        if math.isnan(x) or math.isnan(y):
            return math.isnan(x) and math.isnan(y)
        if math.isinf(x) or math.isinf(y):
            return x == y
        return float_close(x, txt.strip())
    return False


def show_real(r):
    if r[0] == "val":
        return "value " + r[1]
    if r[0] == "err":
        return "error #%d (%s)" % (r[2], r[1])
    return " ".join(str(x) for x in r)


def ival(res):
    return int(res[1:]) if res and res.startswith("I") else None


def nval(res):
    """integer value of an operand as an integer operator sees it: an integer, or a string with an integer value"""
    sv = str_of_res(res)
    if sv is not None:
        return int.from_bytes(sv.encode("latin-1"), "big") if has_int_value(sv) else None
    return ival(res)


def signed(v):
    return v - (1 << 64) if v >= (1 << 63) else v


def str_of_res(v):
    """string value of a driver result `S<hex>`, else None"""
    if v and v.startswith("S"):
        return bytes.fromhex(v[1:] if v[1:] != "-" else "").decode("latin-1")
    return None


def has_int_value(sv):
    return 1 <= len(sv) <= 4


def signature(tree, model_of, row=None):
    """input-class signature of a *minimal* failing formula (children all pass)"""
    wrap = (lambda c: c)
    if tree[0] == "sq":
        tree = tree[1]
        wrap = (lambda c: ("sq", c))
        inner_model_of = model_of
        model_of = (lambda c: inner_model_of(wrap(c)))
    k = tree[0]
    # ---- automatic type conversion
    if k in ("b", "u"):
        ops = [model_of(c) for c in tree[2:]]
        svs = [str_of_res(v) for v in ops]
        if all(v is not None for v in ops) and any(sv is not None and not has_int_value(sv) for sv in svs):
            numeric_use = k == "u" or any(sv is None for sv in svs) or tree[1] not in CMP + ["add"]
            if numeric_use and row is not None and row.get("spec") == "Etype":
                return "string-operand-not-convertible"
    if k == "c" and row is not None:
        args = [model_of(a) for a in tree[2]]
        numpos = {"substr": [1, 2], "charfromstr": [1]}.get(tree[1], [0] if tree[1] in NUM_FN1 else [])
        if all(a is not None for a in args):
            if row.get("model") == "Einternal" and row.get("spec") == "Etype":
                return "function-type-error-reported-as-internal-error"
            svs = [str_of_res(args[i]) if i < len(args) else None for i in numpos]
            if any(sv is not None and has_int_value(sv) for sv in svs) and row.get("spec") != "Etype" \
                    and row.get("model") in ("Etype", "Einternal"):
                return "function-string-argument-not-converted"
    if k == "b":
        op = tree[1]
        lv, rv = model_of(tree[2]), model_of(tree[3])
        li, ri = nval(lv), nval(rv)
        sl, sr = str_of_res(lv), str_of_res(rv)
        if op in ("lt", "le", "gt", "ge") and sl is not None and sr is not None:
            # the order by character code and the order by signed characters disagree
            def sgn(x):
                return (x > 0) - (x < 0)
            us = sgn((sl > sr) - (sl < sr))
            sg = [ord(c) - 256 if ord(c) >= 128 else ord(c) for c in sl], [ord(c) - 256 if ord(c) >= 128 else ord(c) for c in sr]
            ss = sgn((sg[0] > sg[1]) - (sg[0] < sg[1]))
            if us != ss:
                return "string-order-8bit-characters-signed"
        if op == "pow" and lv and rv and (lv[0] == "F" or rv[0] == "F"):
            base = f64_of_bits(lv[1:]) if lv[0] == "F" else (signed(li) if li is not None else 0)
            if base < 0:
                return "pow-float-negative-base"
        if op in ("shl", "shr") and ri is not None and ri >= 64:
            return "shift-count-out-of-range"
        if op == "shr" and li is not None and li >= (1 << 63):
            return "shr-negative-left"
        if op == "mirror" and ri == 32 and li is not None and ((li >> 31) != 0 or (li & 1)):
            return "mirror-32"
        if op in ("div", "mod") and li == (1 << 63) and ri == M64:
            return "int-min-div-minus-one"
    if k == "c" and tree[1] == "firstbit":
        a = ival(model_of(tree[2][0]))
        if a is not None and a % 4 == 1:
            return "firstbit-odd"
    if k == "c" and tree[1] == "bitpos":
        a = ival(model_of(tree[2][0]))
        if a == (1 << 63):
            return "bitpos-bit63"
    if k == "c" and tree[1] == "charfromstr":
        a = ival(model_of(tree[2][1]))
        if a is not None and (1 << 32) <= a < (1 << 63):
            return "charfromstr-position-truncated"
        sv = str_of_res(model_of(tree[2][0]))
        if a is not None and sv is not None and a < len(sv) and ord(sv[a]) >= 128:
            return "charfromstr-8bit-character-negative"
    if k == "c" and tree[1] == "int":
        a = model_of(tree[2][0])
        if a and a[0] == "F" and f64_of_bits(a[1:]) == 9223372036854775808.0:
            return "int-float-2pow63"
    if k == "c" and tree[1] == "substr":
        a = ival(model_of(tree[2][1]))
        if a is not None and a >= (1 << 63):
            return "substr-negative-start"
    return None


def evaluate(bdir, wd, quirks, trees, tag, stats):
    """driver + asl on a list of trees; returns list of dict(tree, req, text, lex, model, toks, spec, real)"""
    reqs = [quirks + " " + ser(t) for t in trees]
    ans = common.driver("c08", reqs, timeout=1200) if reqs else []
    rows = []
    for t, rq, a in zip(trees, reqs, ans):
        kv = dict(x.split("=", 1) for x in a.split() if "=" in x)
        if "text" not in kv:
            rows.append(dict(tree=t, req=rq, text=None, bad=a))
            continue
        text = bytes.fromhex(kv["text"] if kv["text"] != "-" else "").decode("latin-1")
        rows.append(dict(tree=t, req=rq, text=text, lex=kv.get("lex"), model=kv.get("model"), toks=kv.get("toks"), spec=kv.get("spec")))
    ok_rows = [r for r in rows if r.get("text") is not None and len(r["text"]) <= 300]
    # cases where the model predicts C undefined behaviour go into files of their own
    # ... and so do cases where it predicts "internal error" (that error ends the assembly: the rest of the file is run again)
    normal = [r for r in ok_rows if r["model"] not in ("Eub", "Einternal")]
    ub = [r for r in ok_rows if r["model"] == "Eub"]
    fatal = [r for r in ok_rows if r["model"] == "Einternal"]
    def probe_of(r):
        # a string with control / 8-bit characters is predicted: read it character by character
        ps = [x for x in (str_of_res(r["spec"]), str_of_res(r["model"])) if x is not None]
        if ps and "\\" in r["text"] and any(ord(c) < 32 or ord(c) > 126 for x in ps for c in x):
            return max(len(x) for x in ps) + 1
        return None
    reals = run_asl_cases(bdir, wd, [r["text"] for r in normal], tag, stats, [probe_of(r) for r in normal])
    for r, o in zip(normal, reals):
        r["real"] = o
    for r, o in zip(ub, run_asl_cases(bdir, wd, [r["text"] for r in ub], tag + "ub", stats)):
        r["real"] = o
    for c in range(0, len(fatal), 32):      # small files: every case is expected to end its run
        part = fatal[c:c + 32]
        for r, o in zip(part, run_asl_cases(bdir, wd, [r["text"] for r in part], tag + "ie", stats)):
            r["real"] = o
    return [r for r in ok_rows if "real" in r], [r for r in rows if r.get("text") is None]


def run(args):
    res = common.Result("C08", args.tier, args.seed, "proof")
    bdir, audit, proof_problems = common.standard_setup(res, "C08", ["Operators", "IntFormats", "FuncArgFmt"])
    if bdir is None:
        return res.finish()
    drv_ok = not any(p.startswith("driver does not build") for p in proof_problems)
    spec_fail, corr_fail, samples = [], [], []
    stats = dict(asl_runs=0, crashes=0, fatal_aborts=0)
    dist = dict(int_trees=0, float_trees=0, string_trees=0, corpus=0, spec_undef=0, model_ub=0, errors_expected=0,
                by_root={}, by_depth={}, by_result={"I": 0, "F": 0, "S": 0, "E": 0}, too_long=0, lex_ne=0)
    n_eval = 0
    distinct = set()
    with common.Workdir("c08") as wd:
        # ---- calibrate the quirk flags on the real binary (model follows the code, spec decides)
        cal = run_asl_cases(bdir, wd, [c[1] for c in CALIB], "cal", stats)
        quirks = "".join("1" if ((o[0] == "val" and o[1].strip() == c[2]) or (c[2] == "error" and o[0] == "err")
                                 or (c[2] == "internal" and o[0] == "err" and o[1] == "internal")) else "0" for c, o in zip(CALIB, cal))
        res.notes.append("quirk flags calibrated on the real binary (potBase firstbitSkip mirrorInt shrArith singleBitArith fnStrConv fnErrRaw charSigned strCmpSigned) = " + quirks)

        # ---- generated trees
        n = {"quick": 9000, "thorough": 90000}[args.tier]
        rng = common.rng_for(args.seed, "C08")
        g = Gen(rng)
        trees = []
        if drv_ok:
            for line in CORPUS + CORPUS_MIX + c08_esc.ESC_CORPUS + c08_esc.RANK_CORPUS + [p[1] for p in FINDING_PROBES]:
                trees.append(("corpus", line))
            cdir = os.path.join(common.VERIF, "corpus", "C08")
            if os.path.isdir(cdir):
                for fn in sorted(os.listdir(cdir)):
                    for line in open(os.path.join(cdir, fn)):
                        line = line.split("#")[0].strip()
                        if line:
                            trees.append(("corpus", line))
        gen_trees = []
        for i in range(n):
            d = 1 + (i % 6)
            r = i % 10
            if r < 7:
                t = g.gen_int(d)
                dist["int_trees"] += 1
            elif r < 9:
                t = g.gen_flt(min(d, 4))
                dist["float_trees"] += 1
            else:
                t = g.gen_str(min(d, 4))
                dist["string_trees"] += 1
            gen_trees.append(t)
        # ---- mixed operand types (character constants, integers, floats): the complete operator x type x type sweep, then random trees;
        #      a quarter of them with the strings spelled as character constants
        mrng = common.rng_for(args.seed, "C08mix")
        gm = Gen(mrng)
        dist["mix_sweep"] = 0
        dist["mix_trees"] = 0
        dist["mix_character_constants"] = 0
        for rounds in range({"quick": 2, "thorough": 10}[args.tier]):
            for key, t in gm.mix_sweep():
                dist["mix_sweep"] += 1
                gen_trees.append(("sq", t) if rounds % 2 == 1 else t)
        for i in range({"quick": 1500, "thorough": 15000}[args.tier]):
            t = gm.gen_mix(1 + (i % 3))
            dist["mix_trees"] += 1
            if mrng.random() < 0.25:
                dist["mix_character_constants"] += 1
                t = ("sq", t)
            gen_trees.append(t)
        dist["mix_operand_type_pairs"] = dict(sorted(gm.pairs.items()))
        # ---- string / character constants written with escape sequences, in formulas (vlib/props/c08_esc.py)
        eg = c08_esc.EscGen(common.rng_for(args.seed, "C08esc"))
        n_esc = {"quick": 1600, "thorough": 16000}[args.tier]
        for i in range(n_esc):
            gen_trees.append(eg.formula())
        dist["escape_formulas"] = n_esc
        # ---- operator ranks: both groupings of `a op1 b op2 c` / `op a op2 b` for every ordered pair of operators, with
        #      operands that tell the groupings apart (rank table from the Lean SPEC)
        rank_cases = []
        if drv_ok:
            ops = c08_esc.parse_ops(common.driver("c08ops", ["-"])[0])
            rank_cases = c08_esc.rank_trees(common.rng_for(args.seed, "C08rank"), ops, {"quick": 2, "thorough": 8}[args.tier])
            gen_trees += [t for _, _, t in rank_cases]
        # corpus lines are already serialised: wrap them so that `ser` passes them through
        all_trees = [parse_prefix(l) for _, l in trees] + gen_trees
        dist["corpus"] = len(trees)
        rows, bad = evaluate(bdir, wd, quirks, all_trees, "m", stats) if drv_ok else ([], [])
        for b in bad:
            proof_problems.append("driver rejected request: " + b["req"][:200])
        by_req = {}
        failing = []
        for r in rows:
            n_eval += 1
            distinct.add(r["text"])
            t = r["tree"]
            if t[0] == "sq":
                t = t[1]
            root = (t[1].split()[0] if t[0] == "raw" else (t[0] + ":" + str(t[1]) if t[0] in "ubc" else t[0]))
            dist["by_root"][root] = dist["by_root"].get(root, 0) + 1
            if t[0] != "raw":
                dd = depth(t)
                dist["by_depth"][dd] = dist["by_depth"].get(dd, 0) + 1
            dist["by_result"][r["spec"][0]] = dist["by_result"].get(r["spec"][0], 0) + 1
            if r["lex"] != "ok":
                dist["lex_ne"] += 1
                proof_problems.append("model-internal: lex(render f) != toks f for " + r["text"])
            if r["model"] != r["toks"]:
                proof_problems.append("model-internal: evalStr(render f) != evalToks(toks f) for " + r["text"])
            if r["spec"] == "Eundef":
                dist["spec_undef"] += 1
            if r["model"] == "Eub":
                dist["model_ub"] += 1
            spec_ok = r["spec"] == "Eundef" or agrees(r["spec"], r["real"])
            model_ok = r["model"] == "Eub" or agrees(r["model"], r["real"])
            if len(samples) < 6 and t[0] != "raw" and depth(t) >= 4 and spec_ok:
                samples.append(dict(text=r["text"], asl=show_real(r["real"]), model=r["model"], spec=r["spec"]))
            if not spec_ok or not model_ok:
                failing.append((r, spec_ok, model_ok))

        # ---- operator ranks: which ordered pairs did the generated operands discriminate (by the SPEC's values)?
        spec_of = {r["req"]: r["spec"] for r in rows}
        pairs_all, pairs_disc = set(), set()
        for j in range(0, len(rank_cases), 2):
            (key, _, tl), (_, _, tr) = rank_cases[j], rank_cases[j + 1]
            pairs_all.add(key)
            vl, vr = spec_of.get(quirks + " " + ser(tl)), spec_of.get(quirks + " " + ser(tr))
            if vl and vr and vl[0] == "I" and vr[0] == "I" and vl != vr:
                pairs_disc.add(key)
        dist["rank_formulas"] = len(rank_cases)
        dist["rank_operator_pairs_with_discriminating_operands"] = len(pairs_disc)
        dist["rank_operator_pairs_generated"] = len(pairs_all)

        # ---- shrink: evaluate every subformula of the failing generated cases, keep minimal failing ones
        sub = []
        seen = set()
        for r, _, _ in failing:
            if r["tree"][0] == "raw":
                continue
            for s in subtrees(r["tree"]):
                k = ser(s)
                if k not in seen:
                    seen.add(k)
                    sub.append(s)
        sub_rows = {}
        if sub:
            rr, _ = evaluate(bdir, wd, quirks, sub, "s", stats)
            for x in rr:
                sub_rows[ser(x["tree"])] = x

        def model_of(t):
            # operand value of a (passing) subformula: the model's result, or the documented one where the
            # model only says "undefined behaviour below"
            x = sub_rows.get(ser(t))
            if not x:
                return None
            return x["model"] if not x["model"].startswith("E") else x["spec"]

        def status(t):
            x = sub_rows.get(ser(t))
            if x is None:
                return None
            return (x["spec"] == "Eundef" or agrees(x["spec"], x["real"]), x["model"] == "Eub" or agrees(x["model"], x["real"]), x)

        reported = set()
        for r, spec_ok, model_ok in failing:
            t = r["tree"]
            cands = []
            if t[0] != "raw":
                for s in subtrees(t):
                    st = status(s)
                    if st is None:
                        continue
                    # minimal = fails, and no proper subformula fails (a failure above a failing subformula is
                    # attributed to that subformula; float results are compared with a tolerance, so "all
                    # children pass" alone would blame the first integer-valued ancestor)
                    if (not st[0] or not st[1]) and all((status(c) or (True, True))[0] and (status(c) or (True, True))[1]
                                                        for c in list(subtrees(s))[1:]):
                        cands.append((s, st))
            if not cands:
                cands = [(t, (spec_ok, model_ok, r))]
            for s, (sok, mok, x) in cands:
                key = x["text"]
                if key in reported:
                    continue
                reported.add(key)
                sig = signature(s, model_of, x) if s[0] != "raw" else None
                if s[0] == "raw":
                    for psig, line in FINDING_PROBES:
                        if line == s[1]:
                            sig = psig
                entry = dict(sig=sig, text=x["text"], formula=x["req"], asl=show_real(x["real"]), spec=x["spec"], model=x["model"],
                             found_in=r["text"], why="the real assembler's result differs from the documented value")
                if not sok:
                    spec_fail.append(entry)
                    if not mok and sig is not None:
                        # a known finding does not excuse the model: it has to follow what the code does there
                        corr_fail.append(dict(entry, why="real assembler and Lean model disagree (on an input of a known finding's class)"))
                elif not mok:
                    # observation limit, not a difference: an integer turned into a string by "..."+int can contain a NUL byte
                    # ($AB00F503 -> AB 00 F5 03), and the symbol's value is shown by MESSAGE up to that byte only
                    m_ = x["model"]
                    if (m_.startswith("S") and "00" in [m_[1:][k:k + 2] for k in range(0, len(m_) - 1, 2)] and x["real"][0] == "val"
                            and x["real"][1] == bytes.fromhex(m_[1:]).split(b"\0")[0].decode("latin-1")):
                        continue
                    entry["why"] = "real assembler and Lean model disagree (the documented value is met)"
                    corr_fail.append(entry)

        # ---- texts outside the rendered grammar: documented alias, negative SUBSTR start, grammar probes
        raw_texts = [p[1] for p in RAW_PROBES] + ["2*-3", "1.0/3.0*1e-5", "1 + 2 * 3", "( 1+2 )*3", "~~~5", "1--1", "bitcnt ( 7 )"]
        raw_model = common.driver("c08str", [quirks + " " + t.encode().hex() for t in raw_texts]) if drv_ok else []
        raw_real = []
        for t in raw_texts:
            raw_real.append(run_asl_cases(bdir, wd, [t], "r", stats)[0])
        for (sig, text, doc), o in zip(RAW_PROBES, raw_real):
            n_eval += 1
            if not agrees(doc, o):
                spec_fail.append(dict(sig=sig, text=text, asl=show_real(o), spec=doc, why="documented value not delivered"))
        for t, m, o in zip(raw_texts[len(RAW_PROBES):], raw_model[len(RAW_PROBES):], raw_real[len(RAW_PROBES):]):
            n_eval += 1
            mv = m.split("=", 1)[1] if "=" in m else m
            res.notes.append("grammar probe %r: asl %s, model %s" % (t, show_real(o), mv))
            if not agrees(mv, o):
                corr_fail.append(dict(sig=None, text=t, asl=show_real(o), model=mv, why="model and real assembler disagree on a text outside the rendered grammar"))

        if drv_ok:
            # ---- string constants in data statements (DB on a byte-organised target)
            dg = c08_esc.EscGen(common.rng_for(args.seed, "C08escdata"))
            consts = []
            for i in range({"quick": 300, "thorough": 3000}[args.tier]):
                t = dg.hexrun() if i % 2 else dg.const(n=None)
                if t[1] == "S" and len(c08_esc.const_codes(t)) != 1:
                    t = ("e", "D", dg.items_for(c08_esc.const_codes(t) or [65], "D", brace=False))
                if not c08_esc.const_codes(t):
                    continue
                consts.append(t)
            n_data = c08_esc.data_statements(_sys.modules[__name__], bdir, wd, quirks, consts, stats, spec_fail, corr_fail, samples)
            n_eval += n_data
            dist["escape_data_statements"] = n_data
            for k, v in dg.dist.items():
                if isinstance(v, dict):
                    for k2, v2 in v.items():
                        if isinstance(v2, dict):
                            for k3, v3 in v2.items():
                                eg.dist[k][k2][k3] = eg.dist[k][k2].get(k3, 0) + v3
                        else:
                            eg.dist[k][k2] = eg.dist[k].get(k2, 0) + v2
                else:
                    eg.dist[k] = eg.dist.get(k, 0) + v
            dist["escape_constants"] = eg.dist
            n_eval += literal_sweep(bdir, wd, common.rng_for(args.seed, "C08lit"), args.tier, stats, dist, spec_fail, corr_fail, samples)
            # ---- constants of every notation inside formulas and operand lists, on the targets with a QualifyQuote callback and a few more
            n_eval += c08_quote.run(_sys.modules[__name__], bdir, wd, quirks, args.seed, args.tier, stats, dist, spec_fail, corr_fail, samples, proof_problems)
            # ---- values that pass through text: arguments of user-defined functions, compared exactly (vlib/props/c08_text.py)
            n_eval += c08_text.run(bdir, wd, args.seed, args.tier, stats, dist, spec_fail, corr_fail, samples, proof_problems)

    res.coverage = common.proof_coverage(audit, "C08", [
        "translate/tables.py gen_operators/gen_intformats (static dumpers linked with operator.c.o/function.c.o of the current build; intformat.c included)",
        "automatic type conversion: C08_promotion_table/_unary/_convert_step/_string_meets_float tie TryConvert/BestOpMatch/TempResultToInt/ToFloat to the SPEC's promotion rule (proved); "
        "the operator x type x type sweep and the mixed trees are the differential part",
        "correspondence: real asl (`message \"\\{expr}\"`, outradix 10) vs Lean tokeniser+token machine on the text rendered by the Lean SPEC render (differential test)",
        "string constants: C08_strings_numeric_escape / _escape_width / _value / _scan / _lex (Props/C08_Strings.lean) tie ProcessBk, ConstStringVal and the quote scan to the "
        "SPEC's item lists for every well-formed constant (proved; the value of the formula inside \\{...} is a hypothesis there and part of the differential test); "
        "escape constants in formulas and in DB statements, and the rank-discriminating formulas, are the differential part",
        "constants inside formulas: C08_quote_open_constant_qualified / _scan_one_token / _split_one_token (Props/C08_Quote.lean) - for every digit string of the base "
        "the QualifyQuote_SingleQuoteConstant model reports the apostrophe of an open IBM constant as no string delimiter, so the operator scan and the comma search go on behind "
        "it (proved); model callback = SPEC predicate openIbmAt at every apostrophe of every generated text (checked by the driver, field qual), character loop of EvalStrExpression / "
        "QuotPosCore with the callback vs real asl, and the SPEC's fold over the manual's notation table vs real asl are the differential part",
        "Lean `Float` (opaque to the kernel) for float-valued cases: structural only, compared with 1e-9 relative tolerance",
        "user-defined functions (vlib/props/c08_text.py): C08_func_call_values / _float_roundtrip / _float_digits (Props/C08_Func.lean) - a call is the body on the argument VALUES "
        "whenever every argument survives its text form, which for floats holds for any correctly rounded print/parse pair once the print emits >= 17 significant digits "
        "(hypotheses about the C library's printf/strtod, trusted base) - the number of digits is generated from tempresult.c; real asl vs SPEC vs MODEL compared EXACTLY "
        "(bit patterns through DQ/DB bytes) is the differential part"])
    dist.update(stats)
    by_sig = {}
    for e in spec_fail:
        by_sig[str(e.get("sig"))] = by_sig.get(str(e.get("sig")), 0) + 1
    dist["spec_failures_by_signature"] = by_sig
    if os.environ.get("C08_DEBUG"):
        for e in spec_fail + corr_fail:
            if e.get("sig") is None:
                log("UNSIGNED", json.dumps(e)[:600])
    res.coverage.update(
        evaluations=n_eval, distinct_nontrivial=len([t for t in distinct if any(c in t for c in "+-*/#^&|!<>=~(")]),
        rule="expression trees of depth 1..6 over the manual's operator table and integer/float/string functions, operands from boundary pools "
             "(0, +-1, 2^31, 2^63-1, -2^63, powers of two, multiples of 1/64 as floats); mixed operand types: every dyadic operator x {string, integer, float}^2 "
             "and every numeric function x argument type (character constants and multi character constants of 1..4 random characters, a few without integer "
             "value, in double and in single quotes), plus random trees over them; string / character constants spelled with every escape form of the manual "
             "(abbreviations in both cases, decimal / \\x hexadecimal / \\0 octal numbers with every digit count, followed by digits, hex letters, other characters, escapes or the end "
             "of the constant, \\{expr}) under STRLEN, CHARFROMSTR, SUBSTR, STRSTR, UPSTRING/LOWSTRING, comparisons, concatenation, conversion to integer, and as DB operands; "
             "for every ordered pair of operators both groupings of `a op1 b op2 c` / `op a op2 b` with operands that give the groupings different values; "
             "constants inside formulas and operand lists (vlib/props/c08_quote.py): every enabled integer notation - the IBM forms with and without closing "
             "apostrophe on H8/300, H8/500, NS32000, SC/MP (QualifyQuote_SingleQuoteConstant), closed forms and the C/Motorola/Intel notations on 68000, 6809, Z80 "
             "(QualifyQuote_Z80), 8051, 8086, AVR - followed by each of the 22 dyadic operators, preceded by operators and by sign / complement, in chains, in front of a "
             "closing parenthesis, next to character constants, alone, and as operands of DB / DC.B / FCB lists (comma and further operand behind the constant), with random "
             "digit strings of the base that contain its largest digit in most cases, both cases of marker letters and digits, RELAXED ON / INTSYNTAX +/-, RADIX 10/16/8/2/random; "
             "user-defined functions (identity, projections of 2/3 parameters, parameters used twice, sums/products/comparisons of parameters, bodies that call other "
             "functions, calls nested in arguments) applied to floats that need 17 significant digits (0.1+0.2, square roots, random 64-bit patterns, subnormals, largest "
             "double, -0.0), integers at the 64-bit limits and digit strings under RADIX 2..36, strings with quotes, backslashes, commas, parentheses, control and 8-bit characters; "
             "non-trivial = contains an operator or call; distinct by rendered text",
        samples=samples, distribution=dist)
    res.assumptions = ["the text sent to the real assembler is produced by the Lean SPEC `render`; the Lean model tokenises that same text",
                       "error classes are compared through the first error number the assembler reports for the line",
                       "points the manual leaves undefined (negative integer exponents, 0.0 to a negative power, string+integer) are not judged by the SPEC comparator",
                       "READING: a string (1..4 characters) where a number is expected is its integer value, also as argument of a built-in function and also when the other operand is a float "
                       "(then promoted to float: 'A'*1.5 = 97.5); a string without integer value there is a type error",
                       "formulas that contain an apostrophe or a backslash are evaluated through SET and printed with DEFINED(sym) in front, so that a formula without value is not read as 0",
                       "a string value with control or 8-bit characters is read through EXPRTYPE, STRLEN and CHARFROMSTR of the SET symbol instead of being printed "
                       "(CHARFROMSTR results 2^64-128..2^64-1 inside the string are taken modulo 256 there: finding charfromstr-8bit-character-negative is judged on formulas that call CHARFROMSTR)",
                       "READING: the formula inside \\{...} of a string constant is written with the digits of the 64-bit pattern under OUTRADIX 10 (the generator keeps these values below 2^63)",
                       "data statements: DB on the Z80 target lays down the characters of a string constant unchanged (no CHARSET); used as a second observation channel for constants",
                       "READING: 'another variant of this notation for some targets is to leave away the closing apostrophe' - the targets are H8/300, H8/500, NS32000 and SC/MP "
                       "(the manual does not list them); there an open IBM constant ends where its digits end",
                       "constants inside formulas are observed through SET + MESSAGE (symbol names with an underscore, so that no RADIX reads them as numbers) and through the bytes of "
                       "DB / DC.B / FCB statements; only digit strings of the RADIX base are generated as unmarked constants (a digit outside the base makes the text a float constant)",
                       "a failing formula is reported through its minimal failing subformulas (no proper subformula fails); a failure above a failing subformula is attributed to that subformula",
                       "user-defined functions: results are read exactly from DQ (integer / IEEE double, little endian) and DB (string) statements on the 8086 target, the type from EXPRTYPE; "
                       "the source text of these cases is rendered by the harness (Python repr for doubles: shortest text that reads back to the same double under a correctly rounded strtod)",
                       "float texts printed by asl are trusted to 100 units of the last significant digit when 12+ digits are printed (FloatString shortens to 18 characters), else to 1e-14 relative"]
    return common.conclude(res, proof_problems, spec_fail, corr_fail, n_eval)


def replay(args):
    d = json.load(open(args.replay))
    print(json.dumps({k: (v if len(str(v)) < 2000 else str(v)[:2000] + "...") for k, v in d.items()}, indent=1))
    if d.get("quote_source"):
        return c08_quote.replay(_sys.modules[__name__], d)
    if d.get("func_source"):
        return c08_text.replay(d)
    if d.get("cpu") == "z80" and str(d.get("text", "")).startswith("db "):
        bdir = common.repo_build("hooks")
        with common.Workdir("c08r") as wd:
            f = os.path.join(wd, "rp.asm")
            open(f, "w").write("\tcpu z80\n\toutradix 10\n\torg 0\n\t%s\n" % d["text"])
            rc, so, se = common.run_tool(bdir, "asl", ["-q", "-n", f, "-o", f[:-4] + ".p"], wd)
            recs = common.parse_pfile_py(open(f[:-4] + ".p", "rb").read()) if os.path.exists(f[:-4] + ".p") else None
            print("asl now: status", rc, (se + so).decode("latin-1")[:300], "bytes", [r[5].hex() for r in (recs or []) if r[0] == "D"])
            if d.get("formula"):
                print("driver :", common.driver("c08", [d["formula"]])[0])
        return 0
    if "text" in d and d["text"]:
        bdir = common.repo_build("hooks")
        with common.Workdir("c08r") as wd:
            st = dict(asl_runs=0, crashes=0, fatal_aborts=0)
            ps = str_of_res(d.get("spec")) if isinstance(d.get("spec"), str) else None
            probe = len(ps) + 1 if ps is not None and "\\" in d["text"] and any(ord(c) < 32 or ord(c) > 126 for c in ps) else None
            o = run_asl_cases(bdir, wd, [d["text"]], "rp", st, [probe])[0]
            print("asl now:", show_real(o) if probe is None else "value (character codes) " + " ".join(str(ord(c)) for c in o[1]) if o[0] == "val" else show_real(o))
            if d.get("formula"):
                print("driver :", common.driver("c08", [d["formula"]])[0])
    return 0
