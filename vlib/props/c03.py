"""C03 - no input makes the assembler or a utility crash or hang.

Two halves (DESIGN.md 4.3):
 * proof: Model/PFileRead.lean (the utilities' reader loop) with the theorems of Props/C03.lean; tied to the
   real plist/pbind/p2bin/p2hex by running them on all truncations / field edits / bit flips of small code files
   and comparing exit status *and the format-error text* with the model's classification (B: accepted -> 0, every
   error class -> 3 with its message, 2 only where the probed `errno` of the tool is stale) and the status with the
   SPEC's allowed set (C).  There is no input the model declines to predict.
 * exploration (labelled so): grammar-generated statements for the global pseudo instructions with boundary
   arguments, mutated golden sources, raw bytes, random images for dasl; oracle = documented exit status, never a
   signal / sanitizer report / time-out.  Thorough tier uses the clang-14 ASan+UBSan build.
"""
import concurrent.futures
import json
import os
import re
import resource
import signal
import subprocess
import time

from .. import common
from ..common import log
from . import c03_asm
from . import c03_data
from . import c03_names
from . import c03_opts
from . import c03_trees

PROP = "C03"
INC = os.path.join(common.REPO, "include")
ASL_OK = {0, 2, 3}          # doc/assembler-usage.md (1 = usage only, 4 = start-up / parameter error: allowed only for runs with a generated option set, see run())
TOOL_OK = {0, 1, 2, 3}      # doc/utility-programs.md


def _segcount():
    try:
        m = re.search(r"def segCount : Nat := (\d+)", open(os.path.join(common.LEAN_DIR, "AslModel", "Generated", "Tools.lean")).read())
        return int(m.group(1))
    except (OSError, AttributeError):
        return 11


SEGCOUNT = 11   # replaced in run() by the regenerated value


# --------------------------------------------------------------------------------------------
# running a program under resource limits; stdout/stderr go to files (a hang that prints must not fill memory)

class Outcome:
    __slots__ = ("kind", "status", "err", "out")

    def __init__(self, kind, status, err, out):
        self.kind = kind      # 'exit' | 'signal' | 'timeout' | 'san'
        self.status = status  # exit code / signal number
        self.err = err
        self.out = out

    def token(self):
        if self.kind == "exit":
            return str(self.status)
        if self.kind == "signal":
            return "sig%d" % self.status
        return self.kind

    def __repr__(self):
        return self.token()


SAN_RE = re.compile(rb"ERROR: AddressSanitizer|runtime error:|SUMMARY: \w+Sanitizer")


def run_limited(bdir, tool, args, cwd, tag, cpu_s, fsize_mb=24, stdin_data=None, env=None, out_max=4000):
    so = os.path.join(cwd, tag + ".stdout")
    se = os.path.join(cwd, tag + ".stderr")
    e = dict(os.environ)
    e.update(common.tool_env(bdir, env))
    e["ASAN_OPTIONS"] = "detect_leaks=0:abort_on_error=1:allocator_may_return_null=1:max_allocation_size_mb=2048"
    e["UBSAN_OPTIONS"] = "print_stacktrace=1"

    def pre():
        os.setsid()
        resource.setrlimit(resource.RLIMIT_CPU, (cpu_s, cpu_s + 1))
        resource.setrlimit(resource.RLIMIT_FSIZE, (fsize_mb << 20, fsize_mb << 20))
        resource.setrlimit(resource.RLIMIT_CORE, (0, 0))

    with open(so, "wb") as fo, open(se, "wb") as fe:
        p = subprocess.Popen([os.path.join(bdir, tool)] + list(args), cwd=cwd, env=e, stdout=fo, stderr=fe,
                             stdin=subprocess.PIPE if stdin_data is not None else subprocess.DEVNULL, preexec_fn=pre)
        try:
            p.communicate(stdin_data, timeout=cpu_s * 2 + 6)
            rc = p.returncode
        except subprocess.TimeoutExpired:
            try:
                os.killpg(p.pid, signal.SIGKILL)
            except OSError:
                pass
            p.wait()
            rc = "timeout"
    with open(se, "rb") as f:
        err = f.read(200000)
    with open(so, "rb") as f:
        out = f.read(out_max)
    for fn in (so, se):
        try:
            os.unlink(fn)
        except OSError:
            pass
    if rc == "timeout":
        return Outcome("timeout", 0, err[-3000:], out)
    if SAN_RE.search(err):
        return Outcome("san", rc, err[-6000:], out)
    if rc < 0:
        if -rc in (signal.SIGXCPU, signal.SIGXFSZ, signal.SIGKILL):
            # CPU limit / unbounded output: "does not end within time proportional to the work described"
            return Outcome("timeout", -rc, err[-3000:], out)
        return Outcome("signal", -rc, err[-3000:], out)
    return Outcome("exit", rc, err[-3000:], out)


# --------------------------------------------------------------------------------------------
# (a) grammar: global pseudo instructions with boundary arguments

BOUNDARY = ["0", "-1", "1", "2", "255", "256", "65535", "65536", "2147483647", "2147483648", "4294967295", "4294967296",
            "9223372036854775807", "(-9223372036854775807-1)", "-2147483649", "", '""', '"abc"', "'a'", "1.5", "1e308",
            "undefd", "$", "*", "1/0", "(-9223372036854775807-1)/(-1)", "1<<64", "1<<63", '"' + "x" * 300 + '"', "1,2",
            "[", ")", "\\", '"\\', "%1", "-0", "0x", "1e", ".", "16#ff", "lab", "~0"]
SMALLCOUNT = ["0", "-1", "1", "2", "3", "100", "", "undefd", '"a"', "1.5"]
STRS = ['"abc"', '""', '"' + "q" * 255 + '"', '"' + "r" * 256 + '"', '"a\\"b"', "'abc'", '"\\0"', '"\\xff"', "abc", "0", '"\\{1+1}"',
        '"\\{x}"', '"%"']
SEGS = ["code", "data", "xdata", "idata", "bitdata", "io", "reg", "romdata", "eedata", "foo", "", "0", '"code"', "struct"]
CPUS = ["68000", "z80", "8051", "6502", "320c25", "6809", "avr", "msp430"]

# (name, template, slots)  slots: a,b = BOUNDARY ; n = SMALLCOUNT ; s = STRS ; g = SEGS
PSEUDO = [
    ("ORG", "\torg {a}", "a"), ("RORG", "\trorg {a}", "a"), ("ALIGN", "\talign {a}", "a"), ("ALIGN2", "\talign {a},{b}", "ab"),
    ("DS", "\tds {a}", "a"), ("DS.B", "\tds.b {a}", "a"), ("DS.L", "\tds.l {a}", "a"), ("DFS", "\tdfs {a}", "a"), ("RMB", "\trmb {a}", "a"),
    ("RES", "\tres {a}", "a"), ("BSS", "\tbss {a}", "a"),
    ("PHASE", "\tphase {a}\n\tnop\n\tdephase", "a"), ("DEPHASE", "\tdephase", ""), ("PHASE2", "\tphase {a}\n\tphase {b}\n\tdephase\n\tdephase\n\tdephase", "ab"),
    ("SEGMENT", "\tsegment {g}\n\torg {a}", "ga"), ("SEGMENT1", "\tsegment {g}", "g"),
    ("SAVE", "\tsave\n\trestore", ""), ("RESTORE", "\trestore", ""), ("SAVE2", "\tsave\n\tsave\n\trestore\n\trestore\n\trestore", ""),
    ("SAVE-STRUCT", "s\tstruct\n\tsave\ns\tendstruct\n\trestore\n\tnop", ""),
    ("SAVE-SEGMENT", "\tsegment {g}\n\tsave\n\tsegment code\n\trestore\n\tnop", "g"),
    ("IF", "\tif {a}\n\tnop\n\tendif", "a"), ("IFELSE", "\tif {a}\n\tnop\n\telseif {b}\n\tnop\n\telse\n\tnop\n\tendif", "ab"),
    ("IFDEF", "\tifdef {a}\n\tnop\n\tendif", "a"), ("IFNDEF", "\tifndef {a}\n\tendif", "a"), ("IFUSED", "\tifused {a}\n\tendif", "a"),
    ("IFNUSED", "\tifnused {a}\n\tendif", "a"), ("IFEXIST", "\tifexist {s}\n\tendif", "s"), ("IFNEXIST", "\tifnexist {s}\n\tendif", "s"),
    ("IFB", "\tifb {a}\n\tendif", "a"), ("IFNB", "\tifnb {a},{b}\n\tendif", "ab"),
    ("ELSE", "\telse", ""), ("ELSEIF", "\telseif {a}", "a"), ("ENDIF", "\tendif", ""), ("IF-open", "\tif {a}", "a"),
    ("SWITCH", "\tswitch {a}\n\tcase {b}\n\tnop\n\telsecase\n\tnop\n\tendcase", "ab"), ("CASE", "\tcase {a}", "a"), ("ELSECASE", "\telsecase", ""),
    ("ENDCASE", "\tendcase", ""), ("SWITCH-open", "\tswitch {a}", "a"), ("SWITCH-if", "\tswitch {a}\n\tendif", "a"), ("IF-endcase", "\tif {a}\n\tendcase", "a"),
    ("MACRO", "m\tmacro\n\tnop\n\tendm\n\tm", ""), ("MACRO-par", "m\tmacro p,q\n\tdb p,q\n\tendm\n\tm {a},{b}", "ab"),
    ("MACRO-def", "m\tmacro p={a}\n\tdb p\n\tendm\n\tm", "a"), ("MACRO-nolabel", "\tmacro {a}\n\tendm", "a"), ("ENDM", "\tendm", ""),
    ("EXITM", "\texitm", ""), ("SHIFT", "\tshift", ""), ("MACRO-opts", "m\tmacro {{{a}}}\n\tendm\n\tm", "a"),
    ("MACRO-open", "m\tmacro\n\tnop", ""), ("MACRO-shift", "m\tmacro a,b\n\tshift\n\tshift\n\tshift\n\tdb a\n\tendm\n\tm 1,2", ""),
    ("IRP", "\tirp x,{a},{b}\n\tdb x\n\tendm", "ab"), ("IRP0", "\tirp {a}\n\tnop\n\tendm", "a"), ("IRPC", "\tirpc c,{s}\n\tdb 'c'\n\tendm", "s"),
    ("IRPN", "\tirpn {n},x,1,2,3\n\tnop\n\tendm", "n"), ("IRPN2", "\tirpn {n},x,y\n\tnop\n\tendm", "n"), ("IRP-open", "\tirp x,1,2", ""),
    ("REPT", "\trept {n}\n\tnop\n\tendm", "n"), ("REPT-nest", "\trept {n}\n\trept 2\n\tnop\n\tendm\n\tendm", "n"), ("REPT-open", "\trept 2", ""),
    ("STRUCT", "s\tstruct\nf\tds 1\ns\tendstruct", ""), ("STRUCT-arg", "s\tstruct {a}\ns\tendstruct {b}", "ab"), ("STRUCT-nolabel", "\tstruct\n\tendstruct", ""),
    ("ENDSTRUCT", "\tendstruct", ""), ("UNION", "s\tstruct\nu\tunion\na\tds 1\nu\tendunion\ns\tendstruct", ""), ("ENDUNION", "\tendunion", ""),
    ("STRUCT-open", "s\tstruct\nf\tds 1", ""), ("STRUCT-use", "s\tstruct\nf\tds {a}\ns\tendstruct\nv\ts", "a"), ("DOTTEDSTRUCTS", "\tdottedstructs {a}", "a"),
    ("STRUCT-arr1", "s\tstruct\nf\tds.b 1\ns\tendstruct\nv\ts [{n}]\n\tdc.b v_len", "n", "68000"),
    ("STRUCT-arr2", "s\tstruct\nf\tds.b 1\ns\tendstruct\nv\ts [2],[{n}]\n\tdc.b v_len", "n", "68000"),
    ("STRUCT-arr3", "s\tstruct\nf\tds.b 1\ng\tds.w 1\ns\tendstruct\nv\ts [2],[2],[2]", "", "68000"),
    ("STRUCT-arr3n", "s\tstruct\nf\tds.b 1\ns\tendstruct\nv\ts [{n}],[3],[{n}]", "n", "68000"),
    ("STRUCT-arr4", "s\tstruct\nf\tds.b 1\ns\tendstruct\nv\ts [2],[1],[2],[{n}]", "n", "68000"),
    ("STRUCT-arr-z80", "s\tstruct\nf\tdb ?\ns\tendstruct\nv\ts [3],[2],[2]\n\tdb 1", "", "z80"),
    ("STRUCT-arr-dotted", "\tdottedstructs on\ns\tstruct\nf\tds.b 1\nu\tunion\na\tds.b 2\nb\tds.b 1\nu\tendunion\ns\tendstruct\nv\ts [2],[2],[3]", "", "68000"),
    ("STRUCT-org", "s\tstruct\n\torg {a}\n\talign {b}\ns\tendstruct", "ab"), ("STRUCT-seg", "s\tstruct\n\tsegment {g}\ns\tendstruct\n\tnop", "g"),
    ("RADIX", "\tradix {a}\nx\tequ 10", "a"), ("OUTRADIX", "\toutradix {a}\n\tmessage \"\\{{255}}\"", "a"),
    ("CHARSET", "\tcharset {a},{b},{a}", "ab"), ("CHARSET1", "\tcharset {a}", "a"), ("CHARSET0", "\tcharset", ""), ("CHARSET-s", "\tcharset {s},{s}", "s"),
    ("CODEPAGE", "\tcodepage {a},{b}", "ab"), ("CODEPAGE1", "\tcodepage p\n\tcharset 'a',{a}\n\tcodepage standard", "a"),
    ("PUSHV", "\tpushv s,{a}\n\tpopv s,x", "a"), ("POPV", "\tpopv s,x", ""), ("PUSHV-many", "x\tset 1\n\tpushv s,x,x,x\n\tpopv s,x,x,x,x", ""), ("PUSHV0", "\tpushv {a}", "a"),
    ("FUNCTION", "f\tfunction x,x+{a}\ny\tequ f({b})", "ab"), ("FUNCTION0", "f\tfunction {a}", "a"), ("FUNCTION-rec", "f\tfunction x,g(x)\ng\tfunction x,x+1\ny\tequ f({a})", "a"),
    ("FUNCTION-argc", "f\tfunction x,y,x+y\nz\tequ f({a})", "a"),
    ("BINCLUDE", "\tbinclude \"blob.bin\",{a},{b}", "ab"), ("BINCLUDE1", "\tbinclude {s}", "s"), ("INCLUDE", "\tinclude {s}", "s"),
    ("DB", "\tdb {a}", "a"), ("DW", "\tdw {a}", "a"), ("DD", "\tdd {a}", "a"), ("DQ", "\tdq {a}", "a"), ("DT", "\tdt {a}", "a"), ("DB-s", "\tdb {s},{a}", "sa"),
    ("DB-dup", "\tdb {n} dup ({a})", "na"), ("DB-dup2", "\tdb {n} dup ({n} dup (1,2))", "n"), ("DW-s", "\tdw {s}", "s"), ("DD-s", "\tdd {s}", "s"), ("DQ-s", "\tdq {s}", "s"),
    ("DC.B", "\tdc.b {a}", "a"), ("DC.W", "\tdc.w {a}", "a"), ("DC.L", "\tdc.l {a}", "a"), ("DC.Q", "\tdc.q {a}", "a"), ("DC.S", "\tdc.s {a}", "a"),
    ("DC.D", "\tdc.d {a}", "a"), ("DC.X", "\tdc.x {a}", "a"), ("DC.P", "\tdc.p {a}", "a"), ("DC.C", "\tdc.c {a}", "a"),
    ("DC-rep", "\tdc.b [{n}]{a}", "na"), ("DC.W-s", "\tdc.w {s}", "s"), ("DC.L-s", "\tdc.l [{n}]{s}", "ns"), ("DC.Q-s", "\tdc.q [{n}]1,[{n}]{s},2", "ns"),
    ("DC.X-s", "\tdc.x {s}", "s"), ("DC.D-s", "\tdc.d [{n}]{s}", "ns"),
    ("BYT", "\tbyt {a}", "a"), ("FCB", "\tfcb {a}", "a"), ("FCC", "\tfcc {s}", "s"), ("FDB", "\tfdb {a}", "a"), ("ADR", "\tadr {a}", "a"), ("FCC-rep", "\tfcc [{n}]{s}", "ns"),
    ("DATA", "\tdata {a}", "a"), ("WORD", "\tword {a}", "a"), ("LONG", "\tlong {a}", "a"), ("STRING", "\tstring {s}", "s"), ("FLOAT", "\tfloat {a}", "a"),
    ("SUBSTR", "x\tequ substr({s},{a},{b})", "sab"), ("STRSTR", "x\tequ strstr({s},{s})", "s"), ("STRLEN", "x\tequ strlen({s})", "s"),
    ("CHARFROMSTR", "x\tequ charfromstr({s},{a})", "sa"), ("UPSTRING", "x\tequ upstring({s})", "s"), ("LOWSTRING", "x\tequ lowstring({s})", "s"),
    ("VAL", "x\tequ val({s})", "s"), ("VAL-a", "x\tequ val(\"{a}\")", "a"), ("EXPRTYPE", "x\tequ exprtype({a})", "a"), ("SUBSTR-db", "\tdb substr({s},{a},{b})", "sab"),
    ("SUBSTR-msg", "\tmessage substr({s},{a},{b})", "sab"), ("STR-cat", "x\tequ {s}+{s}", "s"), ("STR-cmp", "x\tequ {s}<{s}", "s"), ("STR-idx", "\tmessage \"\\{{{a}}}\"", "a"),
    ("BITCNT", "x\tequ bitcnt({a})", "a"), ("FIRSTBIT", "x\tequ firstbit({a})", "a"), ("LASTBIT", "x\tequ lastbit({a})", "a"), ("BITPOS", "x\tequ bitpos({a})", "a"),
    ("MASK", "x\tequ mask({a},{b})", "ab"), ("CUTOUT", "x\tequ cutout({a},{b},{a})", "ab"), ("ROTL", "x\tequ rotl({a},{b},{a})", "ab"), ("ROTR", "x\tequ rotr({a},{b},{b})", "ab"),
    ("SGN", "x\tequ sgn({a})", "a"), ("ABS", "x\tequ abs({a})", "a"), ("TOUPPER", "x\tequ toupper({a})", "a"), ("SQRT", "x\tequ sqrt({a})", "a"), ("LN", "x\tequ ln({a})", "a"),
    ("INT", "x\tequ int({a})", "a"), ("SYMTYPE", "x\tequ symtype({a})", "a"), ("DEFINED", "x\tequ defined({a})", "a"), ("OP-div", "x\tequ {a}/{b}", "ab"), ("OP-mod", "x\tequ {a}#{b}", "ab"),
    ("OP-shl", "x\tequ {a}<<{b}", "ab"), ("OP-shr", "x\tequ {a}>>{b}", "ab"), ("OP-pow", "x\tequ {a}^{b}", "ab"), ("OP-mirror", "x\tequ {a}><{b}", "ab"), ("OP-mul", "x\tequ {a}*{b}", "ab"),
    ("EQU", "x\tequ {a}", "a"), ("SET", "x\tset {a}\nx\tset {b}", "ab"), ("ASSIGN", "x\t= {a}", "a"), ("ASSIGN2", "x\t:= {a}", "a"), ("EQU-nolabel", "\tequ {a}", "a"),
    ("LABEL", "x\tlabel {a}", "a"), ("ENUM", "\tenum a,b={a},c", "a"), ("NEXTENUM", "\tnextenum d,e", ""), ("ENUMCONF", "\tenumconf {a},{b}\n\tenum x,y", "ab"),
    ("LISTING", "\tlisting {a}", "a"), ("PAGE", "\tpage {a},{b}", "ab"), ("PAGESIZE", "\tpagesize {a},{b}", "ab"), ("NEWPAGE", "\tnewpage {a}", "a"), ("TITLE", "\ttitle {s}", "s"),
    ("PRTINIT", "\tprtinit {s}", "s"), ("PRTEXIT", "\tprtexit {s}", "s"), ("MACEXP", "\tmacexp {a}", "a"), ("MACEXP_DFT", "\tmacexp_dft {a}", "a"), ("MACEXP_OVR", "\tmacexp_ovr {a}", "a"),
    ("RELAXED", "\trelaxed {a}", "a"), ("INTSYNTAX", "\tintsyntax {a}", "a"), ("INTSYNTAX2", "\tintsyntax +0hex,-$hex,+{a}", "a"), ("COMPMODE", "\tcompmode {a}", "a"),
    ("END", "\tend {a}", "a"), ("END2", "\tend\n\tnop\n\tend {a}", "a"), ("ERROR", "\terror {s}", "s"), ("FATAL", "\tfatal {s}", "s"), ("WARNING", "\twarning {s}", "s"), ("MESSAGE", "\tmessage {s}", "s"),
    ("ASSUME", "\tassume {a}", "a"), ("ASSUME2", "\tassume x:{a}", "a"), ("CPU", "\tcpu {a}", "a"), ("CPU-s", "\tcpu {s}", "s"), ("SUPMODE", "\tsupmode {a}", "a"), ("FPU", "\tfpu {a}", "a"), ("PMMU", "\tpmmu {a}", "a"),
    ("FULLPMMU", "\tfullpmmu {a}", "a"), ("PADDING", "\tpadding {a}", "a"), ("PACKING", "\tpacking {a}", "a"), ("BIGENDIAN", "\tbigendian {a}", "a"), ("WRAPMODE", "\twrapmode {a}", "a"),
    ("SHARED", "x\tequ 1\n\tshared x,{a}", "a"), ("GLOBAL", "\tglobal {a}", "a"), ("PUBLIC", "\tpublic {a}", "a"), ("FORWARD", "\tsection s\n\tforward {a}\n\tendsection", "a"),
    # declarations inside sections: every mix and order of FORWARD / PUBLIC / GLOBAL with their definitions (the three declaration
    # lists of a section are searched and unlinked one after the other when a symbol is defined)
    ("SECT-fwd-pub", "\tsection s\n\tforward f1\n\tpublic p1\np1:\tnop\nf1:\tnop\n\tendsection\n\tnop", ""),
    ("SECT-pub-fwd", "\tsection s\n\tpublic p1\n\tforward f1\nf1:\tnop\np1:\tnop\n\tendsection", ""),
    ("SECT-all", "\tsection s\n\tglobal g1\n\tforward f1,f2\n\tpublic p1,p2\np2:\tnop\ng1:\tnop\nf2:\tnop\np1:\tnop\nf1:\tnop\n\tendsection\n\tnop", ""),
    ("SECT-all2", "\tsection s\n\tforward f1\n\tglobal g1,g2\n\tpublic p1\ng2:\tnop\np1:\tnop\ng1:\tnop\n\tendsection", ""),
    ("SECT-nested", "\tsection a\n\tforward fa\n\tsection b\n\tpublic pb:a\n\tforward fb\npb:\tnop\nfb:\tnop\n\tendsection\n\tpublic pa\npa:\tnop\nfa:\tnop\n\tendsection\n\tnop", ""),
    ("SECT-undef-fwd", "\tsection s\n\tforward f1\n\tpublic p1\np1:\tnop\n\tendsection", ""),
    ("SECT-decl-arg", "\tsection s\n\tforward {a}\n\tpublic {b}\n\tglobal {a}\nx:\tnop\n\tendsection", "ab"),
    ("SECT-twice", "\tsection s\n\tpublic p1\n\tpublic p1\n\tforward p1\np1:\tnop\np1:\tnop\n\tendsection", ""),
    ("SECTION", "\tsection {a}\n\tendsection {b}", "ab"), ("ENDSECTION", "\tendsection", ""), ("SECTION-open", "\tsection s", ""), ("SECTION-sym", "\tsection s\nx\tequ 1\n\tendsection\ny\tequ x[{a}]", "a"),
    ("SYM-sect", "y\tequ x[]+x[{a}]+[{b}]", "ab"), ("EXPECT", "\texpect {a}\n\tnop\n\tendexpect", "a"), ("ENDEXPECT", "\tendexpect", ""), ("EXPECT-open", "\texpect 1000", ""),
    ("READ", "\tread {s},x", "s"), ("READ0", "\tread x", ""), ("DEPEND", "\tdepend {s}", "s"), ("OUTRADIX-msg", "\toutradix {a}\n\tmessage \"\\{{-1}}\"", "a"),
    ("REG", "r\treg {a}", "a"), ("BIT", "b\tbit {a}", "a"), ("SFR", "s\tsfr {a}", "a"), ("SFRB", "s\tsfrb {a}", "a"), ("PORT", "p\tport {a}", "a"), ("LTORG", "\tltorg", ""),
    ("EVEN", "\teven", ""), ("ODD?", "\tbyt 1\n\talign {a}\n\tbyt 2", "a"), ("LINE-long", "\tdb " + ",".join(["1"] * 600), ""), ("LINE-args", "\tdb " + "," * 40, ""),
    ("LABEL-long", "l" * 300 + ":\tnop", ""), ("NESTED-par", "x\tequ " + "(" * 300 + "1" + ")" * 300, ""), ("NESTED-if", "\n".join(["\tif 1"] * 300) + "\n" + "\n".join(["\tendif"] * 300), ""),
    ("NESTED-macro", "\n".join("m%d\tmacro\n\tm%d\n\tendm" % (i, i + 1) for i in range(40)) + "\nm40\tmacro\n\tnop\n\tendm\n\tm0", ""),
    ("NESTED-struct", "\n".join("s%d\tstruct" % i for i in range(40)) + "\n" + "\n".join("s%d\tendstruct" % i for i in reversed(range(40))), ""),
    ("NESTED-section", "\n".join("\tsection s%d" % i for i in range(60)) + "\n" + "\n".join(["\tendsection"] * 60), ""),
]


def fill(tmpl, slots, pick):
    d = {}
    if "a" in slots:
        d["a"] = pick("a", BOUNDARY)
    if "b" in slots:
        d["b"] = pick("b", BOUNDARY)
    if "n" in slots:
        d["n"] = pick("n", SMALLCOUNT)
    if "s" in slots:
        d["s"] = pick("s", STRS)
    if "g" in slots:
        d["g"] = pick("g", SEGS)
    out = tmpl
    # plain replacement (templates contain literal braces of the assembler's own syntax)
    out = out.replace("{{", "\x01").replace("}}}", "}\x02").replace("}}", "\x02")
    for k, v in d.items():
        out = out.replace("{" + k + "}", v)
    out = out.replace("\x01", "{").replace("\x02", "}")
    return out, d


def gen_grammar(rng, tier):
    """yields dict(kind='asl', cls=..., src=bytes, tag=...)"""
    cases = []
    per = 3 if tier == "quick" else 24
    for ent in PSEUDO:
        name, tmpl, slots = ent[:3]
        k = per if slots else (1 if tier == "quick" else 4)
        seen = set()
        for j in range(k):
            # boundary pools are walked round-robin from a random offset so that every value is used
            offs = {}

            def pick(slot, pool):
                if slot not in offs:
                    offs[slot] = rng.randrange(len(pool))
                return pool[offs[slot]]
            body, d = fill(tmpl, slots, pick)
            if body in seen:
                continue
            seen.add(body)
            cpu = ent[3] if len(ent) > 3 else rng.choice(CPUS)
            label = rng.random() < 0.4
            if label and body.startswith("\t") and "\n" not in body:
                body = "lbl" + body
            src = "\tcpu %s\n%s\n" % (cpu, body)
            cases.append(dict(kind="asl", cls="grammar", op=name, src=src.encode("latin-1"), tag="grammar:%s:%s:%d" % (name, cpu, j), args=d))
    return cases


# (b) mutated golden sources -------------------------------------------------------------------

def mutate_source(rng, data):
    lines = data.split(b"\n")
    kind = rng.choice(["flip", "flip", "dellines", "duplines", "truncate", "swap"])
    if kind == "flip":
        ba = bytearray(data)
        for _ in range(rng.choice([1, 2, 4])):
            if not ba:
                break
            i = rng.randrange(len(ba))
            if chr(ba[i]).isdigit():
                continue  # never turn one count into another ("work the input describes" stays the same)
            c = rng.choice(b"\"'(),;:[]{}\\\t !#$%&*+-./<=>?@^_`|~\x00\x7f\xff\n\rABCxyz")
            ba[i] = c
        return kind, bytes(ba)
    if kind == "dellines" and len(lines) > 2:
        for _ in range(rng.choice([1, 1, 3])):
            if len(lines) > 1:
                del lines[rng.randrange(len(lines))]
        return kind, b"\n".join(lines)
    if kind == "duplines" and len(lines) > 2:
        i = rng.randrange(len(lines))
        lines.insert(i, lines[i])
        return kind, b"\n".join(lines)
    if kind == "swap" and len(lines) > 3:
        i = rng.randrange(len(lines) - 1)
        lines[i], lines[i + 1] = lines[i + 1], lines[i]
        return kind, b"\n".join(lines)
    return "truncate", data[:rng.randrange(len(data) + 1)]


LOOP_RE = re.compile(rb"(?i)\bwhile\b")


def gen_mutants(rng, tier):
    tests = []
    for name, asm, flags in common.corpus_tests():
        try:
            data = open(asm, "rb").read()
        except OSError:
            continue
        if LOOP_RE.search(data):
            continue
        tests.append((name, asm, flags, data))
    cases = []
    if tier == "quick":
        small = sorted(tests, key=lambda t: len(t[3]))[:70]
        chosen = rng.sample(small, 30)
        nmut = 2
    else:
        chosen = tests
        nmut = 6
    for name, asm, flags, data in chosen:
        for j in range(nmut):
            kind, m = mutate_source(rng, data)
            cases.append(dict(kind="asl", cls="mutant", op=kind, src=m, tag="mutant:%s:%s:%d" % (name, kind, j), flags=list(flags), incdir=os.path.dirname(asm)))
    # unmutated golden sources (thorough: this is where the sanitizer build sees the whole corpus)
    if tier == "thorough":
        for name, asm, flags, data in tests:
            cases.append(dict(kind="asl", cls="golden", op="golden", src=data, tag="golden:" + name, flags=list(flags), incdir=os.path.dirname(asm)))
    return cases


# (c) raw bytes ----------------------------------------------------------------------------------

def gen_raw(rng, tier):
    cases = []
    n = 40 if tier == "quick" else 600
    toks = [b"macro", b"endm", b"if", b"endif", b"struct", b"endstruct", b"irp", b"rept", b"db", b"dc.b", b"equ", b"org", b"\"", b"'", b"(", b")", b",", b"\t", b"\n", b" ",
            b"1", b"$", b"x", b"\\", b"{", b"}", b"[", b"]", b":", b";", b"=", b"+", b"-", b"cpu", b"z80", b"section", b"endsection", b"switch", b"case", b"endcase", b"phase",
            b"substr", b"save", b"restore", b"function", b"charset", b"\x00", b"\xff", b"\r"]
    for i in range(n):
        if i % 2 == 0:
            data = bytes(rng.randrange(256) for _ in range(rng.choice([0, 1, 2, 17, 100, 400, 2000])))
            op = "bytes"
        else:
            data = b"".join(rng.choice(toks) + rng.choice([b" ", b"\t", b"", b"\n"]) for _ in range(rng.randrange(1, 120)))
            op = "tokens"
        cases.append(dict(kind="asl", cls="raw", op=op, src=data, tag="raw:%s:%d" % (op, i)))
    # incomplete / over-long / stray UTF-8 sequences where asl converts case in place (labels, symbol references, macro and
    # parameter names, upstring/lowstring arguments, case-insensitive mode): NLS_UpString / NLS_LowString (the harness' locale is C;
    # asl's own code page may still be UTF-8)
    leads = [b"\xc3", b"\xe2\x82", b"\xf0\x9f\x98", b"\xf6", b"\xff", b"\xc3\xa4", b"\xe2\x82\xac", b"\x80", b"\xc0\x80", b"\xf8\x88\x80\x80\x80", b"\xed\xa0\x80"]
    tmpls = [b"%s", b"%s:", b"a%s", b"a%s:\tnop", b"\tdb\t%s", b"x\tequ\tupstring(\"a%s\")", b"x\tequ\tlowstring(\"%s\")", b"m%s\tmacro p%s\n\tdb p%s\n\tendm\n\tm%s 1",
             b"\tdb\t\"%s", b"\tdb\t'%s'", b"\tifdef a%s\n\tendif", b"\tsection s%s\n\tendsection", b"x%s\tset\t1\n\tdb\tx%s", b";%s"]
    for i in range(14 if tier == "quick" else 240):
        t = rng.choice(tmpls)
        l = rng.choice(leads)
        body = t.replace(b"%s", l) + rng.choice([b"", b"\n", b"\r\n"])
        data = rng.choice([b"", b"\tcpu 68000\n", b"\tcpu z80\n"]) + body
        cases.append(dict(kind="asl", cls="raw", op="utf8", src=data, tag="raw:utf8:%d" % i, flags=rng.choice([[], [], ["-U"]])))
    return cases


def run_asl_case(bdir, wd, idx, c, cpu_s):
    d = os.path.join(wd, "a%d" % idx)
    os.makedirs(d, exist_ok=True)
    f = os.path.join(d, "t.asm")
    with open(f, "wb") as fh:
        fh.write(c["src"])
    with open(os.path.join(d, "blob.bin"), "wb") as fh:
        fh.write(bytes(range(64)))
    if b"bin\"" in c["src"]:
        # files beyond the 512-byte code buffer for BINCLUDE (c03_opts.BIGFILES)
        for name, n in c03_opts.BIGFILES.items():
            if name != "blob.bin":
                with open(os.path.join(d, name), "wb") as fh:
                    fh.write(bytes((i * 7 + 3) & 255 for i in range(n)))
    if b"inc.inc" in c["src"]:
        with open(os.path.join(d, "inc.inc"), "wb") as fh:
            fh.write(b"\tdb 9,8,7\nincl:\tnop\n")
    # option sets (c03_opts.optset / `; asl-options:` header of a corpus file): every path inside the case directory
    opts = [o.replace("@D@", d) for o in c.get("opts", [])]
    args = list(c.get("flags", [])) + opts + ["-q", "-i", INC]
    if c.get("incdir"):
        args += ["-i", c["incdir"]]
    args += [f]
    if "-o" not in opts:
        args += ["-o", os.path.join(d, "t.p")]
    oc = run_limited(bdir, "asl", args, d, "r", cpu_s, fsize_mb=64)
    subprocess.call(["rm", "-rf", d])
    return oc


# signature classes of the known asl defects: (sig, regex the source must match, outcome kinds, regex on stderr for 'san')
ASL_CLASSES = [
    ("align-zero", rb"(?i)\balign\b", {"sig8", "san"}, rb"asmallg\.c:\d+:\d+: runtime error: division by zero|CodeALIGN"),
    ("irpn-nonpositive-count", rb"(?i)\birpn\b", {"timeout"}, None),
    ("substr-negative-start", rb"(?i)substr\s*\(", {"san"}, rb"FuncSUBSTR|as_nonz_dynstr"),
    ("charfromstr-position-truncated", rb"(?i)charfromstr", {"san", "sig11"}, rb"FuncCHARFROMSTR"),
    ("save-in-struct-restore-crash", rb"(?is)struct.*\bsave\b.*\brestore\b", {"san", "sig11"}, rb"WriteCode|as\.c"),
    ("dc-string-in-wide-dc-overflow", rb"(?i)\bdc\.[a-z]\b.*[\"']", {"san", "sig6", "sig11"}, rb"motpseudo\.c|Enter[A-Z]"),
    ("int-min-div-minus-one", rb"[/#]", {"sig8", "san"}, rb"DivOp|ModOp"),
    ("getsymsection-empty-name", rb"", {"san"}, rb"stack-buffer-(under|over)flow[^\n]*\n(.*\n)?[^\n]*in GetSymSection"),
    ("function-call-more-than-3-args", rb"\w\s*\((?:[^()\n]|\([^()\n]*\))*,(?:[^()\n]|\([^()\n]*\))*,(?:[^()\n]|\([^()\n]*\))*,", {"san", "sig11", "sig6"}, rb"EvalStrExpression"),
    ("symbol-name-closing-bracket-without-opening", rb"\]", {"san", "sig11"}, rb"GetSymSection"),
    # a string value that went through PUSHV (a symbol defined with a string, then PUSHV): shared heap buffer
    ("pushv-string-value-shared-buffer", rb"(?is)\b(?:set|equ)\s+[\"'].*\bpushv\b", {"san", "sig6", "sig11"}, rb"as_nonz_dynstr|double-free|heap-use-after-free"),
    ("binclude-word-granular-segment", rb"(?i)\bbinclude\b", {"san"}, rb"in CodeBINCLUDE"),
    ("include-directory-hangs", rb"(?im)^\s*include\s+\"?\.\.?\"?\s*$", {"timeout"}, None),
    ("c3x-general-instruction-more-than-3-operands", rb"(?i)\bcpu\s+320c[34]", {"san"}, rb"code3203x\.c:\d+:\d+: runtime error: index \d+ out of bounds|in DecodeGen"),
    ("upcase-table-negative-index", rb"[\x80-\xff]", {"san"}, rb"asmsub\.c:\d+:\d+: runtime error: index -\d+ out of bounds"),
]


def _defines_string(opts):
    return any(o == "-D" and i + 1 < len(opts) and re.search(r"=\s*[\"']", opts[i + 1]) for i, o in enumerate(opts))


def asl_sig(c, oc):
    tok = oc.token()
    # command-line class: -D name="string" (the string buffer of the defined symbol is released before the first pass copies it)
    if tok == "san" and _defines_string(c.get("opts") or []) and re.search(rb"in CopyDefSymbols|in CMD_DefSymbol", oc.err):
        return "defsymbol-string-value-freed"
    for sig, rsrc, kinds, rerr in ASL_CLASSES:
        if tok not in kinds:
            continue
        if not re.search(rsrc, c["src"]):
            continue
        if tok == "san" and rerr is not None and not re.search(rerr, oc.err):
            continue
        return sig
    return None


# --------------------------------------------------------------------------------------------
# (d) code files for the utilities

def le(n, k):
    return (n & ((1 << (8 * k)) - 1)).to_bytes(k, "little")


def rec_long(cpu, seg, gran, start, data, hdr=0x81):
    return bytes([hdr, cpu, seg, gran]) + le(start, 4) + le(len(data), 2) + data


def rec_short(cpu, start, data):
    return bytes([cpu]) + le(start, 4) + le(len(data), 2) + data


def rec_entry(a):
    return b"\x80" + le(a, 4)


def code_file(recs, creator=b"AS 1.42"):
    return b"\x89\x14" + b"".join(recs) + b"\x00" + creator


def base_files(rng):
    fs = []
    fs.append(("two-rec-entry", code_file([rec_short(0x51, 0x100, b"\x01\x02\x03"), rec_long(0x31, 2, 1, 0x20, b"\xaa\xbb"), rec_entry(0x100)])))
    fs.append(("gran2-gran4", code_file([rec_short(0x70, 0x10, b"\x01\x02\x03\x04"), rec_long(0x76, 1, 4, 0x8, bytes(range(8))), rec_long(0x3b, 2, 1, 0, b"\x05")])))
    fs.append(("empty-creator", code_file([rec_short(0x11, 0x200, b"\x10\x20")], b"")))
    fs.append(("entry-only", code_file([rec_entry(0x1234)])))
    fs.append(("zero-len", code_file([rec_short(0x51, 0, b""), rec_short(0x51, 4, b"\x07")])))
    fs.append(("reloc-kinds", code_file([rec_long(0x01, 1, 1, 0, b"\x4e\x71", hdr=0x82), b"\x85" + le(0, 4) + le(0, 4) + le(2, 4) + b"a\x00", rec_short(0x01, 8, b"\x4e\x75")])))
    fs.append(("reserved-hdr", code_file([b"\x90" + le(0, 4) + le(1, 2) + b"\x07", rec_short(0x51, 0, b"\x01")])))
    # one random small file
    recs = []
    for _ in range(rng.randrange(1, 4)):
        cpu = rng.choice([0x01, 0x11, 0x31, 0x51, 0x70, 0x76, 0x3b, 0x42])
        data = bytes(rng.randrange(256) for _ in range(rng.choice([1, 2, 4, 7])))
        if rng.random() < 0.5:
            recs.append(rec_short(cpu, rng.randrange(0x400), data))
        else:
            recs.append(rec_long(cpu, rng.choice([1, 2, 3, 4]), rng.choice([1, 1, 2, 4]), rng.randrange(0x400), data))
    fs.append(("random", code_file(recs, bytes(rng.choice(b"AS 142xy") for _ in range(rng.randrange(0, 6))))))
    return fs


FIELD_VALUES = [0, 1, 2, 3, 4, 9, 0x0b, 0x21, 0x7f, 0x80, 0x81, 0x82, 0x84, 0x85, 0x86, 0xfe, 0xff]


def gen_files(rng, tier):
    """list of dict(kind='tool', cls, op, data, base)"""
    out = []
    seen = set()

    def add(cls, op, base, data):
        if data in seen:
            return
        seen.add(data)
        out.append(dict(kind="tool", cls=cls, op=op, base=base, data=data))
    for name, f in base_files(rng):
        add("valid", "valid", name, f)
        for n in range(len(f)):
            add("truncation", "trunc", name, f[:n])
        # single-field edits: every byte position gets boundary values (quick: a sample of positions)
        positions = list(range(len(f)))
        positions = rng.sample(positions, min(len(positions), 14 if tier == "quick" else 24))
        for i in positions:
            vals = rng.sample(FIELD_VALUES, 4 if tier == "quick" else 7)
            for v in vals:
                if f[i] != v:
                    add("field-edit", "edit", name, f[:i] + bytes([v]) + f[i + 1:])
            for bit in rng.sample(range(8), 1 if tier == "quick" else 2):
                add("bit-flip", "flip", name, f[:i] + bytes([f[i] ^ (1 << bit)]) + f[i + 1:])
        # appended garbage / duplicated tail
        add("append", "append", name, f + b"\x00")
        add("append", "append", name, f + f[2:])
    # hand-written boundary files
    add("boundary", "gran0", "-", code_file([rec_long(0x01, 1, 0, 0, b"\xaa")]))
    add("boundary", "gran0-len0", "-", code_file([rec_long(0x01, 1, 0, 0, b"")]))
    add("boundary", "seg33", "-", code_file([rec_long(0x51, 0x21, 1, 0, b"\xaa")]))
    add("boundary", "seg255", "-", code_file([rec_long(0x51, 0xff, 1, 0, b"\xaa")]))
    add("boundary", "seg11", "-", code_file([rec_long(0x51, 11, 1, 0, b"\xaa")]))
    add("boundary", "reloc-huge", "-", code_file([b"\x85" + le(0xffffffff, 4) + le(0, 4) + le(0, 4)]))
    add("boundary", "reloc-short", "-", code_file([b"\x85" + le(1, 4) + le(0, 4) + le(0, 4)]))
    add("boundary", "reloc-negative", "-", code_file([b"\x85" + le(0, 4) + le(0, 4) + le(0xfffffff3, 4)]))
    add("boundary", "reloc-strpos", "-", code_file([b"\x85" + le(1, 4) + le(0, 4) + le(1, 4) + le(0, 8) + le(0x7fffffff, 4) + le(0x8008, 4) + b"\x00"]))
    add("boundary", "len-max", "-", code_file([rec_short(0x51, 0xffffff00, bytes(300))]))
    add("boundary", "len-ffff-short", "-", b"\x89\x14\x51" + le(0, 4) + le(0xffff, 2) + bytes(10) + b"\x00AS")
    add("boundary", "magic-only", "-", b"\x89\x14")
    add("boundary", "empty", "-", b"")
    add("boundary", "no-end-record", "-", b"\x89\x14" + rec_short(0x51, 0, b"\x01\x02"))
    add("boundary", "unknown-family", "-", code_file([rec_short(0x7e, 0, b"\x01")]))
    # raw random bytes behind a valid magic / without
    nrand = 30 if tier == "quick" else 300
    for i in range(nrand):
        body = bytes(rng.choice([0, 0x80, 0x81, 0x85, 0x51, 1, 2, 0xff, rng.randrange(256)]) for _ in range(rng.randrange(0, 40)))
        add("random", "random", "-", (b"\x89\x14" if i % 4 else b"") + body)
    return out


TOOLS = [
    # (model tool id, binary, args builder, cpu seconds)
    ("plist", "plist", lambda p, o: ["-q", p]),
    ("pbind", "pbind", lambda p, o: [p, o + ".p"]),
    ("pbindf", "pbind", lambda p, o: ["-f", "0x7d", p, o + ".p"]),     # a filter that selects none of the generated records
    ("pbindq", "pbind", lambda p, o: ["-q", p, o + ".p"]),             # quiet mode: no `errno = 0; printf(...)` between start-up and the record loop
    ("p2bin", "p2bin", lambda p, o: ["-r", "0-$fff", p, o + ".bin"]),
    ("p2bina", "p2bin", lambda p, o: [p, o + ".bin"]),
    ("p2hex", "p2hex", lambda p, o: ["-r", "0-$fff", p, o + ".hex"]),
    ("p2hexa", "p2hex", lambda p, o: [p, o + ".hex"]),
]
WINDOW_MAX = 1 << 16


def run_tool_case(bdir, wd, idx, tid, binary, mkargs, data, cpu_s):
    d = os.path.join(wd, "t%d" % idx)
    os.makedirs(d, exist_ok=True)
    p = os.path.join(d, "in.p")
    with open(p, "wb") as fh:
        fh.write(data)
    oc = run_limited(bdir, binary, mkargs(p, os.path.join(d, "out")), d, "r", cpu_s, fsize_mb=2)
    subprocess.call(["rm", "-rf", d])
    return oc


FORMAT_MSGS = [(b"(invalid file header)", "ih"), (b"(invalid record header)", "irh"), (b"(invalid record length)", "irl"),
               (b"(unexpected end of file)", "eof")]


def tool_token(oc):
    """outcome token for the driver: the exit status, for a format error (status 3) followed by the text FormatError printed
    (tools.res / tools2.res, English catalogue: the harness runs with LC_ALL=C) - the model predicts the error class, not only the status"""
    tok = oc.token()
    if oc.kind == "exit" and oc.status == 3:
        for text, code in FORMAT_MSGS:
            if text in oc.err:
                return tok + "/" + code
    return tok


def tool_sig(tid, kv, oc, data):
    """signature of a spec failure of a utility run (input class, not the property id)"""
    tok = oc.token()
    crash = oc.kind in ("signal", "san")
    longs = walk_long(data)
    div0 = tok == "sig8" or (tok == "san" and b"division by zero" in oc.err)
    if div0 and (kv.get("model") == "fpe" or kv.get("gran0") == "1" or any(g == 0 for _s, g in longs)):
        return "gran-zero"
    if crash and any(sg >= SEGCOUNT for sg, _g in longs) and tid in ("plist", "p2hex", "p2hexa"):
        return "segment-out-of-range"
    # repaired in /repo and therefore no longer attributed (a recurrence is a VIOLATION): plist-relocinfo-unchecked,
    # relocinfo-negative-length-seeks-back, short-read-undetected; their witnesses stay in corpus/C03 as regression inputs
    return None


def walk_long(data):
    """(segment, granularity) bytes of the long-form records a SkipRecord-style walk meets (plumbing for signatures)"""
    out = []
    if len(data) < 2:
        return out
    i = 2
    n = 0
    while i < len(data) and n < 1000:
        h = data[i]
        n += 1
        i += 1
        if h == 0:
            break
        if h == 0x80:
            i += 4
        elif h == 0x85:
            if i + 12 > len(data):
                break
            r, e, s = (int.from_bytes(data[i + 4 * k:i + 4 * k + 4], "little") for k in range(3))
            i += 12 + 16 * r + 16 * e + s
        else:
            if 0x81 <= h <= 0x84:
                if i + 3 > len(data):
                    break
                out.append((data[i + 1], data[i + 2]))
                i += 3
            if i + 6 > len(data):
                break
            i += 6 + int.from_bytes(data[i + 4:i + 6], "little")
    return out


# --------------------------------------------------------------------------------------------

def probe_gran_guard(bdir, wd):
    """does the current tree refuse granularity 0 (model flag granCheck, per tool)?  1 when the tool answers the
    witness with status 3 (format error)."""
    w = code_file([rec_long(0x01, 1, 0, 0, b"\xaa")], b"AS")
    res = {}
    for k, (tid, binary, mk) in enumerate(TOOLS):
        oc = run_tool_case(bdir, wd, 900000 + k, tid, binary, mk, w, 2)
        res[tid] = oc.token()
    return {t: int(r == "3") for t, r in res.items()}, res


def probe_errno(bdir, wd):
    """is `errno` stale (non-zero since the program's start-up: the message catalogue search leaves ENOENT) when the tool reads the magic /
    when its first pass over the file reads a record header?  Then toolutils.c ChkIO turns the end of the file into an I/O error (status 2)
    instead of the format error (status 3).  Environment flags of the reader model (errnoMagic, errnoLoop), per tool: a 1-byte file and a
    file that consists of the magic."""
    em, el, raw = {}, {}, {}
    for k, (tid, binary, mk) in enumerate(TOOLS):
        a = run_tool_case(bdir, wd, 920000 + 2 * k, tid, binary, mk, b"\x89", 2)
        b = run_tool_case(bdir, wd, 920001 + 2 * k, tid, binary, mk, b"\x89\x14", 2)
        em[tid] = int(a.token() == "2")
        el[tid] = int(b.token() == "2")
        raw[tid] = (a.token(), b.token())
    return em, el, raw


def probe_measure_always(bdir, wd):
    """does p2bin run its measuring pass (MeasureFile) although both -r bounds are given?  (it does since the repair of
    `explicit-range-ignores-granularity`: the pass yields MaxGran).  Seen from outside: a granularity-2 record of 4 words
    in the explicit window 0-3 gives 8 bytes when MaxGran was measured, 4 bytes otherwise."""
    d = os.path.join(wd, "pm")
    os.makedirs(d, exist_ok=True)
    open(os.path.join(d, "in.p"), "wb").write(code_file([rec_long(0x70, 1, 2, 0, bytes(range(8)))], b"AS"))
    run_limited(bdir, "p2bin", ["-q", "-r", "0-3", "in.p", "out.bin"], d, "r", 2, fsize_mb=2)
    try:
        n = os.path.getsize(os.path.join(d, "out.bin"))
    except OSError:
        n = -1
    subprocess.call(["rm", "-rf", d])
    return n == 8


def model_tool(tid, measure_always):
    """tool id under which the Lean reader model classifies the run"""
    return "p2bina" if (tid == "p2bin" and measure_always) else tid


def probe_slack(bdir, wd):
    """bytes each tool's processing pass wants behind a data record (model constant `slack`), measured on the real
    binaries: a data record followed by `$00` + n creator bytes is accepted from n = slack - 1 on"""
    out = {}
    k = 0
    for (tid, binary, mk) in TOOLS:
        if tid in ("p2bina", "p2hexa"):
            continue
        sl = None
        for n in (0, 1, 2):
            f = code_file([rec_short(0x51, 0, b"\x01\x02")], b"AS"[:n])
            k += 1
            oc = run_tool_case(bdir, wd, 910000 + k, tid, binary, mk, f, 2)
            if oc.token() == "0":
                sl = n + 1
                break
        out[tid] = sl if sl is not None else 4
    out["p2bina"] = out["p2bin"]
    out["p2hexa"] = out["p2hex"]
    return out


# --------------------------------------------------------------------------------------------
# regression classes of repaired defects (dasl areas beyond the image, command lines longer than cmdarg.h MAXPARAM)

def _maxparam():
    try:
        return int(re.search(r"#define\s+MAXPARAM\s+(\d+)", open(os.path.join(common.REPO, "cmdarg.h")).read()).group(1))
    except (OSError, AttributeError):
        return 256


# (image, arguments behind `-cpu 6800`, documented status): 0 = listed, 4 = dasl refuses the parameter ("cannot read data for entry address")
DASL_REGRESSION = [
    (b"\x77", ["-binfile", "i.bin", "-entryaddress", "(0,2,MSB)"], 4),      # corpus/C03/dasl-truncated-insn.bin: the vector is not in the image
    (b"\x77", ["-binfile", "i.bin", "-entryaddress", "0"], 0),              # the instruction's operand is not in the image
    (b"\x77", ["-binfile", "i.bin", "-entryaddress", "$ffff"], 0),          # entry outside the image
    (b"", ["-binfile", "i.bin", "-entryaddress", "0"], 0),                   # empty image
    (b"", ["-binfile", "i.bin", "-entryaddress", "(0,2,MSB)"], 4),
    (b"\x77\x01", ["-binfile", "i.bin", "-entryaddress", "(0,2,MSB)"], 0),  # vector inside, its target outside the image
    (b"\x77\x01", ["-binfile", "i.bin", "-entryaddress", "(1,2,LSB)"], 4),  # vector straddles the end of the image
    (b"\x77", ["-binfile", "i.bin@$fff0", "-entryaddress", "($fff0,2,MSB)"], 4),
]


def gen_dasl_areas(seed, n):
    """entry addresses / vectors around both ends of a short image: the listed area begins before, ends behind or lies outside of what was loaded"""
    out = []
    for i in range(n):
        r = common.rng_for(seed, "C03/dasl-area/%d" % i)
        ln = r.choice([0, 1, 1, 2, 2, 3, 4, 6])
        img = bytes(r.choice([0x77, 0x7e, 0xbd, 0x20, 0x01, 0x00, 0xff, 0x39, r.randrange(256)]) for _ in range(ln))
        org = r.choice([0, 0, 0x10, 0xfffe, 0xfff0])
        args = ["-cpu", r.choice(["6800", "6802", "87C00", "4004"]), "-binfile", "i.bin" + ("@$%x" % org if org else "")]
        for _ in range(r.choice([1, 1, 2, 3])):
            a = (org + r.randrange(-2, ln + 3)) & 0xffff
            if r.random() < 0.5:
                args += ["-entryaddress", "$%x" % a]
            else:
                args += ["-entryaddress", "($%x,%d,%s)" % (a, r.choice([1, 2, 2, 4]), r.choice(["MSB", "LSB"]))]
        out.append((img, args))
    return out


CMDLINE_TOOLS = ["plist", "pbind", "p2bin", "p2hex", "alink", "dasl", "asl"]


def gen_cmdlines(seed, tier, maxparam):
    """(tool, parameter list, expected status) - command lines around and far beyond cmdarg.h MAXPARAM parameters.  Up to MAXPARAM parameters
    every tool processes them (status 0); one more is a command line error: the utilities' ParamError exits with 1, asl and dasl with 4."""
    r = common.rng_for(seed, "C03/cmdline")
    counts = [maxparam - 1, maxparam, maxparam + 1, 300] + ([] if tier == "quick" else [maxparam + 2, 2 * maxparam, 1000, r.randrange(maxparam + 2, 3000)])
    out = []
    for tool in CMDLINE_TOOLS:
        for n in counts:
            if tool == "plist":
                a = ["in.p"] * n
            elif tool in ("pbind", "p2bin", "p2hex", "alink"):
                a = ["in.p"] * (n - 1) + ["out.x"]
            elif tool == "dasl":
                a = ["-cpu", "6800", "-binfile", "i.bin"] + ["-h"] * ((n - 4) % 2) + ["-entryaddress", "0"] * ((n - 4) // 2)
            else:
                a = [r.choice(["-q", "-L", "-u", "-x"]) for _ in range(n - 1)] + ["t.asm"]
            if len(a) != n:
                continue
            exp = 0 if n <= maxparam else (4 if tool in ("dasl", "asl") else 1)
            out.append((tool, a, exp))
    return out


def run_cmdline_case(bdir, wd, idx, tool, a):
    d = os.path.join(wd, "c%d" % idx)
    os.makedirs(d, exist_ok=True)
    with open(os.path.join(d, "in.p"), "wb") as fh:
        fh.write(code_file([rec_short(0x51, 0, b"\x01\x02")], b"AS"))
    with open(os.path.join(d, "i.bin"), "wb") as fh:
        fh.write(b"\x01\x39")
    with open(os.path.join(d, "t.asm"), "wb") as fh:
        fh.write(b"\tcpu 6800\n\tnop\n")
    oc = run_limited(bdir, tool, a, d, "r", 5, fsize_mb=16)
    subprocess.call(["rm", "-rf", d])
    return oc


def parallel(fn, items, workers=4):
    with concurrent.futures.ThreadPoolExecutor(max_workers=workers) as ex:
        return list(ex.map(fn, items))


def run(args):
    res = common.Result(PROP, args.tier, args.seed, "proof")
    bdir, audit, proof_problems = common.standard_setup(res, PROP, ["FileFormat", "Tools"])
    if bdir is None:
        return res.finish()
    drv_ok = not any(p.startswith("driver does not build") for p in proof_problems)
    global SEGCOUNT
    SEGCOUNT = _segcount()
    tier = args.tier
    rng = common.rng_for(args.seed, PROP)
    flavours = [("hooks", bdir)]
    notes = []
    if tier == "thorough":
        try:
            flavours = [("asan", common.repo_build("asan")), ("hooks", bdir)]
        except common.BuildError as ex:
            proof_problems.append("sanitizer build failed: " + str(ex)[-800:])
    spec_fail, corr_fail = [], []
    dist = dict(asl_runs=0, tool_runs=0, by_class={}, asl_outcomes={}, tool_outcomes={}, tool_model={}, pseudo_ops=0, skipped_window=0,
                lenient_reserved_header_accepted=0, model_spec_consistency_failures=0)
    samples = []
    distinct = set()

    def bump(d, k):
        d[k] = d.get(k, 0) + 1

    with common.Workdir("c03") as wd:
        # ------------------------------------------------------------------ asl half (exploration)
        asl_cases = []
        cdir = os.path.join(common.VERIF, "corpus", PROP)
        for f in sorted(os.listdir(cdir)) if os.path.isdir(cdir) else []:
            if f.endswith(".asm"):
                asl_cases.append(dict(kind="asl", cls="corpus", op=f[:-4], src=open(os.path.join(cdir, f), "rb").read(), tag="corpus:" + f))
                co = c03_opts.corpus_options(asl_cases[-1]["src"])
                if co is not None:
                    # header comment `; asl-options: ...`: the witness needs these options (run without and with them)
                    asl_cases.append(dict(asl_cases[-1], opts=co, tag="corpus:" + f + ":" + " ".join(co)))
        g = gen_grammar(rng, tier)
        dist["pseudo_ops"] = len({c["op"] for c in g})
        asl_cases += g + gen_mutants(rng, tier) + gen_raw(rng, tier)
        # the same sources under random command-line option sets (listing / side outputs / no code file / unusual paths), the
        # listing-control statements with a listing requested, recursion through VAL, code-writing statements under +G etc.
        # (vlib/props/c03_opts.py; separate random streams: the classes above stay what they were)
        ro = common.rng_for(args.seed, PROP + "/opts")
        base_cases = list(asl_cases)
        asl_cases += c03_opts.with_random_options(ro, [c for c in base_cases if "opts" not in c and c["cls"] != "golden"])
        if tier == "thorough":
            # golden sources under the sanitizer build with option sets: several per source
            for rep in range(3):
                asl_cases += c03_opts.with_random_options(ro, [dict(c, tag=c["tag"] + ":%d" % rep) for c in base_cases if c["cls"] == "golden"])
        rl = common.rng_for(args.seed, PROP + "/listing")
        lg = c03_opts.gen_listing_grammar(rl, tier)
        asl_cases += lg + c03_opts.gen_listing_programs(rl, 40 if tier == "quick" else 800)
        asl_cases += c03_opts.gen_val_recursion(common.rng_for(args.seed, PROP + "/valrec"), 40 if tier == "quick" else 600)
        asl_cases += c03_opts.gen_output_programs(common.rng_for(args.seed, PROP + "/outopt"), 60 if tier == "quick" else 1000)
        dist["listing_ops"] = len({c["op"] for c in lg})
        dist["with_options"] = sum(1 for c in asl_cases if c.get("opts"))
        cpu_asl = 3 if tier == "quick" else 10
        # quick tier: at most 2 inputs of the class known to hang (each costs the whole CPU limit)
        if tier == "quick":
            kept, nhang = [], 0
            for c in asl_cases:
                if c["cls"] != "corpus" and re.search(rb"(?i)\birpn\s+(-|0|\"|undefd|,|$)", c["src"]):
                    nhang += 1
                    if nhang > 2:
                        continue
                kept.append(c)
            asl_cases = kept
        t_asl = time.time()
        for fl, bd in flavours:
            if fl == "hooks" and len(flavours) > 1:
                # thorough: the plain build only repeats corpus + grammar (signals without sanitizer)
                todo = [c for c in asl_cases if c["cls"] in ("corpus", "grammar")][:1500] + \
                       [c for c in asl_cases if c["cls"] in ("corpus+opts", "listing", "val-recursion", "output-options")][:1500]
            else:
                todo = asl_cases
            ocs = parallel(lambda ic: run_asl_case(bd, wd, ic[0], ic[1], cpu_asl), list(enumerate(todo)))
            for c, oc in zip(todo, ocs):
                dist["asl_runs"] += 1
                bump(dist["by_class"], c["cls"])
                bump(dist["asl_outcomes"], fl + ":" + oc.token())
                distinct.add(c["src"])
                if len(samples) < 4 and c["cls"] == "grammar" and oc.kind == "exit" and dist["asl_runs"] % 97 == 0:
                    samples.append(dict(tag=c["tag"], source=c["src"].decode("latin-1")[:200], outcome=oc.token(), build=fl))
                if oc.kind == "exit" and oc.status in ASL_OK:
                    continue
                if oc.kind == "exit" and oc.status == 4 and c.get("opts") and b"nvalid option" in oc.err + oc.out:
                    continue    # documented: 4 = parameter error at start-up (only with a generated option set, and only with asl's own message)
                sig = asl_sig(c, oc)
                spec_fail.append(dict(sig=sig, tag=c["tag"], build=fl, outcome=oc.token(), why="asl did not end with a documented status (0/2/3)",
                                      source=c["src"].decode("latin-1")[:3000], flags=c.get("flags", []), opts=c.get("opts", []), incdir=c.get("incdir"),
                                      stderr=oc.err.decode("latin-1")[-1500:]))

        dist["asl_exploration_wall_s"] = round(time.time() - t_asl, 2)
        # ------------------------------------------------------------------ asl half with a model: PUSHV/POPV histories, BINCLUDE / INCLUDE
        # of generated files (vlib/props/c03_asm.py, driver modes c03stk / c03bin)
        t_ap = time.time()
        ap = c03_asm.run_part(args, flavours, wd, lambda *a, **k: run_limited(*a, out_max=60000, **k), parallel, drv_ok,
                              sigfn=lambda text, oc: asl_sig(dict(src=text), oc))
        spec_fail += ap["spec_fail"]
        corr_fail += ap["corr_fail"]
        proof_problems += ap["problems"]
        distinct |= ap["distinct"]
        dist["stacks_binclude"] = ap["dist"]
        dist["stacks_binclude_wall_s"] = round(time.time() - t_ap, 2)
        dist["asl_runs"] += ap["evaluations"]
        samples += ap["samples"]
        notes += ap["notes"]

        # ------------------------------------------------------------------ asl half with a model, part 2: names built with {stringsymbol}
        # (ExpandStrSymbol's buffer bound) and FUNCTION definitions / calls (vlib/props/c03_names.py, driver modes c03nam / c03fn)
        t_np = time.time()
        np_ = c03_names.run_part(args, flavours, wd, lambda *a, **k: run_limited(*a, out_max=60000, **k), parallel, drv_ok,
                                 sigfn=lambda text, oc: asl_sig(dict(src=text), oc))
        spec_fail += np_["spec_fail"]
        corr_fail += np_["corr_fail"]
        proof_problems += np_["problems"]
        distinct |= np_["distinct"]
        dist["names_functions"] = np_["dist"]
        dist["names_functions_wall_s"] = round(time.time() - t_np, 2)
        dist["asl_runs"] += np_["evaluations"]
        samples += np_["samples"]
        notes += np_["notes"]

        # ------------------------------------------------------------------ keyed containers under -A / listing walks (vlib/props/c03_trees.py)
        # and the data / fill / reservation statements of every target beyond the initial code buffer (vlib/props/c03_data.py)
        for key, mod in (("keyed_containers", c03_trees), ("data_statements", c03_data)):
            t_p = time.time()
            r_ = mod.run_part(args, flavours, wd, lambda *a, **k: run_limited(*a, **dict(dict(out_max=60000), **k)), parallel, drv_ok,
                              sigfn=lambda text, oc: asl_sig(dict(src=text), oc))
            spec_fail += r_["spec_fail"]
            corr_fail += r_["corr_fail"]
            proof_problems += r_["problems"]
            distinct |= r_["distinct"]
            dist[key] = r_["dist"]
            dist[key + "_wall_s"] = round(time.time() - t_p, 2)
            dist["asl_runs"] += r_["evaluations"]
            samples += r_["samples"]
            notes += r_["notes"]

        # ------------------------------------------------------------------ utilities (model + spec)
        guard, guard_res = probe_gran_guard(bdir, wd)
        notes.append("granularity-0 guard probe (witness file, per tool): %s -> model flags granCheck=%s" % (guard_res, guard))
        slack = probe_slack(bdir, wd)
        meas_always = probe_measure_always(bdir, wd)
        notes.append("length-test probe (bytes wanted behind a data record): %s" % slack)
        em, el, eraw = probe_errno(bdir, wd)
        notes.append("stale-errno probe (status on a 1-byte file, on a magic-only file; 2 = ChkIO reports the start-up errno): %s" % eraw)
        guard = {t: guard[t] + 2 * em[t] + 4 * el[t] for t in guard}
        files = []
        for f in sorted(os.listdir(cdir)) if os.path.isdir(cdir) else []:
            if f.endswith(".p"):
                files.append(dict(kind="tool", cls="corpus", op=f[:-2], base="-", data=open(os.path.join(cdir, f), "rb").read()))
        files += gen_files(rng, tier)
        cpu_tool = 1
        for fl, bd in flavours:
            jobs = []
            for fi, fc in enumerate(files):
                if fl == "hooks" and len(flavours) > 1 and fc["cls"] not in ("corpus", "boundary", "truncation", "valid"):
                    continue  # thorough: the plain build repeats only the structured part
                for (tid, binary, mk) in TOOLS:
                    if tier == "quick" and tid in ("p2bina", "p2hexa", "p2hex", "p2bin", "pbindq") and fc["cls"] in ("field-edit", "bit-flip", "truncation") \
                            and fc["base"] not in ("two-rec-entry", "gran2-gran4", "random"):
                        continue
                    jobs.append((fi, tid, binary, mk))
            # address-window bound for the automatic-range runs: ask the model first (outcome '0' is a placeholder)
            win = {}
            if drv_ok:
                pre = common.driver("c03", ["p2bina %d %d 0 %s" % (guard["p2bina"], slack["p2bina"], common.hexs(fc["data"]) or "-") for fc in files], timeout=1200)
                for fi, a in enumerate(pre):
                    kv = dict(x.split("=", 1) for x in a.split() if "=" in x)
                    win[fi] = int(kv.get("hi", "0")) - int(kv.get("lo", "0"))
            jobs2 = []
            for j in jobs:
                if j[1] == "p2bina" and win.get(j[0], 0) > WINDOW_MAX:
                    dist["skipped_window"] += 1
                    continue
                jobs2.append(j)
            ocs = parallel(lambda kj: run_tool_case(bd, wd, kj[0], kj[1][1], kj[1][2], kj[1][3], files[kj[1][0]]["data"], cpu_tool), list(enumerate(jobs2)))
            reqs = ["%s %d %d %s %s" % (model_tool(tid, meas_always), guard[tid], slack[tid], tool_token(oc), common.hexs(files[fi]["data"]) or "-") for (fi, tid, _b, _m), oc in zip(jobs2, ocs)]
            answers = common.driver("c03", reqs, timeout=1800) if drv_ok and reqs else []
            for (fi, tid, binary, mk), oc, ans in zip(jobs2, ocs, answers):
                fc = files[fi]
                kv = dict(x.split("=", 1) for x in ans.split() if "=" in x)
                dist["tool_runs"] += 1
                bump(dist["by_class"], "file:" + fc["cls"])
                bump(dist["tool_outcomes"], "%s:%s:%s" % (fl, tid, oc.token()))
                bump(dist["tool_model"], "%s:%s" % (tid, kv.get("model")))
                distinct.add((tid, fc["data"]))
                if kv.get("reserved") == "1" and oc.token() == "0":
                    dist["lenient_reserved_header_accepted"] += 1
                if len(samples) < 8 and fc["cls"] in ("truncation", "field-edit") and dist["tool_runs"] % 211 == 0:
                    samples.append(dict(tool=tid, file=fc["data"].hex(), cls=fc["cls"], outcome=oc.token(), verdict=ans, build=fl))
                info = dict(tag="%s:%s:%s:%s" % (tid, fc["cls"], fc["op"], fc["base"]), tool=tid, build=fl, file=fc["data"].hex(), outcome=oc.token(),
                            verdict=ans, args=mk("in.p", "out"), stderr=oc.err.decode("latin-1")[-1200:])
                if kv.get("exact") != "1" or kv.get("cons") != "1":
                    dist["model_spec_consistency_failures"] += 1
                    proof_problems.append("model-internal: reader/spec relation violated at run time on " + fc["data"].hex()[:200])
                if kv.get("specok") != "1":
                    sig = tool_sig(tid, kv, oc, fc["data"])
                    spec_fail.append(dict(sig=sig, why="utility outcome outside the documented/allowed statuses for this file", **info))
                elif kv.get("corr") == "0":
                    corr_fail.append(dict(why="exit status / format-error text differs from the reader model's classification (status still allowed by the spec)", **info))

        # ------------------------------------------------------------------ p2bin -s on an empty image, dasl on random images
        extra = []
        empty = code_file([], b"AS")
        for fl, bd in flavours[:1]:
            def p2bin_s(i):
                d = os.path.join(wd, "s%d" % i)
                os.makedirs(d, exist_ok=True)
                open(os.path.join(d, "e.p"), "wb").write(empty if i == 0 else code_file([rec_short(0x51, 0, b"\x01\x02")]))
                a = [["-q", "-s", "-r", "0-0", "-m", "even", "e.p", "o.bin"], ["-q", "-s", "-r", "0-1", "e.p", "o.bin"], ["-q", "-s", "-r", "$10-$20", "e.p", "o.bin"],
                     ["-q", "-s", "-S", "4", "-r", "0-3", "e.p", "o.bin"]][i]
                oc = run_limited(bd, "p2bin", a, d, "r", 2, fsize_mb=8)
                subprocess.call(["rm", "-rf", d])
                return a, oc
            for a, oc in parallel(p2bin_s, range(4)):
                dist["tool_runs"] += 1
                bump(dist["tool_outcomes"], "%s:p2bin-s:%s" % (fl, oc.token()))
                if not (oc.kind == "exit" and oc.status in TOOL_OK):
                    sig = "p2bin-checksum-empty-image" if "even" in a else None
                    spec_fail.append(dict(sig=sig, tag="p2bin-s", tool="p2bin", build=fl, args=a, outcome=oc.token(), why="p2bin -s did not end with a documented status / wrote beyond the image",
                                          stderr=oc.err.decode("latin-1")[-800:]))
            ndas = 30 if tier == "quick" else 400

            def dasl_case(i):
                r = common.rng_for(args.seed, "C03/dasl/%d" % i)
                d = os.path.join(wd, "d%d" % i)
                os.makedirs(d, exist_ok=True)
                img = bytes(r.randrange(256) for _ in range(r.choice([0, 1, 2, 3, 16, 64, 300])))
                open(os.path.join(d, "i.bin"), "wb").write(img)
                cpu = r.choice(["6800", "6802", "87C00", "4004"])
                spec = "i.bin" + r.choice(["", "@0", "@$fff0", "@0,4", "@0,0", "@0,100000", "@0,4,2", "@0,4,0", "@-1", "@$ffffffff,2", "@x"])
                a = ["-cpu", cpu, "-binfile", spec] + r.choice([[], ["-entryaddress", "0"], ["-entryaddress", "$ffff"], ["-symbol", "0=start"], ["-entryaddress", "(0,2,MSB)"]])
                if i % 7 == 6:
                    open(os.path.join(d, "i.hex"), "wb").write(bytes(r.choice(b":S0123456789ABCDEF\n \xff") for _ in range(r.randrange(200))))
                    a = ["-cpu", cpu, "-hexfile", "i.hex"]
                oc = run_limited(bd, "dasl", a, d, "r", 3, fsize_mb=16)
                subprocess.call(["rm", "-rf", d])
                return a, img, oc
            for a, img, oc in parallel(dasl_case, range(ndas)):
                dist["tool_runs"] += 1
                bump(dist["by_class"], "dasl")
                bump(dist["tool_outcomes"], "%s:dasl:%s" % (fl, oc.token()))
                if not (oc.kind == "exit" and oc.status in TOOL_OK | {4}):
                    spec_fail.append(dict(sig=None, tag="dasl", tool="dasl", build=fl, args=a, image=img.hex(), outcome=oc.token(), why="dasl did not end with a documented status",
                                          stderr=oc.err.decode("latin-1")[-1200:]))

            t_rg = time.time()
            # areas that extend beyond the loaded image (regression inputs of the repaired `dasl-entry-outside-image` with their documented
            # status, and generated entry addresses / vectors around both ends of short images)
            def dasl_fixed(job):
                i, (img, a) = job
                d = os.path.join(wd, "e%d" % i)
                os.makedirs(d, exist_ok=True)
                open(os.path.join(d, "i.bin"), "wb").write(img)
                oc = run_limited(bd, "dasl", a, d, "r", 3, fsize_mb=16)
                subprocess.call(["rm", "-rf", d])
                return oc
            areas = [(img, ["-cpu", "6800"] + a, exp) for img, a, exp in DASL_REGRESSION] + \
                    [(img, a, None) for img, a in gen_dasl_areas(args.seed, 24 if tier == "quick" else 400)]
            for (img, a, exp), oc in zip(areas, parallel(dasl_fixed, list(enumerate((x[0], x[1]) for x in areas)))):
                dist["tool_runs"] += 1
                bump(dist["by_class"], "dasl-area")
                bump(dist["tool_outcomes"], "%s:dasl-area:%s" % (fl, oc.token()))
                distinct.add(("dasl", img, tuple(a)))
                info = dict(tag="dasl-area", tool="dasl", build=fl, args=a, image=img.hex(), outcome=oc.token(), stderr=oc.err.decode("latin-1")[-1200:])
                if not (oc.kind == "exit" and oc.status in TOOL_OK | {4}):
                    spec_fail.append(dict(sig=None, why="dasl did not end with a documented status on an area that extends beyond the loaded image", **info))
                elif exp is not None and oc.status != exp:
                    corr_fail.append(dict(why="dasl regression input: documented status %d expected" % exp, **info))

            # command lines around / beyond cmdarg.h MAXPARAM parameters, every program
            maxparam = _maxparam()
            cl = gen_cmdlines(args.seed, tier, maxparam)
            for (tool, a, exp), oc in zip(cl, parallel(lambda ij: run_cmdline_case(bd, wd, ij[0], ij[1][0], ij[1][1]), list(enumerate(cl)))):
                dist["tool_runs"] += 1
                bump(dist["by_class"], "cmdline")
                bump(dist["tool_outcomes"], "%s:cmdline-%s:%s" % (fl, tool, oc.token()))
                distinct.add(("cmdline", tool, len(a)))
                info = dict(tag="cmdline:%s:%d" % (tool, len(a)), tool=tool, build=fl, nargs=len(a), argv=a, outcome=oc.token(),
                            stderr=oc.err.decode("latin-1")[-800:])
                if not (oc.kind == "exit" and oc.status in (ASL_OK | {1, 4} if tool in ("asl", "dasl") else TOOL_OK)):
                    spec_fail.append(dict(sig=None, why="%d command line parameters (MAXPARAM = %d): no documented status" % (len(a), maxparam), **info))
                elif oc.status != exp:
                    corr_fail.append(dict(why="%d command line parameters (MAXPARAM = %d): status %d expected (cmdarg.c ProcessCMD)" % (len(a), maxparam, exp), **info))

            # alink reads code files with the same ReadRecordHeader / ReadRelocInfo (exploration: documented status only)
            afiles = [fc for fc in files if fc["cls"] in ("corpus", "boundary", "valid", "truncation") and fc["base"] in ("-", "two-rec-entry", "reloc-kinds")]
            aocs = parallel(lambda kf: run_tool_case(bd, wd, 700000 + kf[0], "alink", "alink", lambda p, o: [p, o + ".p"], kf[1]["data"], cpu_tool), list(enumerate(afiles)))
            for fc, oc in zip(afiles, aocs):
                dist["tool_runs"] += 1
                bump(dist["by_class"], "alink")
                bump(dist["tool_outcomes"], "%s:alink:%s" % (fl, oc.token()))
                distinct.add(("alink", fc["data"]))
                if not (oc.kind == "exit" and oc.status in TOOL_OK):
                    spec_fail.append(dict(sig=None, tag="alink:%s:%s:%s" % (fc["cls"], fc["op"], fc["base"]), tool="alink", build=fl, file=fc["data"].hex(), outcome=oc.token(),
                                          why="alink did not end with a documented status", args=["in.p", "out.p"], stderr=oc.err.decode("latin-1")[-1200:]))
            dist["regression_classes_wall_s"] = round(time.time() - t_rg, 2)

    if os.environ.get("C03_DUMP"):
        json.dump(dict(spec=spec_fail, corr=corr_fail, proof=proof_problems), open(os.environ["C03_DUMP"], "w"), indent=1, default=str)
    res.level = "proof"
    res.coverage = common.proof_coverage(audit, PROP, [
        "translate/tables.py (file-format constants, Granularity table, family table, SegCount)",
        "correspondence: real plist/pbind/p2bin/p2hex exit status and FormatError text vs Model/PFileRead classification (differential test; "
        "environment flags 'errno stale at the magic / in the record loop', 'granularity guard', 'bytes wanted behind a data record' probed per tool)",
        "correspondence: real asl vs Model/SymStack (PUSHV/POPV histories: exit status + printed events, `asl -n -E !1`) and vs Model/BInclude "
        "(exit status, error numbers, code-file bytes), SPEC judgement by Spec/SymStack + Spec/BInclude on the real output (driver modes c03stk / c03bin)",
        "correspondence: real asl vs Model/StrSymName (names built with {stringsymbol}: the expansion cut to STRINGSIZE-1, probed by definedness under the model's name and "
        "under the name without its last character) and vs Model/UserFunc (FUNCTION: exit status, error numbers, printed values of calls), SPEC judgement by Spec/NameFunc "
        "(driver modes c03nam / c03fn)",
        "EXPLORATION (not proof): asl/dasl robustness is only searched with generated inputs%s" % (" under clang-14 ASan+UBSan" if tier == "thorough" else " (plain build; sanitizer build in the thorough tier)")])
    res.coverage.update(
        partial=True,
        evaluations=dist["asl_runs"] + dist["tool_runs"], distinct_nontrivial=len(distinct),
        rule="one evaluation = one process run (asl on a source / a utility on a code file); distinct = distinct input bytes (per tool); "
             "grammar = %d global pseudo-instruction templates x boundary arguments x CPU x label; files = all truncations + field edits + bit flips of %d base files + boundary + random "
             "(7 tool variants incl. pbind -f / -q, p2bin / p2hex with explicit and automatic range; alink: documented status only); dasl: random images + areas around both ends of short "
             "images + regression inputs with their documented status; command lines of MAXPARAM-1 .. 300 (thorough: .. 3000) parameters for plist / pbind / p2bin / p2hex / alink / dasl / asl; "
             "histories = generated PUSHV/POPV programs (1-3 named stacks + default stack, variables / constants / undefined symbols, refused pops, pops from empty and "
             "non-existent stacks, REPT / IF / macro wrappers, case-sensitive runs), distinct by source text; BINCLUDE = file sizes 0/1/255/256/257/1000 x offset class "
             "{none, 0, inside, = size, > size, negative} x length class {none, 0, inside, to the end, beyond, negative, huge} x target / segment / origin / wrapper, plus "
             "multi-statement programs inside their files (bytes compared) and mixed ones; INCLUDE of empty / binary / unterminated / self-including files and of path oddities; "
             "names = one label / EQU / SECTION / macro / PUSHV-stack name per program built from 1-4 {symbol} expansions, literal text of 0..1100 characters around them, string symbols "
             "of 0..1023 characters, totals sweeping STRINGSIZE-24..+76 and 2*STRINGSIZE-8..+12, malformed braces; functions = 1-3 FUNCTION definitions with 0-8 parameters (valid, duplicate, "
             "over-long, empty, invalid names in every position), formulas over the parameters, calls with right / wrong argument counts, -U in a third of the programs; "
             "options = every corpus / grammar / mutant / raw source a second time under a random option set (listing -L -l -C -s -u -t -A -h -listradix -splitbyte -olist; side outputs -P -M "
             "-g [MAP|ATMEL|NOICE] -c -p -a -shareout -E; +G; -o / -olist / -shareout / -E into a missing directory or onto a directory, all inside the scratch directory; rare invalid option "
             "arguments -> documented status 4), thorough: each golden source under 3 option sets in the sanitizer build; listing = %d templates of the listing-control statements (PAGE / PAGESIZE "
             "x every length and width of the boundary pools, NEWPAGE, TITLE / PRTINIT / PRTEXIT with strings of 0..1000 characters, LISTING, MACEXP*, OUTRADIX) in front of a body that fills "
             "every list printed at the end of the run, always with a listing requested, plus whole programs of such statements; val-recursion = VAL of string symbols that call VAL / user "
             "functions / themselves (cycles of 1-4 symbols, FUNCTION bodies calling VAL, nested VAL, finite chains of depth 1..1000) in 14 kinds of use sites; output-options = BINCLUDE of "
             "files of 64..5000 bytes, DUP / [n] repetitions and DS beyond the 512-byte code buffer, SAVE/RESTORE, PHASE, SEGMENT, SHARED, INCLUDE under +G / unusual output paths / side outputs; "
             "corpus files may carry `; asl-options:`; keyed containers = error-free programs of 5..4000 definitions (EQU, labels, SET with redefinitions, the same names in several "
             "sections, macros, structures, functions, code pages, temporary / nameless symbols, mixed) in ascending / descending / zig-zag / middle-out / bit-reversed / sorted-run / random "
             "order, numbered names, names with a common prefix of 8..200 characters, mixed case, each under {plain, -A} x {no listing, -L -C -s}: status 0, equal code files, equal listings, "
             "sorted symbol table holding exactly the defined names; data statements = per code generator module one CPU, the statement names of doc/pseudo-instructions.md 'Data Definitions' "
             "+ the *pseudo*.c modules + code*.c handlers named after them x 8 operand shapes, the ones whose code length grows with the count (probed) run alone with counts 127..257 and "
             "300..70000 (quick: one near + one far count and one shape per statement; thorough: all, sanitizer + plain build)" % (len(PSEUDO), 8, len(c03_opts.LIST_PSEUDO)),
        samples=samples, distribution=dist, builds=[f for f, _ in flavours])
    res.notes += notes
    res.assumptions = ["termination is claimed only for inputs without WHILE and without self-recursive macros; CPU limit %d s per asl run, %d s per utility run, output limit 8-64 MiB" % (cpu_asl, cpu_tool),
                       "memory safety of the C programs is explored (sanitizer build in the thorough tier), not proved",
                       "reserved header kinds $82..$ff are skipped by the tools; such files are 'malformed' for the documented grammar but acceptance is tolerated and counted (lenient_reserved_header_accepted)"]
    return common.conclude(res, proof_problems, spec_fail, corr_fail, dist["asl_runs"] + dist["tool_runs"])


def replay(args):
    d = json.load(open(args.replay))
    print(json.dumps({k: (v if len(str(v)) < 1500 else str(v)[:1500] + "...") for k, v in d.items()}, indent=1))
    flavour = d.get("build", "hooks")
    bdir = common.repo_build(flavour)
    with common.Workdir("c03r") as wd:
        if d.get("part") == "c03asm":
            return c03_asm.replay_case(d, bdir, wd, lambda *a, **k: run_limited(*a, out_max=60000, **k))
        if d.get("part") == "c03trees":
            return c03_trees.replay_case(d, bdir, wd, lambda *a, **k: run_limited(*a, **dict(dict(out_max=60000), **k)))
        if d.get("part") == "c03data":
            return c03_data.replay_case(d, bdir, wd, lambda *a, **k: run_limited(*a, **dict(dict(out_max=60000), **k)))
        if d.get("part") == "c03names":
            return c03_names.replay_case(d, bdir, wd, lambda *a, **k: run_limited(*a, out_max=60000, **k))
        if "source" in d:
            c = dict(src=d["source"].encode("latin-1"), flags=d.get("flags", []), opts=d.get("opts", []), incdir=d.get("incdir"))
            print("asl options:", " ".join(c["flags"] + c["opts"]) or "(none)")
            oc = run_asl_case(bdir, wd, 0, c, 10)
            print("asl (%s build) ->" % flavour, oc.token())
            print(oc.err.decode("latin-1")[-2000:])
        elif "argv" in d and d.get("tool") in CMDLINE_TOOLS:
            oc = run_cmdline_case(bdir, wd, 0, d["tool"], d["argv"])
            print("%s with %d parameters (%s build) -> %s" % (d["tool"], len(d["argv"]), flavour, oc.token()))
            print(oc.err.decode("latin-1")[-1500:])
        elif "image" in d and d.get("tool") == "dasl":
            dd = os.path.join(wd, "d")
            os.makedirs(dd, exist_ok=True)
            open(os.path.join(dd, "i.bin"), "wb").write(bytes.fromhex(d["image"]))
            oc = run_limited(bdir, "dasl", d["args"], dd, "r", 5, fsize_mb=16)
            print("dasl %s (%s build) -> %s" % (" ".join(d["args"]), flavour, oc.token()))
            print(oc.out.decode("latin-1")[-1500:])
            print(oc.err.decode("latin-1")[-1500:])
        elif "file" in d and d.get("tool") == "alink":
            oc = run_tool_case(bdir, wd, 0, "alink", "alink", lambda p, o: [p, o + ".p"], bytes.fromhex(d["file"]), 3)
            print("alink in.p out.p (%s build) -> %s" % (flavour, oc.token()))
            print(oc.err.decode("latin-1")[-1500:])
        elif "file" in d and d.get("tool") in [t[0] for t in TOOLS]:
            tid, binary, mk = [t for t in TOOLS if t[0] == d["tool"]][0]
            data = bytes.fromhex(d["file"])
            oc = run_tool_case(bdir, wd, 0, tid, binary, mk, data, 3)
            print("%s %s (%s build) -> %s" % (binary, " ".join(mk("in.p", "out")), flavour, oc.token()))
            print(oc.err.decode("latin-1")[-1500:])
            guard, _ = probe_gran_guard(bdir, wd)
            slack = probe_slack(bdir, wd)
            meas_always = probe_measure_always(bdir, wd)
            em, el, _ = probe_errno(bdir, wd)
            guard = {t: guard[t] + 2 * em[t] + 4 * el[t] for t in guard}
            print(common.driver("c03", ["%s %d %d %s %s" % (model_tool(tid, meas_always), guard[tid], slack[tid], tool_token(oc), data.hex() or "-")])[0])
    return 0
