"""C11, bookkeeping of expansions (recursion counter of a macro, local-symbol handles): generator + comparison, called from c11.run.

(A) Props/C11_Nest.lean (audited with the other Props/C11*.lean files).
(B) Model/MacroNest.lean (driver mode `c11nest`; transcription of ExpandMacro / MACRO_Restorer / the Processors' handle
    operations / FindLocNode / the pass loop) vs the real asl: number of refused calls, of undefined and doubly defined
    symbols, and the code bytes.
(C) Spec/MacroNest.lean (`run`: every call and repetition carried out by hand with a fresh label scope per expansion,
    no limit; `verdict`: from the manual's rule for NESTMAX) judged on the real asl's output: where no macro ever has
    more open expansions than NESTMAX the program has to assemble to exactly the spec's bytes - however often a macro was
    called before, whatever its control parameters are, in one or two passes; beyond the limit asl has to refuse.

Program classes (the programs are rendered to source text here; the Lean side sees the reduced program):
 * many calls: macros with every control parameter ({GLOBALSYMBOLS}, {NOEXPAND}, {EXPAND}, {EXPIF}, {NOEXPIF}, {EXPMACRO},
   {EXPREST}, {EXPORT}, {INTLABEL} with and without use of __LABEL__, combinations) called 1..620 times from the top level,
   from REPT/IRP/IRPC bodies and from other macros, in programs that need one pass and programs that need two
   (forward reference), with private labels / labels named after the argument (GLOBALSYMBOLS) used inside and outside;
 * call chains: macro i calls macro i+1 ... (depth up to 300, every macro open once), fan-out trees;
 * bounded recursion (`IF arg>0` / call with arg-1 / `ENDIF`) to depths around NESTMAX (default 256 and values set with
   the NESTMAX instruction, 0 = no limit), repeated many times; unbounded recursion (must be refused);
 * shadowing: a private label of an expansion / a repetition that has the name of a label of the enclosing scope (the top level or
   the calling macro) and is used inside BEFORE its definition (known finding forward-reference-to-local-label-takes-outer-label: the
   first pass finds the outer label, nothing is undefined, so no second pass is made) and after its definition (fine);
 * empty bodies: macros without lines, REPT/IRP/IRPC without lines, IRPC over "" inside expansions that have private
   labels which are used afterwards (known finding empty-expansion-pops-enclosing-local-handle) and at the top level.
"""
import re

from .. import common

SIG_EMPTY = "empty-expansion-pops-enclosing-local-handle"
SIG_SHADOW = "forward-reference-to-local-label-takes-outer-label"

LIST_OPTS = [[], ["NOEXPAND"], ["EXPAND"], ["EXPIF"], ["NOEXPIF"], ["EXPMACRO"], ["NOEXPMACRO"], ["EXPREST"], ["NOEXPREST"],
             ["NOEXPAND", "EXPIF"], ["EXPAND", "NOEXPMACRO"], ["NOEXPAND", "EXPREST", "EXPIF"], ["EXPORT"], ["NOEXPORT", "NOEXPAND"],
             ["NOINTLABEL"], ["NOGLOBALSYMBOLS"]]


class Prog:
    def __init__(self, what, nestmax=None):
        self.what = what
        self.nestmax = nestmax          # None = the default (256), else a NESTMAX instruction in front
        self.defs = []                  # dict(kind 'M'|'L', gs, opts, intlabel, body)
        self.top = []
        self.nlab = 0
        self.stats = dict(calls_written=0, macros=0, gs_macros=0, intlabel=0, loops=0, empty_bodies=0, recursion=0, two_pass=0, shadow=0)

    def macro(self, body, gs=False, opts=(), intlabel=False):
        self.defs.append(dict(kind="M", gs=gs, opts=list(opts), intlabel=intlabel, body=body))
        self.stats["macros"] += 1
        self.stats["gs_macros"] += int(gs)
        self.stats["intlabel"] += int(intlabel)
        self.stats["empty_bodies"] += int(not body)
        return len(self.defs) - 1

    def loopdef(self, body, gs=False):
        self.defs.append(dict(kind="L", gs=gs, opts=[], intlabel=False, body=body))
        self.stats["loops"] += 1
        self.stats["empty_bodies"] += int(not body)
        return len(self.defs) - 1

    def label(self):
        self.nlab += 1
        return self.nlab


def lab_name(l):
    return "LB%d" % l if l < 100000 else "LG_%d" % (l - 100000)


def render_lines(p, lines, out, pn):
    """pn: name of the enclosing macro's parameter (None at the top level)"""
    for ln in lines:
        k = ln[0]
        if k == "E":
            out.append(" db %d" % (ln[1] % 256))
        elif k == "D":
            out.append("%s:" % lab_name(ln[1]))
        elif k == "R":
            out.append(" db %s&255" % lab_name(ln[1]))
        elif k == "DA":
            out.append("LG_%s:" % pn)
        elif k == "RA":
            out.append(" db LG_%s&255" % pn)
        elif k == "C":
            out.append(call_text(p, ln[1], str(ln[2])))
        elif k == "K":
            out += [" if %s>0" % pn, call_text(p, ln[1], "%s-1" % pn), " endif"]
        elif k == "P":
            d = p.defs[ln[1]]
            gs = ",{GLOBALSYMBOLS}" if d["gs"] else ""
            if ln[3] == "r":
                out.append(" rept %d%s" % (ln[2], gs))
            elif ln[3] == "i":
                out.append(" irp IV%d,%s%s" % (ln[1], ",".join(str(7 + j) for j in range(ln[2])), gs))
            else:
                out.append(" irpc IV%d,\"%s\"%s" % (ln[1], "".join("0123456789"[j % 10] for j in range(ln[2])), gs))
            render_lines(p, d["body"], out, pn)
            out.append(" endm")
            p.stats["calls_written"] += 0


def call_text(p, m, arg):
    d = p.defs[m]
    p.stats["calls_written"] += 1
    lab = ""
    if d["intlabel"]:
        b = d["body"]
        # the label written in front of the call is handed to the body as __LABEL__ (it does not label the call line)
        lab = lab_name(b[0][1]) if b and b[0][0] == "D" else "XL%d" % p.stats["calls_written"]
    return "%s MC%d %s" % (lab, m, arg)


def render(p):
    out = [" cpu z80", " org 0"]
    if p.nestmax is not None:
        out.append(" nestmax %d" % p.nestmax)
    for m, d in enumerate(p.defs):
        if d["kind"] != "M":
            continue
        pn = "PN%d" % m
        ctl = list(d["opts"]) + (["GLOBALSYMBOLS"] if d["gs"] else []) + (["INTLABEL"] if d["intlabel"] else [])
        out.append("MC%d macro %s" % (m, ",".join([pn] + ["{%s}" % c for c in ctl])))
        body = d["body"]
        if d["intlabel"] and body and body[0][0] == "D":
            out.append("__LABEL__:")
            body = body[1:]
        render_lines(p, body, out, pn)
        out.append(" endm")
    render_lines(p, p.top, out, None)
    out.append(" db 255")
    return "\n".join(out) + "\n"


def enc_lines(lines):
    out = [str(len(lines))]
    for ln in lines:
        if ln[0] in ("E", "D", "R", "K"):
            out += [ln[0], str(ln[1])]
        elif ln[0] in ("DA", "RA"):
            out.append(ln[0])
        elif ln[0] == "C":
            out += ["C", str(ln[1]), str(ln[2])]
        elif ln[0] == "P":
            out += ["P", str(ln[1]), str(ln[2]), ln[3]]
    return out


def encode(p, empty_pops, fuel):
    out = ["1" if empty_pops else "0", str(256 if p.nestmax is None else p.nestmax), str(fuel), str(len(p.defs))]
    for d in p.defs:
        out.append("1" if d["gs"] else "0")
        out += enc_lines(d["body"])
    out += enc_lines(p.top + [("E", 255)])
    return " ".join(out)


# --------------------------------------------------------------------------
# generators

def opt_sets(rng):
    o = list(rng.choice(LIST_OPTS))
    return o


def body_with_labels(p, rng, use_arg_label, extra=()):
    """a small body: bytes, a private (or argument-named) label defined and used"""
    b = []
    if rng.random() < 0.5:
        b.append(("E", rng.randrange(256)))
    if use_arg_label:
        b += [("DA",), ("E", rng.randrange(256)), ("RA",)]
    else:
        l = p.label()
        if rng.random() < 0.3:
            b += [("R", l), ("E", rng.randrange(256)), ("D", l)]      # used before it is defined: needs a second pass
            p.stats["two_pass"] += 1
        else:
            b += [("D", l), ("E", rng.randrange(256)), ("R", l)]
    b += list(extra)
    if rng.random() < 0.4:
        b.append(("E", rng.randrange(256)))
    return b


def gen_many_calls(rng, n, variant, two_pass):
    """one macro called n times; variant: control parameters"""
    p = Prog("many calls: %d x %s%s" % (n, variant, ", forward reference (two passes)" if two_pass else ""))
    gs = "GS" in variant
    il = "IL" in variant
    opts = opt_sets(rng) if "OPT" in variant else []
    if gs and "NOGLOBALSYMBOLS" in opts:
        opts = []
    if il and "NOINTLABEL" in opts:
        opts = []
    if il and not gs and rng.random() < 0.6:
        body = [("D", p.label()), ("E", rng.randrange(256))]
        body.append(("R", body[0][1]))
    else:
        body = body_with_labels(p, rng, gs)
    m = p.macro(body, gs=gs, opts=opts, intlabel=il)
    helper = None
    if rng.random() < 0.5:
        # a second macro (other control parameters) that calls the first one
        helper = p.macro([("E", rng.randrange(256)), ("C", m, 0), ("E", rng.randrange(256))], gs=rng.random() < 0.3, opts=opt_sets(rng))
        if gs:
            p.defs[helper]["body"][1] = ("E", 1)         # argument-named labels: every call needs its own argument
    tail = p.label()
    if two_pass:
        p.top.append(("R", tail))
        p.stats["two_pass"] += 1
    made = 0
    arg = 0
    while made < n:
        r = rng.random()
        left = n - made
        if gs or r < 0.55:
            arg += 1
            p.top.append(("C", m, arg))
            made += 1
        elif r < 0.75 and left >= 2:
            k = rng.randrange(2, min(left, 60) + 1)
            d = p.loopdef([("C", m, 0)] + ([("E", rng.randrange(256))] if rng.random() < 0.5 else []), gs=rng.random() < 0.2)
            p.top.append(("P", d, k, rng.choice("ric")))
            made += k
        elif helper is not None and not gs:
            p.top.append(("C", helper, 0))
            made += 1
        else:
            p.top.append(("E", rng.randrange(256)))
    p.top.append(("D", tail))
    if gs:
        # the labels named after the arguments are global: use some from outside
        for a in rng.sample(range(1, arg + 1), min(arg, 4)) + [arg]:
            p.top.append(("R", 100000 + a))
    return p


def gen_chain(rng, depth, fan):
    # the three outermost macros call the next one `fan` times: fan^3 copies of the rest of the chain; keep the program below
    # ~1500 expansions (64 KByte address space of the target, and the Lean side's symbol lists are linear)
    depth = min(depth, {1: 300, 2: 150, 3: 50}[fan])
    p = Prog("call chain of %d macros, fan-out %d" % (depth, fan))
    nxt = None
    for j in range(depth):
        body = body_with_labels(p, rng, False)
        if nxt is not None:
            pos = rng.randrange(0, len(body) + 1)
            for _ in range(fan if j >= depth - 3 else 1):
                body.insert(pos, ("C", nxt, 0))
        nxt = p.macro(body, gs=False, opts=opt_sets(rng) if rng.random() < 0.3 else [])
    for _ in range(rng.randrange(1, 4) if fan == 1 else 1):
        p.top.append(("C", nxt, 0))
    return p


def gen_recursion(rng, nestmax, depth, repeats, unbounded=False):
    p = Prog("%s recursion: NESTMAX %s, depth %s, %d times" % ("unbounded" if unbounded else "bounded", "default" if nestmax is None else nestmax,
                                                              "-" if unbounded else depth, repeats), nestmax)
    p.stats["recursion"] += 1
    l = p.label()
    gs = rng.random() < 0.25
    if unbounded:
        body = [("E", rng.randrange(256)), ("C", 0, 0), ("E", rng.randrange(256))]
    else:
        pre = [("E", rng.randrange(256))] if rng.random() < 0.7 else []
        post = [("E", rng.randrange(256))] if rng.random() < 0.7 else []
        lab = [] if gs else [("D", l), ("R", l)]
        body = pre + lab + [("K", 0)] + post
        if rng.random() < 0.3:
            # the recursive call stands in a repetition
            d_ = 1
            body = pre + lab + [("P", d_, 1, rng.choice("ri"))] + post
    m = p.macro(body, gs=gs, opts=opt_sets(rng) if rng.random() < 0.5 else [])
    if not unbounded and any(x[0] == "P" for x in body):
        p.loopdef([("K", 0)], gs=rng.random() < 0.3)
    for _ in range(repeats):
        p.top.append(("C", m, depth))
        if rng.random() < 0.3:
            p.top.append(("E", rng.randrange(256)))
    return p


def gen_empty(rng, shape):
    """empty bodies inside / outside expansions with private labels"""
    p = Prog("empty body: %s" % shape)
    emp = p.macro([], gs="gs-empty" in shape, opts=opt_sets(rng) if rng.random() < 0.3 else [])
    l = p.label()
    if "macro" in shape:
        hole = ("C", emp, 0)
    elif "rept0" in shape:
        hole = ("P", p.loopdef([("E", 3)]), 0, "r")
    elif "irpc0" in shape:
        hole = ("P", p.loopdef([("E", 3)]), 0, "c")
    else:
        hole = ("P", p.loopdef([], gs="gs-empty" in shape), rng.choice([1, 2, 3]), {"rept": "r", "irp": "i", "irpc": "c"}[shape.split("-")[0]])
    inner = [("D", l), ("E", rng.randrange(256)), hole, ("R", l), ("E", rng.randrange(256))]
    if "label-after" in shape:
        l2 = p.label()
        inner = [("E", 1), hole, ("D", l2), ("R", l2)]
    if "top" in shape:
        p.top += [("E", 1), hole, ("E", 2)]
        return p
    if "in-loop" in shape:
        d = p.loopdef(inner)
        p.top.append(("P", d, rng.choice([1, 2]), rng.choice("ri")))
    else:
        outer = p.macro(inner, gs=False)
        for _ in range(rng.choice([1, 2])):
            p.top.append(("C", outer, 0))
    return p


def gen_shadow(rng, shape):
    """a private label with the name of a label of the enclosing scope; `fwd`: used inside before its definition"""
    p = Prog("shadowing: %s" % shape)
    l = p.label()
    fwd = "fwd" in shape
    if fwd:
        p.stats["shadow"] += 1
        inner = [("E", rng.randrange(256)), ("R", l), ("E", rng.randrange(256)), ("D", l), ("E", rng.randrange(256))]
    else:
        inner = [("E", rng.randrange(256)), ("D", l), ("E", rng.randrange(256)), ("R", l)]
    if "rept" in shape or "irp" in shape:
        hole = ("P", p.loopdef(inner), rng.choice([1, 2]), "r" if "rept" in shape else "i")
    else:
        hole = ("C", p.macro(inner, gs=False, opts=opt_sets(rng) if rng.random() < 0.3 else []), 0)
    if "outer-macro" in shape:
        # the outer label is the private label of the calling macro
        outer = p.macro([("D", l), ("E", rng.randrange(256)), hole, ("R", l)], gs=False)
        p.top += [("E", 1), ("C", outer, 0)]
    elif "outer-after" in shape:
        # the global label is defined behind the call: undefined in the first pass, so a second pass is made (fine)
        p.top += [("E", 1), hole, ("D", l), ("R", l)]
        p.stats["shadow"] = 0
        p.stats["two_pass"] += 1
    else:
        p.top += [("D", l), ("E", 1), hole, ("R", l)]
    return p


SHADOW_SHAPES = ["fwd-macro", "fwd-rept", "fwd-irp", "fwd-macro-outer-macro", "fwd-rept-outer-macro", "fwd-macro-outer-after",
                 "back-macro", "back-rept", "back-macro-outer-macro"]

EMPTY_SHAPES = ["macro", "rept", "irp", "irpc", "irpc0", "rept0", "macro-in-loop", "rept-in-loop", "macro-label-after", "irp-label-after",
                "macro-gs-empty", "rept-gs-empty", "macro-top", "rept-top", "irpc0-top"]

VARIANTS = ["plain", "OPT", "GS", "GS+OPT", "IL", "IL+OPT", "GS+IL"]


def generate(rng, tier):
    quick = tier == "quick"
    progs = []
    # many calls: every variant with a large count (one pass) and one above half the limit (two passes); small counts at random
    for v in VARIANTS:
        progs.append(gen_many_calls(rng, rng.randrange(520, 621), v, False))
        progs.append(gen_many_calls(rng, rng.randrange(260, 320), v, True))
        progs.append(gen_many_calls(rng, rng.choice([1, 2, 7, 40, 128, 129, 130, 255, 256, 257, 258, 259]), v, rng.random() < 0.5))
    for _ in range(0 if quick else 120):
        progs.append(gen_many_calls(rng, rng.randrange(1, 700), rng.choice(VARIANTS), rng.random() < 0.5))
    # chains
    for depth, fan in ((2, 1), (rng.randrange(3, 40), 2), (rng.randrange(250, 301), 1)):
        progs.append(gen_chain(rng, depth, fan))
    for _ in range(0 if quick else 30):
        progs.append(gen_chain(rng, rng.randrange(2, 300), rng.choice([1, 1, 2, 3])))
    # recursion around the limit
    lims = [(None, d) for d in (3, 250, 255, 256, 257, 258, 260)] + [(3, d) for d in (1, 2, 3, 4, 5, 6)] + \
        [(rng.choice([1, 2, 5, 20]), None), (0, rng.choice([5, 300]))]
    for nm, d in lims:
        if d is None:
            nm_ = nm
            for d_ in (nm_ - 1, nm_, nm_ + 1, nm_ + 2, nm_ + 4):
                if d_ >= 0:
                    progs.append(gen_recursion(rng, nm_, d_, 1))
        else:
            progs.append(gen_recursion(rng, nm, d, 1))
    progs.append(gen_recursion(rng, rng.choice([None, 7]), 3, rng.randrange(150, 200)))      # many recursive expansions one after the other
    progs.append(gen_recursion(rng, rng.choice([2, 5, 20]), 0, 1, unbounded=True))
    progs.append(gen_recursion(rng, None, 0, 1, unbounded=True))
    for _ in range(0 if quick else 60):
        nm = rng.choice([None, 0, 1, 2, 3, 5, 20, 100])
        lim = 256 if nm is None else nm
        progs.append(gen_recursion(rng, nm, max(0, (lim if lim else 40) + rng.randrange(-4, 6)), rng.choice([1, 1, 2, 5])))
    # shadowing
    for sh in SHADOW_SHAPES:
        for _ in range(1 if quick else 4):
            progs.append(gen_shadow(rng, sh))
    # empty bodies
    for sh in EMPTY_SHAPES:
        for _ in range(1 if quick else 6):
            progs.append(gen_empty(rng, sh))
    return progs


# --------------------------------------------------------------------------

def kv_of(ans):
    return dict(x.split("=", 1) for x in ans.split()[1:] if "=" in x)


def real_run(asl, bdir, wd, src, canon_p):
    rc, msg, pf, _ = asl(bdir, wd, "nest", src)
    cells = canon_p(pf) if pf else None
    code = None
    if cells is not None:
        code = b"".join(c[4] for c in cells) if all(c[:3] == cells[0][:3] for c in cells) else None
        if cells and cells[0][3] != 0:
            code = None
        if not cells:
            code = b""
    cnt = dict(refused=0, undef=0, dbl=0, other=0, truncated=0)
    for ln in msg.split("\n"):
        if not ln.startswith("> > >"):
            continue
        if "too deeply nested" in ln:
            cnt["refused"] += 1
        elif "symbol undefined" in ln:
            cnt["undef"] += 1
        elif "symbol double defined" in ln:
            cnt["dbl"] += 1
        elif len(ln) >= 1000 and ": error" not in ln and ": warning" not in ln:
            # the position prefix of a deeply nested expansion fills asl's 1024-byte message buffer: the message text itself is cut off.
            # In the programs made here only the refusal happens that deep.
            cnt["truncated"] += 1
            cnt["refused"] += 1
        elif "error" in ln:
            cnt["other"] += 1
    return dict(rc=rc, code=code, msg=msg, **cnt)


def probe_empty_pops(asl, bdir, wd):
    src = " cpu z80\n org 0\nqe macro\n endm\nqo macro\nqlab: db 1\n qe\n db qlab&255\n endm\n qo\n"
    rc, msg, pf, _ = asl(bdir, wd, "qep", src)
    return rc != 0 and "symbol undefined" in msg


def run_stream(args, asl, canon_p, bdir, wd, drv_ok, dist, spec_fail, corr_fail, proof_problems, samples):
    evaluations, distinct = 0, set()
    if not drv_ok:
        return evaluations, distinct
    d = dict(programs=0, calls_written=0, most_calls_in_one_program=0, verdict={"A": 0, "R": 0, "E": 0}, two_pass_programs=0, gs_macros=0,
             intlabel_macros=0, recursion_programs=0, empty_body_programs=0, shadow_programs=0, model_eq_real=0, spec_checked=0, finding_programs=0,
             shadow_finding_programs=0, max_open=0)
    empty_pops = probe_empty_pops(asl, bdir, wd)
    d["quirk_emptyPops"] = empty_pops
    rng = common.rng_for(args.seed, "C11/nest")
    progs = generate(rng, args.tier)
    fuel = 400000
    srcs = [render(p) for p in progs]
    answers = common.driver("c11nest", [encode(p, empty_pops, fuel) for p in progs], timeout=1800)
    for k, (p, src, ans) in enumerate(zip(progs, srcs, answers)):
        if not ans.startswith("ok "):
            proof_problems.append("driver c11nest: %s on program %d (%s)" % (ans[:60], k, p.what))
            continue
        kv = kv_of(ans)
        r = real_run(asl, bdir, wd, src, canon_p)
        evaluations += 1
        distinct.add(src)
        d["programs"] += 1
        d["calls_written"] += p.stats["calls_written"]
        d["most_calls_in_one_program"] = max(d["most_calls_in_one_program"], p.stats["calls_written"])
        d["verdict"][kv["s_verdict"]] += 1
        d["two_pass_programs"] += int(kv["m_passes"] != "1")
        d["gs_macros"] += p.stats["gs_macros"]
        d["intlabel_macros"] += p.stats["intlabel"]
        d["recursion_programs"] += int(p.stats["recursion"] > 0)
        d["empty_body_programs"] += int(p.stats["empty_bodies"] > 0)
        d["shadow_programs"] += int(p.stats["shadow"] > 0)
        d["max_open"] = max(d["max_open"], int(kv["s_max"]))
        info = dict(tag="nest %d" % k, source=src if len(src) < 60000 else src[:60000] + "...", asflags="", program_class=p.what,
                    real="rc=%s refused=%d (of these with the message text cut off by the position prefix: %d) undefined=%d double=%d other=%d %s" % (
                        r["rc"], r["refused"], r["truncated"], r["undef"], r["dbl"], r["other"], r["msg"][-300:]),
                    spec="verdict=%s max_open=%s bytes=%d" % (kv["s_verdict"], kv["s_max"], len(unhx(kv["s_bytes"]))),
                    model="refused=%s undefined=%s double=%s passes=%s" % (kv["m_refused"], kv["m_undef"], kv["m_dbl"], kv["m_passes"]))
        if kv["s_undef"] != "0" or kv["s_dbl"] != "0" or (kv["s_verdict"] == "A" and kv["s_ok"] != "1"):
            proof_problems.append("c11nest generator: the spec's own expansion of program %d (%s) has undefined/double labels" % (k, p.what))
            continue
        # what C11_nest_refines / C11_nest_refuses_partial (Props/C11_Nest.lean) say about the compiled model, seen on this program
        lim = 256 if p.nestmax is None else p.nestmax
        if kv["s_ok"] == "1" and kv["s_dbl"] == "0" and (lim == 0 or int(kv["s_max"]) <= lim + 1) and \
                (kv["f_undef"] != "0" or kv["f_bytes"] == kv["s_bytes"]):
            d["theorem_instances"] = d.get("theorem_instances", 0) + 1
            if not (kv["i_bytes"] == kv["s_bytes"] and kv["i_refused"] == "0" and kv["i_undef"] == kv["s_undef"] and kv["i_dbl"] == "0"):
                proof_problems.append("c11nest: the compiled model contradicts theorem C11_nest_refines on program %d (%s)" % (k, p.what))
        if kv["s_ok"] == "1" and lim > 0 and int(kv["s_max"]) > lim + 1 and kv["i_refused"] == "0":
            proof_problems.append("c11nest: the compiled model contradicts theorem C11_nest_refuses_partial on program %d (%s)" % (k, p.what))
        m_err = int(kv["m_refused"]) + int(kv["m_undef"]) + int(kv["m_dbl"])
        model_eq_real = (r["other"] == 0 and r["refused"] == int(kv["m_refused"]) and r["undef"] == int(kv["m_undef"]) and r["dbl"] == int(kv["m_dbl"])
                         and (r["rc"] == 0) == (m_err == 0) and (m_err > 0 or r["code"] == unhx(kv["m_bytes"])) and kv["m_left"] == "0")
        d["model_eq_real"] += int(model_eq_real)
        # (C) the spec's verdict on the real output
        v = kv["s_verdict"]
        bad = None
        if v == "A":
            d["spec_checked"] += 1
            if r["rc"] != 0 or r["code"] is None:
                bad = "no macro has more than %s open expansions (NESTMAX %s) and every label is defined in its scope, but asl rejects the program" % (
                    kv["s_max"], "default 256" if p.nestmax is None else p.nestmax)
            elif r["code"] != unhx(kv["s_bytes"]):
                a, b = r["code"], unhx(kv["s_bytes"])
                j = next((t for t in range(min(len(a), len(b))) if a[t] != b[t]), min(len(a), len(b)))
                bad = "code differs from the expansion by hand at offset %d: asl %s (%d bytes), by hand %s (%d bytes)" % (
                    j, a[j:j + 8].hex(), len(a), b[j:j + 8].hex(), len(b))
        elif v == "R":
            d["spec_checked"] += 1
            if r["refused"] == 0 or not isinstance(r["rc"], int) or r["rc"] < 0 or r["rc"] == 0:
                bad = "a macro gets more than NESTMAX+1 open expansions (or the expansion never ends) but asl does not refuse (rc=%s)" % r["rc"]
        if bad is not None:
            info["why"] = bad
            intended_ok = (kv["i_refused"] == "0" and kv["i_undef"] == "0" and kv["i_dbl"] == "0" and kv["i_bytes"] == kv["s_bytes"])
            if v == "A" and model_eq_real and empty_pops and intended_ok and p.stats["empty_bodies"] > 0 and r["refused"] == 0:
                # fully explained: the model with the probed quirk predicts exactly this outcome, the model without it the spec's
                info["sig"] = SIG_EMPTY
                d["finding_programs"] += 1
            elif (v == "A" and model_eq_real and p.stats["shadow"] > 0 and r["rc"] == 0 and kv["f_undef"] == "0" and kv["f_dbl"] == "0"
                  and kv["m_passes"] == "1" and kv["f_bytes"] != kv["s_bytes"] and r["code"] == unhx(kv["f_bytes"])):
                # fully explained: nothing is undefined in the first pass (the outer label is found), so asl - and the model - stop after
                # it with the bytes of the SPEC's first pass; the SPEC's second pass finds the private label (Props/C11_Nest.lean,
                # C11_finding_forward_shadow / the hypothesis `Settled` of C11_nest_refines)
                info["sig"] = SIG_SHADOW
                d["shadow_finding_programs"] += 1
            spec_fail.append(info)
            continue
        if not model_eq_real:
            info["why"] = "Model/MacroNest.lean and asl differ (the spec's verdict holds)"
            corr_fail.append(info)
            continue
        if len(samples) < 10 and p.stats["calls_written"] > 250 and p.stats["gs_macros"]:
            samples.append(dict(kind="nest", program_class=p.what, calls=p.stats["calls_written"], code_bytes=len(r["code"] or b""), passes=kv["m_passes"]))
    dist["nest"] = d
    return evaluations, distinct


def unhx(s):
    return b"" if s == "-" else bytes.fromhex(s)
