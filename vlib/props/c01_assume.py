"""C01, part "assumptions" (Model/PassAssume.lean, Spec/AssumePos.lean, driver mode c01a; Props/C01_Assume.lean).

The other C01 streams contain no statement that changes how *later* lines are encoded.  This part adds the class

  programs whose encodings depend on per-pass state that statements set: `ASSUME` (every register of every code
  generator that has an ASSUME table - the list is cross-checked against the `assume` / `onoff` rows of
  lean/AslModel/Generated/GenState.lean) and the ON/OFF switches, with memory operands / probes BEFORE the first and
  AFTER the last such statement, in one-pass and in forced multi-pass arrangements.

The manual (doc/pseudo-instructions.md, ASSUME): "This instruction allows to tell AS the current setting of certain
registers ... AS initially assumes ..." - the assumption in force at a line is the default, overwritten by every ASSUME
in front of the line; it has nothing to do with the number of passes.  The property: one further pass changes neither
the code file nor any symbol value, and every use encodes the value the symbol finally has.

Streams
 (AB) abstract programs in the statement language of Model/PassAssume.lean (label / page-rule reference / data word
      reference / filler / ASSUME) rendered for 6809 (`lda`, DPR), 65CE02 (`lda`, B) and 68HC12X (`ldaa`, DIRECT): real
      asl vs the Lean model (per-pass reset as registered through AddInitPassProc) in status, number of passes, form
      and operand of every reference, end address (B); termination under the pass cap (C).
 (AO) marker programs on 6809 / 6309 / 65CE02 / 68HC12X / 65816 / MELPS 7700 / 80C166 / 80C167: variables in and
      outside the pages the ASSUME statements name, references through a dozen instructions per target in every
      segment between the ASSUMEs (in particular in front of the first and behind the last one), several registers in
      one ASSUME; each program in five arrangements - (V1) variables defined first: one pass, (V2) V1 plus a forward
      reference at the end: two passes, (V3) variables behind the code: every operand is a forward reference whose
      size shrinks in pass 2, (V4) V1 with forced extra passes, (V5) V3 with a forced extra pass.
      (a) the code files of all arrangements agree on the shared addresses; (b) the Lean SPEC `AssumePos.judge`
      (driver `c01a J`) decodes every operand under the assumption in force at its line per the manual: it must denote
      the address where the variable's marker lies, and the marker behind the instruction must follow at the decoded
      length (C).
 (AG) every ASSUME register of every target and every ON/OFF switch with a symbol: programs of data items
      `ASSUMEDVAL(reg)` (resp. the switch's symbol) in front of the first, between and behind the last ASSUME, in the
      arrangements one pass / forward reference at the end / forced extra passes: (a) all arrangements give the same
      items, (b) every item is the value declared for its line (`AssumePos.judge`, probe items; the default only where
      the manual states one) (C).
"""
import os
import re
from collections import Counter
from concurrent.futures import ThreadPoolExecutor

from .. import common
from . import c01_ext

PASS_CAP = 40
PASSES_RE = c01_ext.PASSES_RE
SIG_OSC = "size-oscillation"


# ---------------------------------------------------------------- (AB) abstract programs against the model
AB_T = {
    # name: cpu, register, mnemonic, (direct opcode, extended opcode), word directive, big endian, byte directive
    "6809": dict(cpu="6809", reg="dpr", mn="lda", ops=(0x96, 0xB6), dw="fdb", big=True, db="fcb"),
    "65ce02": dict(cpu="65ce02", reg="b", mn="lda", ops=(0xA5, 0xAD), dw="adr", big=False, db="fcb"),
    "hc12x": dict(cpu="68hc12x", reg="direct", mn="ldaa", ops=(0x96, 0xB6), dw="fdb", big=True, db="fcb"),
}


def gen_ab(rng, tname):
    t = AB_T[tname]
    nlab = rng.randrange(1, 6)
    labs = list(range(1, nlab + 1))
    pending = labs[:]
    rng.shuffle(pending)
    stmts, src = [], ["\tcpu %s" % t["cpu"]]
    pages = [0, 1, 2, 3]
    nass = 0
    n = rng.randrange(5, 24)
    first_assume = rng.randrange(1, n)
    for i in range(n):
        r = rng.random()
        if i == first_assume or (i > first_assume and r < 0.14):
            v = rng.choice(pages) if rng.random() < 0.9 else rng.choice([0x20, 0xFF, 5])
            stmts.append("A%d" % v)
            src.append("\tassume %s:%d" % (t["reg"], v))
            nass += 1
        elif r < 0.36 and pending:
            k = pending.pop()
            stmts.append("L%d" % k)
            src.append("lab%d:" % k)
        elif r < 0.70:
            k = rng.choice(labs)
            stmts.append("R%d" % k)
            src.append("\t%s lab%d" % (t["mn"], k))
        elif r < 0.78:
            k = rng.choice(labs)
            stmts.append("W%d" % k)
            src.append("\t%s lab%d" % (t["dw"], k))
        else:
            k = rng.choice([1, 2, 3, 5, 60, 100, 120, 126, 127, 128, 129, 130, 200, 250, 251, 252, 253, 254, 255, 256, 257, 300])
            while k > 0:
                c = min(k, 100)
                stmts.append("S%d" % c)
                src.append("\t%s %s" % (t["db"], ",".join(str(rng.randrange(256)) for _ in range(c))))
                k -= c
    for k in pending:
        stmts.append("L%d" % k)
        src.append("lab%d:" % k)
    return stmts, "\n".join(src) + "\n", nass


def run_ab(out, args, bdir, wd, rng, n):
    from . import c01 as c01m
    env_cap = {"ASL_VERIF_MAX_PASSES": str(PASS_CAP)}
    names = sorted(AB_T)
    cases = []
    for i in range(n):
        tname = names[i % len(names)]
        stmts, text, nass = gen_ab(rng, tname)
        cases.append((tname, stmts, text))

    def asm(ic):
        i, (tname, stmts, text) = ic
        f = os.path.join(wd, "ab%d.asm" % i)
        p = os.path.join(wd, "ab%d.p" % i)
        open(f, "w").write(text)
        rc, so, se = common.run_tool(bdir, "asl", [f, "-o", p], wd, env=env_cap, timeout=60)
        m = PASSES_RE.search(so)
        img = None
        if rc == 0 and os.path.exists(p):
            img = c01m.image_of(open(p, "rb").read())
        for x in (f, p):
            if os.path.exists(x):
                os.unlink(x)
        return dict(rc=rc, passes=int(m.group(1)) if m else None, img=img, msg=(so + se)[-300:].decode(errors="replace"))

    with ThreadPoolExecutor(max_workers=4) as ex:
        reals = list(ex.map(asm, enumerate(cases)))
    reqs = ["P 1 %d 0 %s" % (PASS_CAP, " ".join(st)) for (_t, st, _x) in cases]
    try:
        answers = common.driver("c01a", reqs, timeout=900)
    except RuntimeError as ex:
        out["problems"].append(str(ex))
        return
    if len(answers) != len(reqs):
        out["problems"].append("driver c01a answered %d of %d requests" % (len(answers), len(reqs)))
        return
    for (tname, stmts, text), real, rq, ans in zip(cases, reals, reqs, answers):
        t = AB_T[tname]
        out["evaluations"] += 1
        out["distinct"].add(text)
        out["dist"]["AB:target/" + tname] += 1
        m = re.match(r"passes=(\S+) cyc=(\d) pc=(\d+) refs=(.*)", ans)
        if not m:
            out["problems"].append("driver rejected a c01a request: %r / %s" % (ans, rq[:200]))
            continue
        base = dict(source=text, model_request_c01a=rq, target=t["cpu"])
        rc = real["rc"]
        if rc == 97 or rc == "timeout":
            sig = SIG_OSC if (m.group(1) == "none" and m.group(2) == "1") else None
            out["dist"]["AB:cap-hits%s" % ("(model proves a cycle)" if sig else "")] += 1
            out["spec_fail"].append(dict(base, sig=sig, why="the pass loop does not end within %d passes%s" % (
                PASS_CAP, " (the model's pass-start state repeats: it never ends)" if sig else "")))
            if m.group(1) != "none":
                out["corr_fail"].append(dict(base, why="real asl hits the pass cap, the model ends after %s passes" % m.group(1),
                                             correspondence="asl == Model.PassAssume.assemble (reset per pass)"))
            continue
        if rc != 0:
            out["spec_fail"].append(dict(base, sig=None, why="asl rejected a valid program: rc=%s %s" % (rc, real["msg"])))
            continue
        out["dist"]["AB:passes=%s" % real["passes"]] += 1
        mism = []
        if m.group(1) == "none":
            mism.append("model: no end within %d passes, real asl ends after %s" % (PASS_CAP, real["passes"]))
        else:
            if real["passes"] != int(m.group(1)):
                mism.append("passes %s, model %s" % (real["passes"], m.group(1)))
            img = real["img"] or {}
            kinds = [s[0] for s in stmts if s[0] in "RW"]
            refs = [x for x in m.group(4).split(",") if x]
            for kind, r in zip(kinds, refs):
                a, sym, v, reg = (int(y) for y in r.split(":"))
                v &= 0xFFFF
                hi, lo = v >> 8, v & 255
                if kind == "W":
                    want = [hi, lo] if t["big"] else [lo, hi]
                elif hi == reg:
                    want = [t["ops"][0], lo]
                    out["dist"]["AB:refs-direct"] += 1
                else:
                    want = [t["ops"][1]] + ([hi, lo] if t["big"] else [lo, hi])
                    out["dist"]["AB:refs-extended"] += 1
                got = [img.get((1, a + k)) for k in range(len(want))]
                if got != want:
                    mism.append("reference to lab%d at %d: image %s, model %s (value %d under assumption %d)" % (sym, a, got, want, v, reg))
            end = max([a for (s, a) in img if s == 1] + [-1]) + 1
            if img and end != int(m.group(3)):
                mism.append("end address %d, model %s" % (end, m.group(3)))
        if mism:
            out["corr_fail"].append(dict(base, why="; ".join(mism[:4]),
                                         correspondence="asl passes / form and operand of every reference == Model.PassAssume.assemble with the per-pass reset of the assumption register"))
        elif len(out["samples"]) < 2 and (real["passes"] or 0) >= 3:
            out["samples"].append(dict(kind="assume-abstract/" + tname, source=text[:500], model_stmts=" ".join(stmts), passes=real["passes"]))


# ---------------------------------------------------------------- (AO) marker programs judged by the SPEC decoders
def _hexd(v):
    return "$%x" % v


def _hexh(v):
    return "0%xh" % v


AO_T = {
    "6809": dict(cpus=["6809", "6309"], dec={"6809": "6809", "6309": "6309"}, regs=["dpr"], dflt=[0], db="fcb", dw="fdb", num=_hexd, kind="page8",
                 mn=["lda", "ldb", "sta", "stb", "ldx", "stx", "ldu", "ldd", "std", "adda", "cmpa", "eorb", "jmp", "jsr", "inc", "dec", "tst",
                     "clr", "neg", "com", "ldy", "sty", "cmpd", "lds", "cmpy", "cmpu", "subd", "rol"]),
    "65ce02": dict(cpus=["65ce02"], dec={"65ce02": "65ce02"}, regs=["b"], dflt=[0], db="fcb", dw="adr", num=_hexd, kind="page8",
                   mn=["lda", "sta", "ldx", "ldy", "stx", "sty", "cmp", "adc", "sbc", "and", "ora", "eor", "bit", "inc", "dec", "asl", "lsr",
                       "rol", "ror", "cpx", "cpy"]),
    "hc12x": dict(cpus=["68hc12x"], dec={"68hc12x": "hc12x"}, regs=["direct"], dflt=[0], db="fcb", dw="fdb", num=_hexd, kind="page8",
                  mn=["ldaa", "ldab", "staa", "stab", "ldd", "std", "ldx", "stx", "ldy", "sty", "lds", "sts", "adda", "addb", "suba", "cmpa",
                      "cmpb", "anda", "oraa", "eora", "bita", "cpx", "cpd", "jsr"]),
    "65816": dict(cpus=["65816", "melps7700"], dec={"65816": "65816", "melps7700": "65816"}, regs=["dpr", "dt"], dflt=[0, 0], db="db", dw="dw",
                  num=_hexd, kind="w65816", mn=["lda", "sta", "adc", "sbc", "cmp", "and", "ora", "eor"]),
    "c166": dict(cpus=["80c166", "80c167"], dec={"80c166": "c166", "80c167": "c166"}, regs=["dpp0", "dpp1", "dpp2", "dpp3"], dflt=[0, 1, 2, 3],
                 db="db", dw="dw", num=_hexh, kind="c166",
                 mn=["mov r%d,{L}", "mov {L},r%d", "movb rl%d,{L}", "movb {L},rh%d", "add r%d,{L}", "add {L},r%d", "sub r%d,{L}", "cmp r%d,{L}",
                     "and r%d,{L}", "or r%d,{L}", "xor r%d,{L}", "addc r%d,{L}", "subc r%d,{L}", "addb rl%d,{L}", "cmpb rl%d,{L}"]),
}
AO_T["8086"] = dict(cpus=["8086", "v35"], dec={"8086": "8086", "v35": "8086"}, regs=["cs", "ds", "es", "ss"], dflt=[1, 2, 0, 0], db="db", dw="dw",
                    num=_hexh, kind="i86", fwd_ok=False, names={0: "nothing", 1: "code", 2: "data"},
                    mn=["mov al,[{L}]", "mov bl,[{L}]", "mov [{L}],bl", "mov [{L}],al", "add cl,[{L}]", "sub dl,[{L}]", "cmp [{L}],dh", "xor bl,[{L}]",
                        "test [{L}],bl", "inc [{L}]", "dec [{L}]", "and ch,[{L}]", "or [{L}],ah", "not [{L}]", "neg [{L}]", "adc al,[{L}]", "xchg bh,[{L}]"])
AO_ORDER = ["6809", "65ce02", "hc12x", "65816", "c166", "8086", "6809", "65816", "c166"]


def gen_ao(rng, tname, idx):
    """-> dict(cpu, dec, texts={variant: source}, items=[('A', idx, val) | ('R', rid, var)], vars={var: addr}, ...)"""
    t = AO_T[tname]
    cpu = t["cpus"][idx % len(t["cpus"])]
    num = t["num"]
    kind = t["kind"]
    nreg = len(t["regs"])
    nvar = rng.randrange(3, 7)
    # ---- where the code and the variables lie
    if kind == "page8":
        code = rng.choice([0x1000, 0x4000, 0x8000, 0xC000]) + rng.choice([0, 0x40, 0x80, 0xF0])
        cp = code >> 8
        free = [p for p in range(0, 0xFF) if not (cp - 1 <= p <= cp + 6)]
        pages = [0] + rng.sample(free[1:], 2) if rng.random() < 0.7 else rng.sample(free, 3)
        var_addr = {}
        used = set()
        for v in range(nvar):
            p = pages[v % len(pages)] if v < len(pages) else rng.choice(pages)
            while True:
                off = rng.choice([0, 0x10, 0x7F, 0x80, 0xF8, rng.randrange(0, 0xF8)]) & 0xF8
                if (p, off) not in used:
                    used.add((p, off))
                    break
            var_addr[v] = p * 256 + off
        # values an ASSUME may name: the variables' pages (so that short forms occur), the default, an unrelated page
        pool = [[p for p in pages] + [0, rng.choice(free)]]
        def reach(regs, a):
            return True
    elif kind == "w65816":
        code = rng.choice([0x8000, 0xA000, 0xC000]) + rng.choice([0, 0x80])
        dprs = [0, rng.randrange(0x01, 0x70) * 256 + rng.choice([0, 0, 0x10, 0x80, 0xF0]), rng.randrange(0x01, 0x70) * 256]
        banks = [0, rng.randrange(1, 0x40), rng.randrange(0x40, 0x100)]
        var_addr = {}
        used = set()
        for v in range(nvar):
            while True:
                r = rng.random()
                if r < 0.45:
                    a = rng.choice(dprs) + (rng.choice([0, 0x08, 0x78, 0x80, 0xF8, rng.randrange(0, 0xF8)]) & 0xF8)
                elif r < 0.8:
                    a = rng.choice(banks[1:]) * 65536 + (rng.randrange(0, 0xFFF0) & 0xFFF8)
                else:
                    a = (rng.randrange(0x100, 0x7000) & 0xFFF8)
                if a not in used and not (code - 0x100 <= a <= code + 0x1000):
                    used.add(a)
                    break
            var_addr[v] = a
        pool = [dprs + [rng.randrange(0x01, 0x70) * 256], banks]
        def reach(regs, a):
            return True
    elif kind == "i86":
        code = rng.choice([0x1000, 0x2000, 0x8000]) + rng.choice([0, 0x40])
        var_addr, var_seg = {}, {}
        used = set()
        for v in range(nvar):
            sg = rng.choice([1, 1, 2])
            while True:
                off = (rng.choice([0x100, 0x4000, 0xFFF0, rng.randrange(0x100, 0xFFF0)]) & 0xFFF8)
                if (sg, off) not in used and not (sg == 1 and code - 0x100 <= off <= code + 0x1000):
                    used.add((sg, off))
                    break
            var_addr[v] = sg * 65536 + off
        pool = [[1, 1, 0], [2, 1, 0, 1], [0, 1, 2], [0, 2, 1]]
        def reach(regs, a):
            return (a >> 16) in regs
    else:  # c166
        maxp = 15 if cpu == "80c166" else 1023
        code = 0x200 + 2 * rng.randrange(0, 0x80)
        extra = rng.sample(range(4, maxp + 1), 3)
        pages = [0, 1, 2, 3] + extra
        var_addr = {}
        used = set()
        for v in range(nvar):
            while True:
                p = rng.choice(pages)
                off = (rng.choice([0x2000, 0x2010, 0x3FF8, 0x3000, rng.randrange(0x2000, 0x3FF8)]) & 0x3FF8) if p == 0 else (
                    rng.choice([0, 0x10, 0x3FF8, rng.randrange(0, 0x3FF8)]) & 0x3FF8)
                if (p, off) not in used:
                    used.add((p, off))
                    break
            var_addr[v] = p * 0x4000 + off
        pool = [pages] * 4
        def reach(regs, a):
            return (a >> 14) in regs
    # ---- the statement plan: refs / ASSUME; operands in front of the first and behind the last ASSUME
    regs = list(t["dflt"])
    items = []
    rid = 0
    nass = rng.randrange(1, 5)
    segs = nass + 1
    seg0_vars = []
    for s in range(segs):
        if s > 0:
            k = 1 if rng.random() < 0.7 or nreg == 1 else rng.randrange(2, min(nreg, 3) + 1)
            which = rng.sample(range(nreg), k)
            sets = []
            for ri in which:
                val = rng.choice(pool[ri])
                if s == segs - 1 and seg0_vars and rng.random() < 0.5:
                    # the assumption left at the end of the source names the page of an operand in front of the first ASSUME
                    a = var_addr[rng.choice(seg0_vars)]
                    if kind == "page8":
                        val = a >> 8
                    elif kind == "w65816":
                        val = (a & 0xFF00) if (ri == 0 and a < 0x10000) else ((a >> 16) if ri == 1 else val)
                    elif kind == "i86":
                        val = a >> 16
                    else:
                        val = a >> 14
                sets.append((ri, val))
                regs[ri] = val
            items.append(("A", sets))
        nref = rng.randrange(0, 4)
        if (s == 0 or s == segs - 1) and rng.random() < 0.9:
            nref = max(nref, 1)
        for _ in range(nref):
            cands = [v for v in var_addr if reach(regs, var_addr[v])]
            if not cands:
                continue
            v = rng.choice(cands)
            mn = rng.choice(t["mn"])
            if "{L}" in mn:
                line = (mn % rng.randrange(0, 8) if "%d" in mn else mn).replace("{L}", "var%d" % v)
            else:
                line = "%s var%d" % (mn, v)
            items.append(("R", rid, v, line))
            if s == 0:
                seg0_vars.append(v)
            rid += 1
    # ---- rendering
    db, dw = t["db"], t["dw"]
    head = ["\tcpu %s" % cpu]
    var_lines = []
    names = t.get("names")
    for v in sorted(var_addr):
        mk = "\t%s %s,%s,%s,%s" % (db, num(0xEE), num(v >> 8), num(v & 255), num(0x77))
        if kind == "i86":
            # the label on the line of its data: the symbol gets the operand size of the DB
            if var_addr[v] >> 16 == 2:
                var_lines += ["\tsegment data", "\torg %s" % num(var_addr[v] & 0xFFFF), "var%d:%s" % (v, mk), "\tsegment code"]
            else:
                var_lines += ["\torg %s" % num(var_addr[v] & 0xFFFF), "var%d:%s" % (v, mk)]
        else:
            var_lines += ["\torg %s" % num(var_addr[v]), "var%d:" % v, mk]
    code_lines = ["\torg %s" % num(code)]
    for it in items:
        if it[0] == "A":
            code_lines.append("\tassume " + ",".join("%s:%s" % (t["regs"][ri], names[val] if names else num(val)) for ri, val in it[1]))
        else:
            _, r, v, line = it
            code_lines.append("\t%s %s,%s,%s,%s" % (db, num(0xDD), num(r >> 8), num(r & 255), num(0x66)))
            code_lines.append("\t" + line)
            code_lines.append("\t%s %s,%s" % (db, num(0xCC), num(r & 255)))
    code_lines.append("\t%s 1,1,1,1" % db)
    tail = ["\t%s fwdend" % dw, "fwdend:", "\t%s %s,%s" % (db, num(0x5A), num(0xA5))]
    one = "\n".join(head + var_lines + code_lines) + "\n"
    two = "\n".join(head + var_lines + code_lines + tail) + "\n"
    fwd = "\n".join(head + code_lines + var_lines) + "\n"
    variants = [("V1 variables first (one pass)", one, 0), ("V2 V1 + forward reference at the end", two, 0),
                ("V3 variables behind the code (operands are forward references)", fwd, 0),
                ("V4 V1 with forced extra passes", one, rng.choice([1, 1, 2])),
                ("V5 V3 with one forced extra pass", fwd, 1)]
    if not t.get("fwd_ok", True):
        # 8086: an operand of unknown size is an error in pass 1 - the multi-pass arrangements are V2 and forced extra passes
        variants = [variants[0], variants[1], variants[3], ("V6 V2 with two forced extra passes", two, 2)]
    return dict(tname=tname, cpu=cpu, dec=t["dec"][cpu], dflt=t["dflt"], items=items, vars=var_addr, code=code, variants=variants)


def assemble_plain(bdir, wd, tag, text, extra=0):
    from . import c01 as c01m
    env = {"ASL_VERIF_MAX_PASSES": str(PASS_CAP)}
    if extra:
        env["ASL_VERIF_EXTRA_PASSES"] = str(extra)
    f = os.path.join(wd, tag + ".asm")
    p = os.path.join(wd, tag + ".p")
    open(f, "w").write(text)
    rc, so, se = common.run_tool(bdir, "asl", [f, "-o", p], wd, env=env, timeout=60)
    m = PASSES_RE.search(so)
    msg = " | ".join(l.strip() for l in (se + so).decode(errors="replace").split("\n") if "error" in l or "warning" in l)[:400]
    res = dict(rc=rc, passes=int(m.group(1)) if m else None, img=None, recs=None, msg=msg,
               warn=re.search(rb"^\s*[1-9]\d* warnings?\s*$", so, re.M) is not None)
    if rc == 0 and os.path.exists(p):
        d = open(p, "rb").read()
        res["img"] = c01m.image_of(d)
        res["recs"] = common.parse_pfile_py(d)
    for x in (f, p):
        if os.path.exists(x):
            os.unlink(x)
    return res


def find_marker(img, addrs, pat, seg=1):
    hits = []
    for a in addrs:
        if img.get((seg, a)) == pat[0] and all(img.get((seg, a + j)) == b for j, b in enumerate(pat)):
            hits.append(a)
    return hits


def run_ao(out, args, bdir, wd, rng, n):
    progs = [gen_ao(rng, AO_ORDER[i % len(AO_ORDER)], i // len(AO_ORDER) + i) for i in range(n)]
    jobs = []
    for i, p in enumerate(progs):
        for vi, (vname, text, extra) in enumerate(p["variants"]):
            jobs.append((i, vi, text, extra))
    with ThreadPoolExecutor(max_workers=4) as ex:
        ress = list(ex.map(lambda j: assemble_plain(bdir, wd, "ao%d_%d" % (j[0], j[1]), j[2], j[3]), jobs))
    by = {}
    for j, r in zip(jobs, ress):
        by[(j[0], j[1])] = r
    reqs, meta = [], []
    for i, p in enumerate(progs):
        out["evaluations"] += 1
        out["distinct"].add(p["variants"][-1][1])
        out["dist"]["AO:target/" + p["cpu"]] += 1
        nref = sum(1 for it in p["items"] if it[0] == "R")
        first_a = next((k for k, it in enumerate(p["items"]) if it[0] == "A"), len(p["items"]))
        last_a = max(k for k, it in enumerate(p["items"]) if it[0] == "A")
        out["dist"]["AO:operands-before-the-first-ASSUME"] += sum(1 for it in p["items"][:first_a] if it[0] == "R")
        out["dist"]["AO:operands-behind-the-last-ASSUME"] += sum(1 for it in p["items"][last_a:] if it[0] == "R")
        out["dist"]["AO:operands"] += nref
        shared = None
        ok_all = True
        for vi, (vname, text, extra) in enumerate(p["variants"]):
            r = by[(i, vi)]
            base = dict(source=text, target=p["cpu"], variant=vname, env=("ASL_VERIF_EXTRA_PASSES=%d" % extra) if extra else "")
            if r["rc"] == 97 or r["rc"] == "timeout":
                out["spec_fail"].append(dict(base, sig=None, why="pass loop does not terminate within %d passes (operands under ASSUME)" % PASS_CAP))
                ok_all = False
                continue
            if r["rc"] != 0 or r["img"] is None:
                out["spec_fail"].append(dict(base, sig=None, why="asl rejected a valid program: rc=%s %s" % (r["rc"], r["msg"])))
                ok_all = False
                continue
            if r["warn"]:
                out["spec_fail"].append(dict(base, sig=None, why="asl warns on a valid program: %s" % r["msg"]))
                ok_all = False
                continue
            out["dist"]["AO:%s/passes=%s" % (vname[:2], r["passes"])] += 1
            img = r["img"]
            # (a) agreement of the arrangements on the shared addresses (everything V1 lays down)
            if vi == 0:
                shared = img
            elif shared is not None:
                diff = sorted(k for k in shared if img.get(k) != shared[k])
                if diff:
                    a0 = diff[0][1]
                    out["spec_fail"].append(dict(base, sig=None, one_pass_source=p["variants"][0][1],
                        why="the code file differs from the one-pass arrangement of the same statements (%d bytes, first at address %d: %s, one pass: %s) - %s" % (
                            len(diff), a0, [img.get((1, a0 + k)) for k in range(4)], [shared.get((1, a0 + k)) for k in range(4)], vname)))
                    ok_all = False
            # (b) every operand under the assumption in force at its line
            addrs = sorted(a for (s, a) in img if s == 1)
            var_at = {}
            for v in p["vars"]:
                if p["tname"] == "8086":
                    # the variable's segment is part of what the operand must denote: CODE = 1, DATA = 2 (segment numbers of the code file)
                    sg = p["vars"][v] >> 16
                    h = find_marker(img, sorted(a for (s_, a) in img if s_ == sg), [0xEE, v >> 8, v & 255, 0x77], seg=sg)
                    if len(h) == 1:
                        var_at[v] = sg * 65536 + h[0]
                    continue
                h = find_marker(img, addrs, [0xEE, v >> 8, v & 255, 0x77])
                if len(h) == 1:
                    var_at[v] = h[0]
            toks = []
            tokmeta = []
            for it in p["items"]:
                if it[0] == "A":
                    for ri, val in it[1]:
                        toks.append("A%d:%d" % (ri, val))
                        tokmeta.append(None)
                else:
                    _, rid, v, line = it
                    h = find_marker(img, addrs, [0xDD, rid >> 8, rid & 255, 0x66])
                    if len(h) != 1 or v not in var_at:
                        out["dist"]["AO:references-not-located"] += 1
                        continue
                    a = h[0] + 4
                    bs = []
                    for k in range(8):
                        b = img.get((1, a + k))
                        if b is None:
                            break
                        bs.append(b)
                    toks.append("R%d:%d:%02x%02x:%s" % (a, var_at[v], 0xCC, rid & 255, "".join("%02x" % b for b in bs) or "-"))
                    tokmeta.append((rid, v, line, a))
            reqs.append("J %s %s %s" % (p["dec"], ",".join(str(x) for x in p["dflt"]), " ".join(toks)))
            meta.append((i, vi, tokmeta))
        if ok_all and len(out["samples"]) < 4 and nref >= 4:
            out["samples"].append(dict(kind="assume-operands/" + p["cpu"], source=p["variants"][1][1][:900], passes=by[(i, 1)]["passes"]))
    try:
        answers = common.driver("c01a", reqs, timeout=900) if reqs else []
    except RuntimeError as ex:
        out["problems"].append(str(ex))
        answers = []
    if len(answers) != len(reqs):
        out["problems"].append("driver c01a answered %d of %d requests" % (len(answers), len(reqs)))
        answers = []
    for (i, vi, tokmeta), rq, ans in zip(meta, reqs, answers):
        p = progs[i]
        vname, text, extra = p["variants"][vi]
        fm = re.search(r"forms=(\S*)", ans)
        if vi == 1 and fm:
            for f in fm.group(1).split(","):
                if f:
                    out["dist"]["AO:form/" + f.split("/")[0]] += 1
        if ans.startswith("ok"):
            out["dist"]["AO:programs-judged"] += 1
            continue
        if not ans.startswith("bad "):
            out["problems"].append("driver rejected a c01a request: %r / %s" % (ans, rq[:300]))
            continue
        why = []
        for tok in ans.split()[1:]:
            if tok.startswith("forms="):
                continue
            k, _, w = tok.partition(":")
            tm = tokmeta[int(k)] if int(k) < len(tokmeta) else None
            if tm is None:
                continue
            rid, v, line, a = tm
            if w.startswith("denotes:"):
                _, addr, form = w.split(":", 2)
                why.append("reference %d `%s` at %d: the %s operand denotes address %s under the assumption in force at its line, var%d lies at %d" % (
                    rid, line, a, form, addr, v, p["vars"][v]))
            elif w.startswith("length:"):
                why.append("reference %d `%s` at %d: the marker behind the instruction does not follow at the decoded length (%s)" % (rid, line, a, w))
            else:
                why.append("reference %d `%s` at %d: bytes are not a form the manual decoder describes (%s)" % (rid, line, a, w))
        out["spec_fail"].append(dict(source=text, target=p["cpu"], variant=vname, env=("ASL_VERIF_EXTRA_PASSES=%d" % extra) if extra else "",
                                     sig=None, why="; ".join(why[:4]), spec_request_c01a=rq))


# ---------------------------------------------------------------- (AG) every ASSUME register / ON-OFF switch, probed by data items
# cpu, byte directive, number syntax, [(register, values an ASSUME may name, default stated by the manual or None)], several per ASSUME?
AG_ASSUME = [
    ("80c166", "db", _hexh, [("dpp0", [0, 1, 5, 15], 0), ("dpp1", [0, 1, 7, 15], 1), ("dpp2", [2, 3, 9], 2), ("dpp3", [3, 0, 12], 3)], True, "code166.c"),
    ("80c167", "db", _hexh, [("dpp0", [0, 1, 500, 1023], 0), ("dpp3", [3, 77, 1000], 3)], True, "code166.c"),
    ("am29000", "db", _hexh, [("rbp", [0, 1, 0x80, 0xFF], None)], True, "code29k.c"),
    ("320c30", "data", _hexh, [("dp", [0, 1, 0x80, 0xFF], None)], True, "code3203x.c"),
    ("320c541", "byte", _hexh, [("cpl", [0, 1], None), ("dp", [0, 1, 0x100, 0x1FF], None), ("sp", [0, 0x1234, 0xFFFF], None)], True, "code3254x.c"),
    ("47c00", "db", _hexh, [("dmb", [0, 1, 2, 3], 0)], True, "code47c00.c"),
    ("8048", "db", _hexh, [("mb", [0, 1], None)], True, "code48.c"),
    ("melps740", "fcb", _hexd, [("sp", [0, 0x1F, 0xFF], None)], True, "code65.c"),
    ("huc6280", "fcb", _hexd, [("mpr%d" % k, [0, 1, 0x80, 0xF8 + k], None) for k in range(8)], True, "code65.c"),
    ("65ce02", "fcb", _hexd, [("b", [0, 1, 0x20, 0xFF], 0)], True, "code65.c"),
    ("68hc11k4", "db", _hexd, [("mmsiz", [0, 1, 0x41], 0), ("mmwbr", [0, 0x84], 0), ("mm1cr", [0, 0x20], 0), ("mm2cr", [0, 0x40], 0)], True, "code68.c"),
    ("6809", "fcb", _hexd, [("dpr", [0, 1, 0x20, 0xFF], 0)], True, "code6809.c"),
    ("6309", "fcb", _hexd, [("dpr", [0, 2, 0x80, 0xFE], 0)], True, "code6809.c"),
    ("68hc12x", "db", _hexd, [("direct", [0, 1, 0x30, 0xFF], 0), ("gpage", [0, 1, 0x7F], None)], True, "code6812.c"),
    ("68hc16", "db", _hexd, [("ek", [0, 1, 9, 15], 0)], True, "code6816.c"),
    ("75004", "db", _hexh, [("mbs", [0, 1, 15], None), ("mbe", [0, 1], 0)], True, "code75k0.c"),
    ("65816", "db", _hexd, [("pg", [0, 1, 0xFF], 0), ("dt", [0, 2, 0x7F], 0), ("x", [0, 1], 0), ("m", [0, 1], 0), ("dpr", [0, 0x100, 0x20F0, 0xFF00], 0)], True, "code7700.c"),
    ("65816", "db", _hexd, [("pbr", [0, 3, 0xFE], 0), ("dbr", [0, 4, 0x80], 0)], True, "code7700.c"),
    ("melps7700", "db", _hexd, [("dt", [0, 1, 0xFF], 0), ("dpr", [0, 0x300, 0xFFFF], 0), ("pg", [0, 1], 0)], True, "code7700.c"),
    ("78c10", "db", _hexh, [("v", [0, 1, 0x80, 0xFF], None)], True, "code78c10.c"),
    ("78214", "db", _hexh, [("p6", [0, 1, 15], None), ("pm6", [0, 2, 14], None)], True, "code78k2.c"),
    ("78310", "db", _hexh, [("rss", [0, 1], None)], True, "code78k3.c"),
    ("784026", "db", _hexh, [("rss", [0, 1], None), ("location", [0, 15], 0)], True, "code78k4.c"),
    ("80196", "db", _hexh, [("wsr", [0, 1, 0x20, 0x7F], None)], True, "code96.c"),
    ("80296", "db", _hexh, [("wsr", [0, 1, 0x40], None), ("wsr1", [0, 1, 0x40], None)], True, "code96.c"),
    ("mb90500", "db", _hexh, [("pcb", [0xFF, 0, 0x80], 0xFF), ("dtb", [0, 1, 0xFE], 0), ("adb", [0, 2], 0), ("usb", [0, 3], 0), ("ssb", [0, 4], 0),
                               ("dpr", [1, 0, 0xFF], 1)], True, "codefmc16.c"),
    ("hd6475328", "dc.b", _hexd, [("dp", [0, 1, 0xFF], None), ("ep", [0, 2], None), ("tp", [0, 3], None), ("br", [0, 0xFE], None)], True, "codeh8_5.c"),
    ("mn1613alt", "dc", _hexd, [("csbr", [0, 1, 15], None), ("ssbr", [0, 2], None), ("tsr0", [0, 3], None), ("tsr1", [0, 4], None)], True, "codemn2610.c"),
    ("msm5054", "data", _hexh, [("p", [0, 1, 3], None)], True, "codeol50.c"),
    ("st6225", "byte", _hexh, [("rombase", [0, 1, 0x3F], None)], True, "codest6.c"),
    ("st6218", "byte", _hexh, [("rombase", [0, 0x11], None), ("prpr", [0, 1, 3], None)], True, "codest6.c"),
    ("st9020", "db", _hexh, [("dp", [0, 1], 0)], True, "codest9.c"),
    ("sx20", "data", _hexd, [("fsr", [0, 1, 0xFF], None), ("status", [0, 0x20, 0xE0], None)], True, "codesx20.c"),
    ("xag3", "db", _hexh, [("ds", [0, 1, 0xFF], None)], True, "codexa.c"),
    ("z8601", "db", _hexh, [("rp", [0, 0x10, 0xF0], None)], True, "codez8.c"),
    ("z88c00", "db", _hexh, [("rp0", [0, 0x10, 0xC0], None), ("rp1", [0, 0x18, 0xC8], None)], True, "codez8.c"),
    ("z88c00", "db", _hexh, [("rp", [0, 0x10, 0xC0], None)], True, "codez8.c"),
    ("ez8", "db", _hexh, [("rp", [0, 0x10, 0xF0], None)], True, "codez8.c"),
]
# cpu, byte directive, [(ON/OFF statement, symbol that reports it)], file
AG_ONOFF = [
    ("8051", "db", [("bigendian", "bigendian")], "code51.c"),
    ("80c251", "db", [("srcmode", "insrcmode"), ("bigendian", "bigendian")], "code51.c"),
    ("mpc601", "db", [("bigendian", "bigendian"), ("supmode", "insupmode")], "code601.c"),
    ("sc/mp", "db", [("bigendian", "bigendian")], "codescmp.c"),
    ("68030", "dc.b", [("pmmu", "haspmmu"), ("fullpmmu", "fullpmmu"), ("fpu", "hasfpu"), ("supmode", "insupmode"), ("padding", "padding")], "code68k.c"),
    ("68000", "dc.b", [("padding", "padding"), ("supmode", "insupmode")], "code68k.c"),
    ("sh7600", "dc.b", [("compliterals", "compressedliterals"), ("supmode", "insupmode")], "code7000.c"),
    ("8086", "db", [("fpu", "hasfpu")], "code86.c"),
    ("80960", "db", [("fpu", "hasfpu"), ("supmode", "insupmode")], "code960.c"),
    ("96c141", "db", [("maxmode", "inmaxmode"), ("supmode", "insupmode")], "code96c141.c"),
    ("tms9900", "byte", [("padding", "padding")], "code9900.c"),
    ("atmega8", "data", [("wrapmode", "wrapmode")], "codeavr.c"),     # PACKING changes the layout of the probing DATA statement itself
    ("msp430", "byte", [("padding", "padding")], "codemsp.c"),
    ("ns32016", "byte", [("custom", "custom"), ("supmode", "insupmode")], "codens32k.c"),
    ("xag3", "db", [("branchext", "branchext"), ("supmode", "insupmode")], "codexa.c"),
    ("z380", "db", [("extmode", "inextmode"), ("lwordmode", "inlwordmode")], "codez80.c"),
    ("h8/300h", "dc.b", [("maxmode", "inmaxmode")], "codeh8_3.c"),
    ("am29000", "db", [("supmode", "insupmode")], "code29k.c"),
    ("tms9900", "byte", [("supmode", "insupmode")], "code9900.c"),
    ("mb90500", "db", [("supmode", "insupmode")], "codefmc16.c"),
    ("hd6475328", "dc.b", [("maxmode", "inmaxmode")], "codeh8_5.c"),
    ("mcore", "dc.b", [("supmode", "insupmode")], "codemcore.c"),
    ("z8001", "db", [("supmode", "insupmode")], "codez8000.c"),
    ("hd641016", "dc.b", [("supmode", "insupmode")], "codeh16.c"),
    ("6502", "byt", [("relaxed", "relaxed"), ("dottedstructs", "dottedstructs")], "core"),
]


def genstate_rows():
    """(file, kind, name, reset-per-pass flag) rows of lean/AslModel/Generated/GenState.lean (the C17/C18 inventory of
    statement-settable generator variables) - used to cross-check that the tables above cover the list"""
    path = os.path.join(common.LEAN_DIR, "AslModel", "Generated", "GenState.lean")
    rows = []
    try:
        for m in re.finditer(r'⟨"([^"]+)", "([^"]+)", "([^"]+)", "([^"]+)", (true|false), (true|false), (true|false), (true|false)⟩', open(path).read()):
            rows.append((m.group(1), m.group(2), m.group(3).lower(), m.group(5) == "true"))
    except OSError:
        pass
    return rows


def gen_ag(rng, row, onoff):
    """-> dict(cpu, items=[('A', ri, val) | ('Q', ri)], texts...)"""
    if onoff:
        cpu, db, sw, srcfile = row
        regs = [(name, [0, 1], None) for (name, sym) in sw]
        syms = [sym for (name, sym) in sw]
        num = str
        multi = False
    else:
        cpu, db, _num, regs, multi, srcfile = row
        num = str           # decimal is a number in every integer syntax
        syms = None
    nreg = len(regs)
    lines = ["\tcpu %s" % cpu, "\torg %s" % num(16)]
    items = []
    qid = 0

    def probe(ri):
        nonlocal qid
        expr = syms[ri] if onoff else "assumedval(%s)" % regs[ri][0]
        lines.append("\t%s %s,%s,(%s)&255,((%s)>>8)&255" % (db, num(0xDD), num(qid & 255), expr, expr))
        items.append(("Q", ri, qid))
        qid += 1

    def probes():
        ris = list(range(nreg))
        rng.shuffle(ris)
        for ri in ris[:rng.randrange(1, min(nreg, 3) + 1)]:
            probe(ri)

    # in front of the first ASSUME: every register once (this is where a state left over from the previous pass shows)
    for ri in range(nreg):
        probe(ri)
    nass = rng.randrange(1, 5)
    for s in range(nass):
        k = 1 if (not multi or nreg == 1 or rng.random() < 0.6) else rng.randrange(2, min(nreg, 3) + 1)
        which = rng.sample(range(nreg), k)
        sets = []
        for ri in which:
            vals = regs[ri][1]
            if s == nass - 1:
                # what is left at the end of the source differs from the default / from "nothing said"
                nd = [v for v in vals if v != (regs[ri][2] if regs[ri][2] is not None else 0)]
                val = rng.choice(nd or vals)
            else:
                val = rng.choice(vals)
            sets.append((ri, val))
        if onoff:
            for ri, val in sets:
                lines.append("\t%s %s" % (regs[ri][0], "on" if val else "off"))
        else:
            lines.append("\tassume " + ",".join("%s:%s" % (regs[ri][0], num(val)) for ri, val in sets))
        for ri, val in sets:
            items.append(("A", ri, val))
        if s == nass - 1:
            for ri, _ in sets:
                probe(ri)
        else:
            probes()
    one = "\n".join(lines) + "\n"
    two = "\n".join(lines + ["\t%s (fwdq-fwdq)+%s,%s" % (db, num(0x5A), num(0xA5)), "fwdq:"]) + "\n"
    return dict(cpu=cpu, onoff=onoff, regs=regs, items=items, nq=qid, srcfile=srcfile,
                variants=[("one pass", one, 0), ("forward reference at the end", two, 0), ("one pass + forced extra pass", one, 1),
                          ("forward reference at the end + 2 forced extra passes", two, 2)])


def data_items(recs, n_items_min):
    """the program consists of data items of one directive only: cut the code segment's bytes into equal items"""
    segs = {}
    for it in recs or []:
        if it[0] == "D":
            segs.setdefault(it[2], []).append((it[4], bytes(it[5])))
    if not segs:
        return None
    seg = max(segs, key=lambda s: sum(len(d) for _, d in segs[s]))
    data = b"".join(d for _, d in sorted(segs[seg]))
    return data


def run_ag(out, args, bdir, wd, rng, reps):
    rows = [(r, False) for r in AG_ASSUME] + [(r, True) for r in AG_ONOFF]
    # cross-check with the generated inventory: every assume row must be covered by a table entry
    gs = genstate_rows()
    have = set()
    for (cpu, db, num, regs, multi, srcfile) in AG_ASSUME:
        for (name, vals, dflt) in regs:
            have.add((srcfile, name))
    for (cpu, db, sw, srcfile) in AG_ONOFF:
        for (name, sym) in sw:
            have.add((srcfile, name))
    missing = []
    for (f, kind, name, per_pass) in gs:
        if kind == "assume":
            out["dist"]["AG:inventory-assume-rows%s" % ("(reset per pass)" if per_pass else "(NOT reset per pass)")] += 1
            if (f, name) not in have and not name.startswith("segassumes"):
                missing.append("%s:%s" % (f, name))
        elif kind == "onoff":
            out["dist"]["AG:inventory-onoff-rows"] += 1
            if (f, name) not in have and name not in ("packing", "dsp"):
                missing.append("%s:%s" % (f, name))
    out["dist"]["AG:inventory-rows-without-a-probe-program"] = len(missing)
    if missing:
        out["dist"]["AG:inventory-rows-without-a-probe-program:list"] = ",".join(sorted(missing))[:600]
    progs = []
    for rep in range(reps):
        for (row, onoff) in rows:
            progs.append(gen_ag(rng, row, onoff))
    jobs = []
    for i, p in enumerate(progs):
        for vi, (vname, text, extra) in enumerate(p["variants"]):
            jobs.append((i, vi, text, extra))
    with ThreadPoolExecutor(max_workers=4) as ex:
        ress = list(ex.map(lambda j: assemble_plain(bdir, wd, "ag%d_%d" % (j[0], j[1]), j[2], j[3]), jobs))
    by = {(j[0], j[1]): r for j, r in zip(jobs, ress)}
    reqs, meta = [], []
    for i, p in enumerate(progs):
        out["evaluations"] += 1
        out["distinct"].add(p["variants"][1][1])
        out["dist"]["AG:%s-programs" % ("onoff" if p["onoff"] else "assume")] += 1
        out["dist"]["AG:target/" + p["cpu"]] += 1
        first = None
        for vi, (vname, text, extra) in enumerate(p["variants"]):
            r = by[(i, vi)]
            base = dict(source=text, target=p["cpu"], variant=vname, env=("ASL_VERIF_EXTRA_PASSES=%d" % extra) if extra else "")
            if r["rc"] == 97 or r["rc"] == "timeout":
                out["spec_fail"].append(dict(base, sig=None, why="pass loop does not terminate within %d passes (ASSUME probes)" % PASS_CAP))
                continue
            if r["rc"] != 0 or r["recs"] is None:
                out["spec_fail"].append(dict(base, sig=None, why="asl rejected a valid program: rc=%s %s" % (r["rc"], r["msg"])))
                continue
            data = data_items(r["recs"], p["nq"])
            nitems = 4 * p["nq"] + (2 if vi in (1, 3) else 0)
            if not data or len(data) % nitems or len(data) // nitems not in (1, 2, 4):
                out["problems"].append("AG: cannot cut the image of a probe program for %s into %d items (%d bytes)" % (p["cpu"], nitems, len(data or b"")))
                continue
            u = len(data) // nitems
            vals = [int.from_bytes(data[k * u:(k + 1) * u], "little") for k in range(nitems)]
            if vals[0] != 0xDD and int.from_bytes(data[0:u], "big") == 0xDD:
                vals = [int.from_bytes(data[k * u:(k + 1) * u], "big") for k in range(nitems)]      # code files of targets with TurnWords
            seen = {}
            okm = True
            for q in range(p["nq"]):
                if vals[4 * q] != 0xDD or vals[4 * q + 1] != (q & 255):
                    okm = False
                seen[q] = (vals[4 * q + 2] & 255) | ((vals[4 * q + 3] & 255) << 8)
            if not okm:
                out["spec_fail"].append(dict(base, sig=None, why="the probe markers are not where the source puts them: items %s" % vals[:16]))
                continue
            out["dist"]["AG:%s/passes=%s" % (vname.split()[0] + str(vi), r["passes"])] += 1
            # (a) all arrangements show the same items
            if first is None:
                first = (vname, seen)
            elif seen != first[1]:
                d = [q for q in seen if seen[q] != first[1].get(q)]
                it = [x for x in p["items"] if x[0] == "Q" and x[2] == d[0]][0]
                out["spec_fail"].append(dict(base, sig=None, one_pass_source=p["variants"][0][1],
                    why="the code file differs from the one-pass arrangement of the same statements: probe %d of %s reads %d, in the arrangement `%s` it reads %d (%d probes differ) - %s" % (
                        d[0], p["regs"][it[1]][0], seen[d[0]], first[0], first[1].get(d[0]), len(d), vname)))
            # (b) every probe shows the value declared for its line
            known = [r_[2] is not None for r_ in p["regs"]]
            toks, tm = [], []
            for it in p["items"]:
                if it[0] == "A":
                    toks.append("A%d:%d" % (it[1], it[2]))
                    tm.append(None)
                    known[it[1]] = True
                elif known[it[1]]:
                    toks.append("Q%d:%d" % (it[1], seen[it[2]]))
                    tm.append(it)
                    out["dist"]["AG:probes-judged"] += 1
                else:
                    out["dist"]["AG:probes-before-the-first-ASSUME-without-documented-default(equality only)"] += 1
            reqs.append("J probe %s %s" % (",".join(str(r_[2] or 0) for r_ in p["regs"]), " ".join(toks)))
            meta.append((i, vi, tm))
    try:
        answers = common.driver("c01a", reqs, timeout=900) if reqs else []
    except RuntimeError as ex:
        out["problems"].append(str(ex))
        answers = []
    if len(answers) != len(reqs):
        out["problems"].append("driver c01a answered %d of %d requests" % (len(answers), len(reqs)))
        answers = []
    for (i, vi, tm), rq, ans in zip(meta, reqs, answers):
        if ans.startswith("ok"):
            continue
        p = progs[i]
        vname, text, extra = p["variants"][vi]
        if not ans.startswith("bad "):
            out["problems"].append("driver rejected a c01a request: %r / %s" % (ans, rq[:300]))
            continue
        why = []
        for tok in ans.split()[1:]:
            if tok.startswith("forms="):
                continue
            k, _, w = tok.partition(":")
            it = tm[int(k)]
            if it is None:
                continue
            got = [t for t in rq.split()[3:]][int(k)].split(":")[1]
            why.append("probe %d: %s reads %s at its line, the value declared for that line is %s" % (it[2], p["regs"][it[1]][0], got, w.split(":")[-1]))
        out["spec_fail"].append(dict(source=text, target=p["cpu"], variant=vname, env=("ASL_VERIF_EXTRA_PASSES=%d" % extra) if extra else "",
                                     sig=None, why="; ".join(why[:4]), spec_request_c01a=rq))


def run_part(args, bdir, wd):
    """returns dict(spec_fail, corr_fail, evaluations, distinct, dist, samples, problems)"""
    quick = args.tier == "quick"
    out = dict(spec_fail=[], corr_fail=[], evaluations=0, distinct=set(), dist=Counter(), samples=[], problems=[])
    rng = common.rng_for(args.seed, "C01A")
    run_ab(out, args, bdir, wd, rng, 420 if quick else 6000)
    run_ao(out, args, bdir, wd, rng, 160 if quick else 2400)
    run_ag(out, args, bdir, wd, rng, 3 if quick else 24)
    out["spec_fail"].sort(key=lambda f: len(f["source"]))
    out["corr_fail"].sort(key=lambda f: len(f["source"]))
    out["dist"] = dict(sorted(out["dist"].items()))
    return out
